"""Command line: ``python -m sa check C13 [--tier thorough]``.

Exit status: 0 property held on everything analysed (known findings are
printed); 1 + ``VIOLATION property=<id> replay=<path>`` for a violation decided
exactly; 2 + ``ANALYSIS-ERROR`` when the analysis cannot decide (vanished
anchor, unknown idiom, bound hit, checker crash)."""
import argparse
import importlib
import json
import os
import sys
import traceback

from .core.loader import Repo, AnalysisError
from .core.report import Report
from .core.world import World

LEVELS = {'C05': 'proof'}


class Ctx:
    def __init__(self, prop, tier, repo=None, write=True):
        self.prop = prop
        self.tier = tier
        self.repo = repo or Repo()
        self.world = World(self.repo)
        self.report = Report(prop, tier, LEVELS.get(prop, 'other'),
                             write=write)
        self.thorough = tier == 'thorough'


def run_check(prop, tier, repo=None, write=True, out=print):
    if os.environ.get('SA_NOWRITE'):
        write = False
    try:
        mod = importlib.import_module('sa.rules.%s' % prop.lower())
    except ImportError:
        out('ANALYSIS-ERROR property=%s: no rule module' % prop)
        return 2
    try:
        from .core.loader import Budget
        with Budget(int(os.environ.get('SA_CHECK_BUDGET', '2400' if
                                       tier == 'quick' else '3600')),
                    'the %s analysis of %s' % (tier, prop)):
            ctx = Ctx(prop, tier, repo=repo, write=write)
            mod.run(ctx)
            if ctx.thorough and hasattr(mod, 'run_thorough'):
                mod.run_thorough(ctx)
        return ctx.report.finish(out=out)
    except AnalysisError as e:
        out('ANALYSIS-ERROR property=%s: %s' % (prop, e))
        return 2
    except Exception:
        out('ANALYSIS-ERROR property=%s: checker crashed\n%s' % (
            prop, traceback.format_exc()))
        return 2


def main(argv=None):
    sys.setrecursionlimit(12000)
    ap = argparse.ArgumentParser(prog='sa')
    sub = ap.add_subparsers(dest='cmd', required=True)
    c = sub.add_parser('check')
    c.add_argument('prop')
    c.add_argument('--tier', default=os.environ.get('VERIF_TIER', 'quick'),
                   choices=['quick', 'thorough'])
    r = sub.add_parser('replay')
    r.add_argument('path')
    a = sub.add_parser('all')
    a.add_argument('--tier', default='quick', choices=['quick', 'thorough'])
    st = sub.add_parser('selftest')
    st.add_argument('props', nargs='*')
    st.add_argument('-j', type=int, default=16)
    args = ap.parse_args(argv)
    if args.cmd == 'check':
        return run_check(args.prop.upper(), args.tier)
    if args.cmd == 'all':
        rc = 0
        for i in range(1, 21):
            p = 'C%02d' % i
            if os.path.exists(os.path.join(os.path.dirname(__file__),
                                           'rules', p.lower() + '.py')):
                rc = max(rc, run_check(p, args.tier))
        return rc
    if args.cmd == 'replay':
        with open(args.path) as f:
            rep = json.load(f)
        print('replaying rule %s on construct %s' % (rep['rule'],
                                                     rep['construct']))
        print('rule: %s' % rep.get('rule_text'))
        print('recorded: %s' % rep.get('detail'))
        hits = []

        def out(line):
            hits.append(line)
        rc = run_check(rep['property'], 'quick', write=False, out=out)
        shown = False
        for i, line in enumerate(hits):
            if line.startswith('  construct: ' + rep['construct']):
                print('\n'.join(hits[max(i - 2, 0):i + 2]))
                shown = True
        if not shown:
            print('construct no longer violates the rule on the current '
                  'tree (check exit status %d)' % rc)
        return 1 if shown else 0
    if args.cmd == 'selftest':
        from . import selftest
        return selftest.main(args.props, args.j)


if __name__ == '__main__':
    sys.exit(main())
