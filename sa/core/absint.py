"""E4/E5 - path-sensitive abstract interpreter over the repository's syntax
trees (choice-replay exploration).

The interpreter evaluates a function of the analysed tree on *abstract*
arguments: constants, symbolic terms, abstract heap objects supplied by a
rule.  A condition is decided from the abstract values, or - when it is
unknown - both outcomes are explored (a recorded *assumption*, never handed to
a solver).  Every explored path yields an Outcome: return value / raised
exception, the ordered effects (field writes, opaque calls), the assumptions.

Nothing of the analysed repository is executed by CPython: statements are
walked node by node.  Only pure stdlib helpers on *constants* are folded
(``'a'.lower()``, ``struct.calcsize``, ``1 << 20``).
"""
import ast
import os

from .loader import AnalysisError
from .values import (K, T, Obj, ListV, IterV, Poison, TupleV, SetV, DictV, FuncRef, ClassRef,
                     ExtRef, ModRef, AbsFunc, PropertyV, StaticV,
                     ClassMethodV, RegexV, NTupleV, NTClass, same, show)

MAX_PATHS = 4096
MAX_STEPS = 4000000


class AbsRaise(Exception):
    def __init__(self, exc):
        Exception.__init__(self)
        self.exc = exc          # abstract exception value (Obj / T)


class _Return(Exception):
    def __init__(self, value):
        Exception.__init__(self)
        self.value = value


class _Break(Exception):
    pass


class _Continue(Exception):
    pass


class _GenStop(Exception):
    """The consumer of an inlined generator left its loop (break)."""


class GenV:
    """A generator object: the generator function is run inline when it is
    iterated, every ``yield`` handing control to the consuming loop."""

    def __init__(self, func, args, kwargs):
        self.func = func
        self.args = args
        self.kwargs = kwargs


class Iter2V:
    """iter(callable, sentinel): the callable is called once per step of
    the consuming loop, which ends when it returns the sentinel."""

    def __init__(self, func, sentinel):
        self.func = func
        self.sentinel = sentinel


class _StopLazy(Exception):
    pass


class LazyV:
    """A lazy iterator pipeline (map / takewhile over an endless or lazy
    source): *step(interp)* gives the next element or raises _StopLazy; the
    consuming loop drives it element by element."""

    def __init__(self, step):
        self.step = step


class CtxGenV(GenV):
    """What a ``@contextlib.contextmanager`` function returns: entered by
    running the generator to its yield, the ``with`` body runs there (an
    exception of the body is raised at the yield), the rest runs on exit."""


class _PathCut(Exception):
    """The path was abandoned (loop bound)."""


class Inexact(Exception):
    """Raised inside a path when the interpreter meets a construct it does
    not model; the path is reported as inexact."""


BUILTIN_EXC = {
    'BaseException': None, 'Exception': 'BaseException',
    'KeyboardInterrupt': 'BaseException', 'SystemExit': 'BaseException',
    'GeneratorExit': 'BaseException',
    'ArithmeticError': 'Exception', 'ZeroDivisionError': 'ArithmeticError',
    'OverflowError': 'ArithmeticError',
    'AssertionError': 'Exception', 'AttributeError': 'Exception',
    'EOFError': 'Exception', 'ImportError': 'Exception',
    'LookupError': 'Exception', 'IndexError': 'LookupError',
    'KeyError': 'LookupError', 'MemoryError': 'Exception',
    'NameError': 'Exception', 'OSError': 'Exception',
    'IOError': 'Exception', 'FileNotFoundError': 'OSError',
    'FileExistsError': 'OSError', 'PermissionError': 'OSError',
    'RuntimeError': 'Exception', 'NotImplementedError': 'RuntimeError',
    'RecursionError': 'RuntimeError', 'StopIteration': 'Exception',
    'SyntaxError': 'Exception', 'TypeError': 'Exception',
    'ValueError': 'Exception', 'UnicodeError': 'ValueError',
    'UnicodeDecodeError': 'UnicodeError',
    'UnicodeEncodeError': 'UnicodeError',
    'struct.error': 'Exception',
    'netaddr.AddrFormatError': 'Exception',
    'netaddr.core.AddrFormatError': 'Exception',
    'iso8601.ParseError': 'ValueError',
    'pyparsing.ParseException': 'Exception',
    'pp.ParseException': 'Exception',
    'yaml.scanner.ScannerError': 'Exception',
    'NotADirectoryError': 'OSError', 'IsADirectoryError': 'OSError',
    'InterruptedError': 'OSError', 'BlockingIOError': 'OSError',
    'ChildProcessError': 'OSError', 'ConnectionError': 'OSError',
    'BrokenPipeError': 'ConnectionError', 'TimeoutError': 'OSError',
    'ProcessLookupError': 'OSError', 'BufferError': 'Exception',
    'FloatingPointError': 'ArithmeticError',
    'ModuleNotFoundError': 'ImportError', 'UnboundLocalError': 'NameError',
    'IndentationError': 'SyntaxError', 'SystemError': 'Exception',
    'ReferenceError': 'Exception', 'StopAsyncIteration': 'Exception',
    'UnicodeTranslateError': 'UnicodeError',
    'Warning': 'Exception', 'UserWarning': 'Warning',
    'DeprecationWarning': 'Warning', 'PendingDeprecationWarning': 'Warning',
    'FutureWarning': 'Warning', 'RuntimeWarning': 'Warning',
    'SyntaxWarning': 'Warning', 'ImportWarning': 'Warning',
    'UnicodeWarning': 'Warning', 'BytesWarning': 'Warning',
    'ResourceWarning': 'Warning', 'EncodingWarning': 'Warning',
}
ALIASES = {'IOError': 'OSError', 'netaddr.core.AddrFormatError':
           'netaddr.AddrFormatError', 'pp.ParseException':
           'pyparsing.ParseException'}


def exc_name(cls):
    if isinstance(cls, ClassRef):
        return cls.name
    if isinstance(cls, ExtRef):
        return ALIASES.get(cls.name, cls.name)
    return None


def exc_is_subclass(cls, handler):
    """True/False/None(unknown) - is exception class *cls* caught by
    handler class *handler*."""
    if isinstance(cls, ClassRef):
        if isinstance(handler, ClassRef):
            return cls.is_subclass(handler)
        hn = exc_name(handler)
        if hn is None:
            return None
        for base in cls.ext_bases():
            r = exc_is_subclass(ExtRef(base), handler)
            if r:
                return True
        return False
    cn, hn = exc_name(cls), exc_name(handler)
    if cn is None or hn is None:
        return None
    if isinstance(handler, ClassRef):
        return False
    if cn not in BUILTIN_EXC or hn not in BUILTIN_EXC:
        return True if cn == hn else None
    n = cn
    while n is not None:
        if n == hn:
            return True
        n = BUILTIN_EXC.get(n)
    return False


class Outcome:
    def __init__(self, kind, value, effects, assumptions, exact, notes,
                 state=None):
        self.kind = kind            # 'return' | 'raise' | 'cut'
        self.value = value
        self.effects = effects
        self.assumptions = assumptions
        self.exact = exact
        self.notes = notes
        self.state = state or {}

    @property
    def exc_class(self):
        if self.kind != 'raise':
            return None
        v = self.value
        if isinstance(v, Obj) and v.cls is not None:
            return v.cls.name
        if isinstance(v, Obj):
            return v.fields.get('__class_name__')
        if isinstance(v, T) and v.op == 'exc':
            return v.args[0]
        return show(v)

    def brief(self):
        if self.kind == 'raise':
            return 'raise ' + str(self.exc_class)
        if self.kind == 'cut':
            return 'cut'
        return 'return ' + show(self.value)

    def calls(self, name=None):
        return [e for e in self.effects if e[0] == 'call' and
                (name is None or e[1] == name)]

    def writes(self, field=None):
        return [e for e in self.effects if e[0] == 'write' and
                (field is None or e[2] == field)]


class Frame:
    def __init__(self, func, env, depth):
        self.func = func
        self.env = env
        self.depth = depth
        self.exc_stack = []     # active handled exceptions (for bare raise)
        self.globals_decl = set()   # names declared ``global`` in this frame


class Interp:
    """One interpreter per analysis; ``explore`` enumerates paths."""

    def __init__(self, world, inline_depth=4, on_call=None, on_attr=None,
                 decide=None, pure_calls=()):
        self.world = world
        self.inline_depth = inline_depth
        self.on_call = on_call      # hook(interp, fname, fval, args, kwargs)
        self.on_attr = on_attr      # hook(interp, base, name) -> value|None
        self.decide = decide        # hook(interp, term) -> bool|None
        self.pure_calls = set(pure_calls) | {
            'datetime.datetime', 'datetime.timedelta', 'datetime.date',
            'datetime.timezone', 'fractions.Fraction', 'decimal.Decimal',
            'math.isclose', 'encodings.normalize_encoding',
            'urllib.parse.unquote', 'int.from_bytes', 'math.log',
            'math.log2', 'math.log10', 'math.sqrt', 'math.floor',
            'math.trunc', 'math.ldexp', 'math.frexp', 'math.fsum',
            'math.copysign', 'math.isfinite', 'math.isinf', 'math.isnan'}
        self.on_method = None       # hook(term, name, args, kwargs)
        self.stubs = {}             # in-repo qualname -> behaviour
        self.on_yield = None        # hook(interp, value) for generators
        self.pure_prefixes = ()     # dotted prefixes of side-effect-free libs
        self.guide = None           # evaluator(term) for lazy enumeration
        self.pure_methods = set()   # method names kept as pure terms
        self.rebind_methods = {}    # name -> f(interp, base term, args)
        self.ret_types = {'unicodedata.normalize': 'str', 're.sub': 'str',
                          're.Pattern.sub': 'str',
                          'encodings.normalize_encoding': 'str',
                          'urllib.parse.unquote': 'str'}
        self.types = {}             # term -> type tag
        self.attrs = {}             # term -> {attribute: value}
        self.lens = {}              # term -> known length
        self.not_none = {}          # term -> bool
        self.distinct = set()       # terms pairwise distinct, not None
        self.max_recursion = 2      # nested activations of one function
        self.method_raises = {}     # str/bytes method -> [exception names]
        self.call_raises = {}       # builtin name -> [exception names]
        self._reset_path([])

    # -- path bookkeeping ---------------------------------------------------
    def _reset_path(self, prefix):
        self.world.restore_mutables()
        self.prefix = list(prefix)
        self.choices = []           # [(chosen index, n options)]
        self.effects = []
        self.assumptions = []
        self.assumed = {}
        self.known_eq = {}
        self.known_ne = {}
        self.iter_lens = {}
        self.path_types = {}        # types learnt from isinstance() forks
        self.path_defaults = {}     # mutable parameter defaults, by node
        self.default_objects = {}   # id(object) -> (function, source)
        self.global_over = {}       # (module, name) -> value written via
                                    # a ``global`` declaration on this path
        self.exact = True
        self.notes = []
        self.steps = 0
        self.fresh_n = 0
        self.frames = []

    def choose(self, n, label=None):
        i = len(self.choices)
        if i < len(self.prefix):
            c = self.prefix[i]
        else:
            c = 0
        self.choices.append((c, n))
        return c

    def fresh(self, hint):
        self.fresh_n += 1
        return T('fresh', hint, self.fresh_n)

    def inexact(self, why):
        self.exact = False
        if os.environ.get('SA_DEBUG_INEXACT'):
            import traceback
            traceback.print_stack(limit=14)
        if why not in self.notes:
            self.notes.append(why)

    def effect(self, *e):
        self.effects.append(tuple(e))

    def explore(self, thunk, max_paths=MAX_PATHS, capture=None):
        """Run *thunk* (which sets up abstract arguments and calls into the
        interpreter) along every path.  Returns a list of Outcome."""
        outcomes = []
        prefix = []
        while True:
            self._reset_path(prefix)
            Obj._n = 0
            try:
                try:
                    v = thunk(self)
                    kind = 'return'
                except AbsRaise as r:
                    v, kind = r.exc, 'raise'
                except _Return as r:
                    v, kind = r.value, 'return'
                except _PathCut:
                    v, kind = None, 'cut'
                    self.exact = False
                except Inexact as e:
                    v, kind = None, 'cut'
                    self.inexact(str(e))
                except (_Break, _Continue):
                    v, kind = None, 'cut'
                    self.inexact('break/continue outside loop')
            except RecursionError:
                raise AnalysisError('interpreter recursion limit')
            state = capture(self) if capture else None
            outcomes.append(Outcome(kind, v, list(self.effects),
                                    list(self.assumptions), self.exact,
                                    list(self.notes), state))
            if len(outcomes) > max_paths:
                raise AnalysisError('path bound %d exceeded' % max_paths)
            # backtrack
            ch = self.choices
            while ch and ch[-1][0] + 1 >= ch[-1][1]:
                ch.pop()
            if not ch:
                break
            prefix = [c for c, _n in ch[:-1]] + [ch[-1][0] + 1]
        return outcomes

    # -- truth ---------------------------------------------------------------
    def truth(self, v):
        """Decide truthiness of abstract value *v*: bool (possibly by an
        explored assumption)."""
        b = self.truth_known(v)
        if b is not None:
            return b
        if self.guide is not None:
            g = self._guided(v)
            if g is not None:
                return g
        return self.assume(v)

    def _guided(self, v):
        """Lazy path enumeration: the branch is chosen by evaluating the
        condition term on the current valuation (recorded as assumption)."""
        from .termeval import CannotEval, Raised
        neg = False
        t = v
        while isinstance(t, T) and t.op == 'not':
            t = t.args[0]
            neg = not neg
        try:
            val = bool(self.guide(t))
        except (CannotEval, Raised):
            return None
        self.assumed[t] = val
        self.assumptions.append((t, val))
        return (not val) if neg else val

    def truth_known(self, v):
        if isinstance(v, K):
            return bool(v.v)
        if isinstance(v, (ListV, TupleV, SetV)):
            return len(v.items) > 0
        if isinstance(v, DictV):
            if v.unknown and not v.keys:
                return None
            return len(v.keys) > 0
        if isinstance(v, (Obj, FuncRef, ClassRef, ExtRef, ModRef, AbsFunc,
                          RegexV)):
            if isinstance(v, Obj):
                t = v.fields.get('__truth__')
                if t is not None:
                    return t
                if v.cls is not None:
                    m, _c = v.cls.lookup('__bool__')
                    if m is None:
                        m, _c = v.cls.lookup('__len__')
                    if m is not None:
                        return None
            return True
        if isinstance(v, T):
            if v.op == 'not':
                b = self.truth_known(v.args[0])
                return None if b is None else (not b)
            if v in self.assumed:
                return self.assumed[v]
            if v.op == 'cmp':
                b = self._cmp_known(v)
                if b is not None:
                    return b
            if self.decide is not None:
                b = self.decide(self, v)
                if b is not None:
                    return b
        return None

    def _cmp_known(self, t):
        op, a, b = t.args
        if isinstance(b, K) and not isinstance(a, K):
            if op == '==':
                if a in self.known_eq:
                    return self.known_eq[a] == b
                if b in self.known_ne.get(a, ()):
                    return False
            if op == 'in' and isinstance(b.v, tuple):
                if a in self.known_eq:
                    return self.known_eq[a].v in b.v
        return None

    def assume(self, v):
        """Fork on an unknown condition."""
        neg = False
        while isinstance(v, T) and v.op == 'not':
            v = v.args[0]
            neg = not neg
        c = self.choose(2)
        val = (c == 0)
        self.assumed[v] = val
        self.assumptions.append((v, val))
        if isinstance(v, T) and v.op == 'isinstance' and val and \
                isinstance(v.args[1], T) and len(v.args[1].args) == 1:
            ty = v.args[1].args[0]
            name = getattr(ty, 'name', None)
            if name in ('str', 'bytes', 'int', 'float', 'bool'):
                self.path_types[v.args[0]] = name
        if isinstance(v, T) and v.op == 'cmp':
            op, a, b = v.args
            if op == '==' and isinstance(b, K):
                if val:
                    self.known_eq[a] = b
                else:
                    self.known_ne.setdefault(a, set()).add(b)
        return (not val) if neg else val

    # -- calling ---------------------------------------------------------------
    def call(self, f, args=(), kwargs=None):
        kwargs = kwargs or {}
        self.steps += 1
        if self.steps > MAX_STEPS:
            raise AnalysisError('step bound exceeded')
        if isinstance(f, AbsFunc):
            return f.behaviour(self, list(args), dict(kwargs))
        if isinstance(f, FuncRef):
            stub = self.stubs.get(f.qualname)
            if stub is not None:
                a = list(args)
                if f.bound is not None:
                    a = [f.bound] + a
                return stub(self, a, dict(kwargs))
            return self.call_func(f, list(args), kwargs)
        if isinstance(f, ClassRef):
            return self.instantiate(f, list(args), kwargs)
        if isinstance(f, NTClass):
            return self.make_ntuple(f, f, list(args), kwargs)
        if isinstance(f, Obj):
            m = self.get_attr(f, '__call__', missing_ok=True)
            if m is not None:
                return self.call(m, args, kwargs)
        from . import models
        return models.call_external(self, f, list(args), kwargs)

    def opaque_call(self, name, f, args, kwargs):
        """A call the interpreter does not look into."""
        if self.on_call is not None:
            r = self.on_call(self, name, f, args, kwargs)
            if r is not NotImplemented:
                return r
        folded = self._fold_regex_call(name, args, kwargs)
        if folded is not None:
            return folded
        if len(args) >= 2 and name not in self.pure_calls and (
                isinstance(args[0], (RegexV, K)) or isinstance(args[0], T)):
            # a constant pattern applied to a constant subject is computed;
            # a pattern that is data forks on matched / not / re.error
            from . import rxmodel
            if name in rxmodel.MODES:
                r = rxmodel.on_call(self, name, f, args, kwargs)
                if r is not NotImplemented:
                    return r
        if name in ('setattr', 'delattr', 'vars', 'globals', 'locals',
                    'exec', 'eval', 'object.__setattr__',
                    'object.__delattr__', 'operator.setitem',
                    'operator.delitem'):
            # reflective access to the state the interpreter tracks
            raise Inexact('call of %s is not modelled' % name)
        if name.rsplit('.', 1)[-1] in (
                'callback', 'push', 'enter_context',
                'add_done_callback', 'call_later',
                'call_soon', 'submit', 'start_new_thread') and \
                name not in self.pure_calls:
            # an unmodelled object is handed something to call later
            raise Inexact('call of %s (deferred call on an unmodelled '
                          'object)' % name)
        targs = tuple(self.termify(a) for a in args) + tuple(
            T('kw', k, self.termify(v)) for k, v in sorted(kwargs.items()))
        self.effect('call', name, targs)
        if name in self.pure_calls or (
                self.pure_prefixes and name.startswith(self.pure_prefixes)):
            t = T('call', name, *targs)
            if name in self.ret_types:
                self.types[t] = self.ret_types[name]
            self.may_raise(name, t)
            return t
        self.fresh_n += 1
        return T('ret', name, self.fresh_n, *targs)

    def _fold_regex_call(self, name, args, kwargs):
        """re.sub / subn / findall / split of a constant pattern with a
        constant (non-callable) replacement on a constant subject: computed
        by the stdlib."""
        import re as _re
        base = name.rsplit('.', 1)[-1]
        if not (name.startswith('re.') and base in (
                'sub', 'subn', 'findall', 'split', 'finditer')):
            return None
        if self.guide is not None and any(isinstance(a, T) for a in args):
            # following one input: a str-valued term is what it evaluates to
            from .termeval import CannotEval, Raised
            args = list(args)
            for i_, a_ in enumerate(args):
                if isinstance(a_, T):
                    try:
                        got = self.guide(a_)
                    except (CannotEval, Raised):
                        return None
                    if not isinstance(got, (str, bytes, int)):
                        return None
                    args[i_] = K(got)
        if not args or not all(isinstance(a, (K, RegexV)) for a in args) \
                or not all(isinstance(v, K) for v in kwargs.values()):
            return None
        if base == 'finditer' and not (
                len(args) == 2 and isinstance(args[0], RegexV)):
            return None
        rx = args[0]
        try:
            if isinstance(rx, RegexV):
                pat = _re.compile(rx.pattern, rx.flags)
                rest = [a.v for a in args[1:]]
                if any(isinstance(a, RegexV) for a in args[1:]):
                    return None
                r = getattr(pat, base)(*rest, **{k: v.v for k, v in
                                                 kwargs.items()})
            else:
                if any(isinstance(a, RegexV) for a in args[1:]):
                    return None
                r = getattr(_re, base)(*[a.v for a in args],
                                       **{k: v.v for k, v in kwargs.items()})
        except _re.error:
            raise AbsRaise(T('exc', 're.error'))
        except TypeError:
            raise AbsRaise(T('exc', 'TypeError'))
        except (IndexError, KeyError) as e:
            raise AbsRaise(T('exc', type(e).__name__))
        from . import models
        if base == 'finditer':
            from .rxmodel import _const_match
            return IterV([_const_match(m_, args[1]) for m_ in r])
        return models.from_python(r)

    def may_raise(self, name, t):
        """Fork on the exceptions a partial builtin/stdlib call is declared
        (by the rule) to raise; both polarities are recorded so that the
        table can be evaluated on concrete valuations."""
        may = self.call_raises.get(name)
        if not may:
            return
        if self.guide is not None:
            from .termeval import CannotEval, Raised
            try:
                self.guide(t)
                self.assumptions.append((T('defined', t), True))
                return
            except Raised as r:
                if r.name in may:
                    self.assumptions.append((T('raises', t, r.name), True))
                    raise AbsRaise(T('exc', r.name, t))
            except CannotEval:
                pass
        # the outcome of a pure call is a function of its arguments: what
        # this path already assumed about the same call holds again
        d = T('defined', t)
        for at, ab in self.assumptions:
            if ab is True and isinstance(at, T):
                if at is d or at == d:
                    return
                if at.op == 'raises' and at.args[0] == t:
                    raise AbsRaise(T('exc', at.args[1], t))
        c = self.choose(len(may) + 1)
        if c > 0:
            self.assumptions.append((T('raises', t, may[c - 1]), True))
            raise AbsRaise(T('exc', may[c - 1], t))
        self.assumptions.append((T('defined', t), True))

    def termify(self, v):
        if isinstance(v, (K, T, TupleV, ExtRef)):
            return v
        if isinstance(v, Obj):
            return T('obj', v.label, v.id)
        if isinstance(v, ListV):
            return T('list', *[self.termify(x) for x in v.items])
        if isinstance(v, SetV):
            return T('set', *[self.termify(x) for x in v.items])
        if isinstance(v, DictV):
            return T('dict', *[T('item', self.termify(k), self.termify(x))
                               for k, x in zip(v.keys, v.vals)])
        if isinstance(v, FuncRef):
            return T('func', v.qualname)
        if isinstance(v, ClassRef):
            return T('class', v.name)
        if isinstance(v, AbsFunc):
            return T('func', v.name)
        if isinstance(v, RegexV):
            return T('regex', v.pattern, v.flags)
        if isinstance(v, ModRef):
            return T('mod', v.name)
        return T('val', repr(v))

    def call_func(self, f, args, kwargs):
        node = f.node
        if len(self.frames) >= self.inline_depth + 1 and self.frames:
            return self.opaque_call(f.qualname, f, args, kwargs)
        for fr in self.frames:
            if fr.func is not None and fr.func.node is node and \
                    len([x for x in self.frames
                         if x.func is not None and x.func.node is node]) >= \
                    self.max_recursion:
                return self.opaque_call(f.qualname, f, args, kwargs)
        memo = False
        for d in getattr(f, 'decorators', ()):
            if 'functools.lru_cache' in d or 'functools.cache' in d:
                # transparent for one call; the value handed out is shared
                # by every later call with equal arguments
                memo = True
                continue
            self.inexact('function %s is wrapped by decorator %s' % (
                f.qualname, d))
        if memo:
            r = self._call_func_body(f, node, args, kwargs)
            self.effect('memo', f.qualname, r)
            return r
        return self._call_func_body(f, node, args, kwargs)

    def _call_func_body(self, f, node, args, kwargs):
        env = dict(f.closure or {})
        if f.bound is not None:
            args = [f.bound] + list(args)
        self.bind_args(node.args, args, kwargs, env, f)
        if isinstance(node, ast.Lambda):
            fr = Frame(f, env, len(self.frames))
            self.frames.append(fr)
            try:
                return self.eval(node.body, fr)
            finally:
                self.frames.pop()
        inline = getattr(f, 'run_inline', None)
        if inline is None:
            # a rule may drive a generator function directly (interp.on_yield)
            inline = self.on_yield
        if _is_generator(node) and inline is None:
            if getattr(f, 'is_ctxmgr', False):
                return CtxGenV(f, args, kwargs)
            return GenV(f, args, kwargs)
        fr = Frame(f, env, len(self.frames))
        fr.on_yield = inline    # only the frame run by run_generator yields
        self.frames.append(fr)
        try:
            self.exec_block(node.body, fr)
            return K(None)
        except _Return as r:
            return r.value
        finally:
            self.frames.pop()

    def bind_args(self, a, args, kwargs, env, f):
        params = [p.arg for p in a.posonlyargs + a.args]
        defaults = [None] * (len(params) - len(a.defaults)) + list(a.defaults)
        kwargs = dict(kwargs)
        fr0 = Frame(f, dict(f.closure or {}), 0)
        for i, p in enumerate(params):
            if i < len(args):
                env[p] = args[i]
            elif p in kwargs:
                env[p] = kwargs.pop(p)
            elif defaults[i] is not None:
                env[p] = self.default_value(defaults[i], f, fr0)
            else:
                raise self.raise_builtin('TypeError', 'missing argument ' + p)
        extra = list(args[len(params):])
        if a.vararg:
            env[a.vararg.arg] = TupleV(extra)
        elif extra:
            raise self.raise_builtin('TypeError', 'too many arguments')
        for p, d in zip(a.kwonlyargs, a.kw_defaults):
            if p.arg in kwargs:
                env[p.arg] = kwargs.pop(p.arg)
            elif d is not None:
                env[p.arg] = self.default_value(d, f, fr0)
            else:
                raise self.raise_builtin('TypeError', 'missing kw ' + p.arg)
        if a.kwarg:
            env[a.kwarg.arg] = DictV([(K(k), v) for k, v in kwargs.items()])
        elif kwargs:
            raise self.raise_builtin('TypeError', 'unexpected keyword')

    def default_value(self, expr, f, fr):
        """A parameter default is one object made when the function is
        defined: every call that omits the argument gets that same object.
        (Kept per explored path: a path starts with the definitions fresh.)"""
        key = id(expr)
        if key in self.path_defaults:
            return self.path_defaults[key]
        v = self.eval_in_module(expr, f, fr)
        if isinstance(v, (ListV, DictV, SetV, Obj)):
            self.path_defaults[key] = v
            self.default_objects[id(v)] = (f.qualname, ast.unparse(expr))
        return v

    def eval_in_module(self, expr, f, fr):
        return self.eval(expr, fr)

    def make_ntuple(self, nt, cls, args, kwargs):
        """Instance of a named tuple class (or of a class derived from it)
        from positional / keyword arguments and the declared defaults."""
        n = len(nt.fields)
        if len(args) > n:
            raise AbsRaise(T('exc', 'TypeError', 'too many arguments'))
        items = list(args) + [None] * (n - len(args))
        for k, v in kwargs.items():
            if k not in nt.fields or items[nt.fields.index(k)] is not None:
                raise AbsRaise(T('exc', 'TypeError', 'unexpected argument'))
            items[nt.fields.index(k)] = v
        first_default = n - len(nt.defaults)
        for i in range(n):
            if items[i] is None:
                if i < first_default:
                    raise AbsRaise(T('exc', 'TypeError',
                                     'missing argument'))
                items[i] = nt.defaults[i - first_default]
        return NTupleV(items, nt.fields, cls)

    def ntuple_attr(self, base, name):
        """Attribute of a named tuple instance (None: not one of its own)."""
        if name in base.names:
            return base.items[base.names.index(name)]
        nt = base.cls if isinstance(base.cls, NTClass) else \
            base.cls.nt_base()
        if name == '_fields':
            return K(tuple(base.names))
        if name == '__class__':
            return base.cls
        if name == '_asdict':
            return AbsFunc('_asdict', lambda i2, a, kw: DictV(
                [(K(f), v) for f, v in zip(base.names, base.items)]))
        if name == '_replace':
            def replace(i2, a, kw):
                merged = dict(zip(base.names, base.items))
                for k, v in kw.items():
                    if k not in merged:
                        raise AbsRaise(T('exc', 'ValueError',
                                         'unexpected field'))
                    merged[k] = v
                return NTupleV([merged[f] for f in base.names], base.names,
                               base.cls)
            return AbsFunc('_replace', replace)
        if isinstance(base.cls, ClassRef):
            v, _owner = base.cls.lookup(name)
            if v is not None:
                return self.bind_member(v, base, base.cls)
        return None

    def ntclass_attr(self, nt, cls, name):
        if name == '_fields':
            return K(tuple(nt.fields))
        if name == '__name__':
            return K(nt.name if cls is nt else cls.name)
        if name == '_field_defaults':
            k = len(nt.fields) - len(nt.defaults)
            return DictV([(K(f), v) for f, v in zip(nt.fields[k:],
                                                    nt.defaults)])
        if name == '_make':
            return AbsFunc('_make', lambda i2, a, kw: i2.make_ntuple(
                nt, cls, list(i2.unpack(a[0], len(nt.fields))
                              if isinstance(a[0], T) else
                              i2.iterate(a[0])), {}))
        return None

    def instantiate(self, cls, args, kwargs):
        why, _o = cls.lookup('__unmodelled__')
        if why is not None:
            self.inexact('class %s: %s' % (cls.name, why.v))
        if cls.lookup('__enum_members__')[0] is not None:
            return self.world.enum_lookup(self, cls, args)
        nt = cls.nt_base()
        if nt is not None:
            if cls.lookup('__new__')[0] is not None or \
                    cls.lookup('__init__')[0] is not None:
                raise Inexact('named tuple subclass with its own '
                              'constructor')
            return self.make_ntuple(nt, cls, args, kwargs)
        exts = cls.ext_bases()
        obj = Obj(cls)
        init, owner = cls.lookup('__init__')
        if isinstance(init, FuncRef):
            self.call_func(init.bind(obj), args, kwargs)
        else:
            obj.fields['args'] = TupleV(args)
        if exts:
            obj.fields.setdefault('args', TupleV(args))
        return obj

    def current_exception(self):
        for f in reversed(self.frames):
            if f.exc_stack:
                return f.exc_stack[-1]
        return None

    def raise_builtin(self, name, msg=''):
        return AbsRaise(T('exc', name, msg))

    def make_exc(self, cls, args):
        if isinstance(cls, ClassRef):
            return self.instantiate(cls, list(args), {})
        n = exc_name(cls)
        return T('exc', n, *[self.termify(a) for a in args])

    def exc_class_of(self, exc):
        """Class (ClassRef/ExtRef) of an abstract exception value."""
        if isinstance(exc, Obj):
            if exc.cls is not None:
                return exc.cls
            n = exc.fields.get('__class_name__')
            return ExtRef(n) if n else None
        if isinstance(exc, T) and exc.op == 'exc':
            return ExtRef(exc.args[0])
        return None

    # -- statements ------------------------------------------------------------
    def exec_block(self, stmts, fr):
        for s in stmts:
            self.exec_stmt(s, fr)

    def exec_stmt(self, s, fr):
        self.steps += 1
        if self.steps > MAX_STEPS:
            raise AnalysisError('step bound exceeded')
        m = getattr(self, 'st_' + type(s).__name__, None)
        if m is None:
            raise Inexact('statement %s not modelled' % type(s).__name__)
        return m(s, fr)

    def st_Expr(self, s, fr):
        if isinstance(s.value, ast.Constant):
            return
        self.eval(s.value, fr)

    def st_Pass(self, s, fr):
        pass

    def st_Global(self, s, fr):
        fr.globals_decl.update(s.names)

    def st_Nonlocal(self, s, fr):
        pass

    def st_Import(self, s, fr):
        for a in s.names:
            name = a.asname or a.name.split('.')[0]
            target = a.name if a.asname else a.name.split('.')[0]
            fr.env[name] = self.world.import_name(target)

    def st_ImportFrom(self, s, fr):
        for a in s.names:
            fr.env[a.asname or a.name] = self.world.import_from(
                s.module, a.name)

    def st_FunctionDef(self, s, fr):
        f = FuncRef(s, fr.func.module if fr.func else None,
                    closure=fr.env, name=s.name)
        v = f
        for d in reversed(s.decorator_list):
            v = self.apply_decorator(d, v, fr)
        fr.env[s.name] = v

    def apply_decorator(self, d, v, fr):
        # @name.setter / @name.getter on an existing property
        if isinstance(d, ast.Attribute) and d.attr in ('setter', 'getter') \
                and isinstance(d.value, ast.Name) and \
                isinstance(fr.env.get(d.value.id), PropertyV):
            old = fr.env[d.value.id]
            if d.attr == 'setter':
                return PropertyV(old.fget, v)
            return PropertyV(v, old.fset)
        dv = self.eval(d, fr)
        if isinstance(dv, ExtRef):
            if dv.name == 'property':
                return PropertyV(v)
            if dv.name == 'functools.cached_property':
                # computed on first access and kept on the instance: for a
                # getter without side effects this is a property
                pv = PropertyV(v)
                pv.cached = True
                return pv
            if dv.name == 'staticmethod':
                return StaticV(v)
            if dv.name == 'classmethod':
                return ClassMethodV(v)
            if dv.name == 'functools.singledispatch' and \
                    isinstance(v, FuncRef):
                return self.make_dispatcher(v, fr)
            if dv.name in ('abc.abstractmethod', 'functools.wraps',
                           'contextlib.contextmanager'):
                if isinstance(v, FuncRef) and \
                        dv.name == 'contextlib.contextmanager':
                    v.is_ctxmgr = True
                return v
        if isinstance(dv, AbsFunc):
            # a decorator the interpreter built itself (register of a
            # single-dispatch function, functools.wraps(f), a partial)
            return dv.behaviour(self, [v], {})
        if isinstance(dv, (FuncRef, ClassRef)) and isinstance(v, FuncRef):
            # a decorator defined in the repo: run it on the function; what
            # it returns (usually a closure around the function) is what
            # the name is bound to
            saved = (len(self.frames), self.steps)
            try:
                r = self.call(dv, [v])
                if isinstance(r, (FuncRef, Obj, PropertyV, StaticV,
                                  ClassMethodV)):
                    return r
            except (AbsRaise, Inexact, _PathCut):
                del self.frames[saved[0]:]
        name = dv.name if isinstance(dv, ExtRef) else show(dv)
        if isinstance(v, FuncRef):
            v.decorators = getattr(v, 'decorators', []) + [name]
        return v

    def make_dispatcher(self, default, fr):
        """functools.singledispatch(default): a callable object choosing the
        implementation by isinstance tests on the first argument, latest
        registration of the most specific type first (registrations of
        unrelated types cannot both match; a registration for a base class
        of another registered type is tried after it)."""
        from . import models
        disp = Obj(None, {}, label='singledispatch(%s)' % default.name)
        registry = []       # (type value, implementation)

        def register(i2, a, kw):
            if len(a) == 2:
                registry.append((a[0], a[1]))
                return a[1]
            if len(a) == 1 and isinstance(a[0], FuncRef):
                f = a[0]
                params = f.node.args.args
                ann = params[0].annotation if params else None
                if ann is None:
                    raise Inexact('register() without a type')
                ty = i2.eval(ann, Frame(f, dict(fr.env), 0))
                registry.append((ty, f))
                return f
            if len(a) == 1:
                ty = a[0]

                def deco(i3, b, kw3):
                    registry.append((ty, b[0]))
                    return b[0]
                return AbsFunc('register(%s)' % show(i2.termify(ty)), deco)
            raise Inexact('register() form not modelled')

        def specific_first():
            order = list(reversed(registry))
            # a subclass registered earlier still wins over its base
            def rank(entry):
                ty = entry[0]
                n = 0
                for other, _f in registry:
                    if other is not ty and isinstance(ty, ClassRef) and \
                            isinstance(other, ClassRef) and \
                            other.is_subclass(ty):
                        n += 1
                if isinstance(ty, ExtRef) and ty.name == 'object':
                    n += 1000
                return n
            return sorted(order, key=rank)

        def dispatch_for(i2, arg):
            for ty, impl in specific_first():
                if i2.truth(models.isinstance_(i2, arg, ty)):
                    return impl
            return default

        def call(i2, a, kw):
            if not a:
                raise AbsRaise(T('exc', 'TypeError',
                                 'requires at least 1 positional argument'))
            return i2.call(dispatch_for(i2, a[0]), a, kw)
        disp.fields['__call__'] = AbsFunc('singledispatch.__call__', call)
        disp.fields['register'] = AbsFunc('register', register)
        disp.fields['__name__'] = K(default.name)
        disp.fields['__wrapped__'] = default
        return disp

    def st_ClassDef(self, s, fr):
        cls = self.world.make_class(self, s, fr)
        v = cls
        for d in reversed(s.decorator_list):
            v = self.apply_class_decorator(d, v, cls, fr)
        fr.env[s.name] = v

    def apply_class_decorator(self, d, v, cls, fr):
        try:
            dv = self.eval(d.func if isinstance(d, ast.Call) else d, fr)
        except (AbsRaise, Inexact):
            dv = None
        name = dv.name if isinstance(dv, ExtRef) else None
        if name in ('dataclasses.dataclass',) and v is cls:
            opts = {}
            if isinstance(d, ast.Call):
                for kw in d.keywords:
                    try:
                        opts[kw.arg] = self.eval(kw.value, fr)
                    except (AbsRaise, Inexact):
                        opts[kw.arg] = None
            return self.world.make_dataclass(self, cls, opts, fr)
        if name in ('functools.total_ordering', 'typing.final',
                    'typing.runtime_checkable'):
            if name == 'functools.total_ordering':
                cls.attrs['__unmodelled__'] = K(
                    'ordering methods synthesised by total_ordering')
            return v
        # any other class decorator: the class is used as written, but
        # whatever creates or calls instances is marked inexact
        cls.attrs['__unmodelled__'] = K('class decorator %s' %
                                        ast.unparse(d))
        return v

    def st_Return(self, s, fr):
        raise _Return(self.eval(s.value, fr) if s.value else K(None))

    def st_Break(self, s, fr):
        raise _Break()

    def st_Continue(self, s, fr):
        raise _Continue()

    def st_Assert(self, s, fr):
        if not self.truth(self.eval(s.test, fr)):
            raise self.raise_builtin('AssertionError')

    def st_Delete(self, s, fr):
        for t in s.targets:
            self.delete_target(t, fr)

    def delete_target(self, t, fr):
        if isinstance(t, ast.Name):
            fr.env.pop(t.id, None)
        elif isinstance(t, ast.Tuple):
            for e in t.elts:
                self.delete_target(e, fr)
        elif isinstance(t, ast.Subscript):
            base = self.eval(t.value, fr)
            idx = self.eval(t.slice, fr)
            if isinstance(base, DictV) and isinstance(idx, (K, T, TupleV)):
                if isinstance(idx, K) or base.index(idx) >= 0:
                    if not base.delete(idx):
                        if base.unknown:
                            self.inexact('del of unknown key')
                        else:
                            raise AbsRaise(T('exc', 'KeyError',
                                             self.termify(idx)))
                    self.effect('delitem', self.termify_ref(base),
                                self.termify(idx))
                    return
            self.effect('delitem', self.termify(base), self.termify(idx))
            if not isinstance(base, T):
                self.inexact('del on %s' % type(base).__name__)
        elif isinstance(t, ast.Attribute):
            base = self.eval(t.value, fr)
            if isinstance(base, Obj):
                base.fields.pop(t.attr, None)
                self.effect('delattr', base.label, t.attr)
            else:
                self.inexact('del attribute')
        else:
            raise Inexact('del target')

    def termify_ref(self, v):
        return T('ref', type(v).__name__, id(v) % 100000)

    def st_Assign(self, s, fr):
        v = self.eval(s.value, fr)
        for t in s.targets:
            self.assign(t, v, fr)

    def st_AnnAssign(self, s, fr):
        if s.value is not None:
            self.assign(s.target, self.eval(s.value, fr), fr)

    def st_AugAssign(self, s, fr):
        cur = self.eval(_load(s.target), fr)
        v = self.eval(s.value, fr)
        from . import models
        if isinstance(cur, ListV) and isinstance(s.op, ast.Add):
            for x in self.iterate(v):
                cur.items.append(x)
            return
        self.assign(s.target, models.binop(self, s.op, cur, v), fr)

    def assign(self, t, v, fr):
        if isinstance(t, ast.Name):
            if t.id in fr.globals_decl and fr.func is not None and \
                    fr.func.module is not None:
                # module state written by a call: kept per path, seen by
                # every later call on the path
                self.global_over[(fr.func.module.name, t.id)] = v
                self.effect('global_write', fr.func.module.name, t.id,
                            self.termify(v))
            else:
                fr.env[t.id] = v
        elif isinstance(t, (ast.Tuple, ast.List)) and any(
                isinstance(e, ast.Starred) for e in t.elts):
            # a, *rest = v: the starred name takes what the others leave
            star = [i for i, e in enumerate(t.elts)
                    if isinstance(e, ast.Starred)]
            if len(star) != 1:
                raise Inexact('two starred targets')
            items = list(self.iterate(v))
            before, after = star[0], len(t.elts) - star[0] - 1
            if len(items) < before + after:
                raise AbsRaise(T('exc', 'ValueError', 'unpack'))
            for e, x in zip(t.elts[:before], items[:before]):
                self.assign(e, x, fr)
            self.assign(t.elts[star[0]].value,
                        ListV(items[before:len(items) - after]), fr)
            for e, x in zip(t.elts[star[0] + 1:],
                            items[len(items) - after:]):
                self.assign(e, x, fr)
        elif isinstance(t, (ast.Tuple, ast.List)):
            items = self.unpack(v, len(t.elts), t)
            for e, x in zip(t.elts, items):
                self.assign(e, x, fr)
        elif isinstance(t, ast.Attribute):
            base = self.eval(t.value, fr)
            self.set_attr(base, t.attr, v)
        elif isinstance(t, ast.Subscript) and isinstance(t.slice, ast.Slice):
            # lst[a:b] = values on a local list: the local is rebound to
            # the spliced list (a term when a bound or the values are
            # symbolic)
            if not isinstance(t.value, ast.Name) or t.slice.step is not None:
                raise Inexact('slice assignment to a non-local target')
            base = self.eval(t.value, fr)
            lo = self.eval(t.slice.lower, fr) if t.slice.lower else K(None)
            hi = self.eval(t.slice.upper, fr) if t.slice.upper else K(None)
            if isinstance(base, ListV) and isinstance(v, (ListV, TupleV)) \
                    and isinstance(lo, K) and isinstance(hi, K):
                items = list(base.items)
                items[lo.v:hi.v] = list(v.items)
                base.items[:] = items
                return
            nt = T('splice', self.termify(base), self.termify(lo),
                   self.termify(hi), self.termify(v))
            self.types[nt] = 'list'
            fr.env[t.value.id] = nt
        elif isinstance(t, ast.Subscript):
            base = self.eval(t.value, fr)
            idx = self.eval(t.slice, fr)
            self.set_item(base, idx, v)
        elif isinstance(t, ast.Starred):
            raise Inexact('starred assignment')
        else:
            raise Inexact('assignment target')

    def unpack(self, v, n, node=None):
        if isinstance(v, (TupleV, ListV)):
            if len(v.items) != n:
                raise AbsRaise(T('exc', 'ValueError', 'unpack'))
            return list(v.items)
        if isinstance(v, K) and isinstance(v.v, (tuple, str, bytes)):
            if len(v.v) != n:
                raise AbsRaise(T('exc', 'ValueError', 'unpack'))
            if isinstance(v.v, tuple):
                return [K(x) for x in v.v]
            return [K(v.v[i:i + 1]) if isinstance(v.v, str) else K(v.v[i])
                    for i in range(n)]
        if isinstance(v, T):
            return [T('item', v, K(i)) for i in range(n)]
        raise Inexact('unpack of %s' % type(v).__name__)

    def set_attr(self, base, name, v):
        if isinstance(base, Obj) and base.cls is not None:
            member, _owner = base.cls.lookup(name)
            if isinstance(member, PropertyV):
                if member.fset is None:
                    raise self.raise_builtin('AttributeError',
                                             'property has no setter')
                self.call(member.fset.bind(base), [v])
                return
            if isinstance(member, Obj) and member.cls is not None:
                # a data descriptor of a repo class
                setter, _o = member.cls.lookup('__set__')
                if isinstance(setter, FuncRef):
                    self.call(setter.bind(member), [base, v])
                    return
        if isinstance(base, Obj):
            base.fields[name] = v
            self.effect('write', base.label, name, self.termify(v))
        elif isinstance(base, FuncRef):
            self.world.func_attrs.setdefault(base.qualname, {})[name] = v
            self.effect('write', 'func:' + base.qualname, name,
                        self.termify(v))
        elif isinstance(base, T):
            self.effect('write', self.termify(base), name, self.termify(v))
        else:
            self.inexact('attribute store on %s' % type(base).__name__)

    def set_item(self, base, idx, v):
        if isinstance(base, DictV):
            base.set(idx, v)
            if isinstance(idx, T):
                base.unknown = True
            self.effect('setitem', self.termify_ref(base), self.termify(idx),
                        self.termify(v))
        elif isinstance(base, ListV) and isinstance(idx, K) and \
                isinstance(idx.v, int) and -len(base.items) <= idx.v < \
                len(base.items):
            base.items[idx.v] = v
        elif isinstance(base, T):
            self.effect('setitem', base, self.termify(idx), self.termify(v))
        else:
            self.inexact('item store on %s' % type(base).__name__)

    def st_If(self, s, fr):
        if self.truth(self.eval(s.test, fr)):
            self.exec_block(s.body, fr)
        else:
            self.exec_block(s.orelse, fr)

    def st_Match(self, s, fr):
        subject = self.eval(s.subject, fr)
        for case in s.cases:
            if self.match_pattern(case.pattern, subject, fr) and (
                    case.guard is None or
                    self.truth(self.eval(case.guard, fr))):
                self.exec_block(case.body, fr)
                return

    def match_pattern(self, p, v, fr):
        """Does pattern *p* match value *v*?  Captures are bound in *fr*."""
        from . import models
        if isinstance(p, ast.MatchValue):
            return self.truth(models.compare(self, ast.Eq(), v,
                                             self.eval(p.value, fr)))
        if isinstance(p, ast.MatchSingleton):
            return self.truth(models.compare(self, ast.Is(), v, K(p.value)))
        if isinstance(p, ast.MatchAs):
            if p.pattern is not None and not self.match_pattern(p.pattern, v,
                                                                fr):
                return False
            if p.name is not None:
                fr.env[p.name] = v
            return True
        if isinstance(p, ast.MatchOr):
            return any(self.match_pattern(q, v, fr) for q in p.patterns)
        if isinstance(p, ast.MatchSequence):
            if isinstance(v, (ListV, TupleV)):
                items = list(v.items)
            elif isinstance(v, K) and isinstance(v.v, tuple):
                items = [K(x) for x in v.v]
            elif isinstance(v, (K, DictV, SetV, Obj)):
                return False        # str / bytes / mappings are no sequences
            elif isinstance(v, T) and (self.guide is not None or (
                    v.op == 'mcall' and v.args[1] in (
                        'split', 'rsplit', 'partition', 'rpartition',
                        'splitlines'))):
                # a list made by a str method: its length is explored (or,
                # following one input, known)
                items = list(self.iterate(v))
            else:
                raise Inexact('sequence pattern on a symbolic value')
            stars = [i for i, q in enumerate(p.patterns)
                     if isinstance(q, ast.MatchStar)]
            if not stars:
                if len(items) != len(p.patterns):
                    return False
                return all(self.match_pattern(q, x, fr)
                           for q, x in zip(p.patterns, items))
            i = stars[0]
            after = len(p.patterns) - i - 1
            if len(items) < i + after:
                return False
            ok = all(self.match_pattern(q, x, fr)
                     for q, x in zip(p.patterns[:i], items[:i])) and \
                all(self.match_pattern(q, x, fr)
                    for q, x in zip(p.patterns[i + 1:],
                                    items[len(items) - after:]))
            if ok and p.patterns[i].name is not None:
                fr.env[p.patterns[i].name] = ListV(
                    items[i:len(items) - after])
            return ok
        if isinstance(p, ast.MatchMapping):
            if not isinstance(v, DictV):
                if isinstance(v, (K, ListV, TupleV, SetV)):
                    return False
                raise Inexact('mapping pattern on a symbolic value')
            used = []
            for kx, q in zip(p.keys, p.patterns):
                k = self.eval(kx, fr)
                i = v.index(k)
                if i < 0:
                    if v.unknown:
                        raise Inexact('mapping pattern on a dict with '
                                      'symbolic keys')
                    return False
                used.append(i)
                if not self.match_pattern(q, v.vals[i], fr):
                    return False
            if p.rest is not None:
                fr.env[p.rest] = DictV([(k, x) for j, (k, x) in enumerate(
                    zip(v.keys, v.vals)) if j not in used])
            return True
        if isinstance(p, ast.MatchClass):
            cls = self.eval(p.cls, fr)
            if not self.truth(models.isinstance_(self, v, cls)):
                return False
            if p.patterns:
                if len(p.patterns) == 1 and isinstance(cls, ExtRef) and \
                        cls.name in ('str', 'int', 'float', 'bytes', 'bool',
                                     'list', 'tuple', 'dict', 'set',
                                     'frozenset', 'bytearray'):
                    if not self.match_pattern(p.patterns[0], v, fr):
                        return False
                else:
                    names = None
                    if isinstance(cls, ClassRef):
                        ma, _o = cls.lookup('__match_args__')
                        if ma is not None:
                            names = [x.v for x in self.iterate(ma)]
                        elif cls.nt_base() is not None:
                            names = list(cls.nt_base().fields)
                    elif isinstance(cls, NTClass):
                        names = list(cls.fields)
                    if names is None or len(names) < len(p.patterns):
                        raise Inexact('positional class pattern')
                    for nm, q in zip(names, p.patterns):
                        if not self.match_pattern(q, self.get_attr(v, nm),
                                                  fr):
                            return False
            for nm, q in zip(p.kwd_attrs, p.kwd_patterns):
                a = self.get_attr(v, nm, missing_ok=True)
                if a is None or not self.match_pattern(q, a, fr):
                    return False
            return True
        raise Inexact('pattern %s' % type(p).__name__)

    def st_While(self, s, fr):
        n = 0
        while True:
            if not self.truth(self.eval(s.test, fr)):
                self.exec_block(s.orelse, fr)
                return
            n += 1
            if n > self.world.loop_bound:
                raise _PathCut()
            try:
                self.exec_block(s.body, fr)
            except _Break:
                return
            except _Continue:
                continue

    def run_generator(self, gen, consume):
        """Run generator *gen* inline; *consume(value)* is called at every
        yield (it may raise _GenStop to abandon the generator)."""
        def on_yield(interp, v):
            consume(v)
            return K(None)
        try:
            f = gen.func
            unbound = FuncRef(f.node, f.module, f.cls, None, f.closure,
                              f.name)
            unbound.run_inline = on_yield
            self.call_func(unbound, list(gen.args), gen.kwargs)
        except _GenStop:
            pass

    def st_For(self, s, fr):
        it = self.eval(s.iter, fr)
        if isinstance(it, Obj) and it.cls is not None and \
                it.cls.lookup('__iter__')[0] is not None:
            # the iterator protocol of a repo class, step by step: what
            # __next__ does may depend on what the loop body did
            it = self.call(self.get_attr(it, '__iter__'), [])
        if isinstance(it, Obj) and it.cls is not None and isinstance(
                it.cls.lookup('__next__')[0], FuncRef):
            n = forked = 0
            while True:
                before = len(self.choices)
                try:
                    v = self.call(self.get_attr(it, '__next__'), [])
                except AbsRaise as r:
                    cls = self.exc_class_of(r.exc)
                    if cls is not None and exc_is_subclass(
                            cls, ExtRef('StopIteration')):
                        self.exec_block(s.orelse, fr)
                        return
                    raise
                n += 1
                if len(self.choices) > before:
                    # whether to stop was an open question: bounded like a
                    # ``while`` over an unknown condition
                    forked += 1
                    if forked > self.world.loop_bound:
                        raise _PathCut()
                if n > max(4096, self.world.unroll_bound):
                    raise Inexact('iterator of %s did not stop' %
                                  it.cls.name)
                self.assign(s.target, v, fr)
                try:
                    self.exec_block(s.body, fr)
                except _Break:
                    return
                except _Continue:
                    continue
        if isinstance(it, IterV):
            # a one-shot iterator is used up element by element
            while it.items:
                x = it.items.pop(0)
                self.assign(s.target, x, fr)
                try:
                    self.exec_block(s.body, fr)
                except _Break:
                    return
                except _Continue:
                    continue
            self.exec_block(s.orelse, fr)
            return
        if isinstance(it, LazyV):
            n = 0
            while True:
                try:
                    v = it.step(self)
                except _StopLazy:
                    self.exec_block(s.orelse, fr)
                    return
                n += 1
                if n > max(self.world.loop_bound, 8):
                    raise _PathCut()
                self.assign(s.target, v, fr)
                try:
                    self.exec_block(s.body, fr)
                except _Break:
                    return
                except _Continue:
                    continue
        if isinstance(it, Iter2V):
            from . import models
            n = 0
            while True:
                v = self.call(it.func, [])
                if self.truth(models.compare(self, ast.Eq(), v,
                                             it.sentinel)):
                    self.exec_block(s.orelse, fr)
                    return
                n += 1
                if n > max(self.world.loop_bound, 8):
                    raise _PathCut()
                self.assign(s.target, v, fr)
                try:
                    self.exec_block(s.body, fr)
                except _Break:
                    return
                except _Continue:
                    continue
        if isinstance(it, GenV):
            broke = []

            leaving = []

            def consume(v):
                self.assign(s.target, v, fr)
                try:
                    self.exec_block(s.body, fr)
                except _Break:
                    broke.append(True)
                    raise _GenStop()
                except _Continue:
                    pass
                except (_Return, AbsRaise) as jump:
                    # the loop body leaves the loop (return / exception):
                    # the generator is abandoned, not resumed, and what the
                    # body raised is not seen by the generator's own
                    # handlers
                    leaving.append(jump)
                    raise _GenStop()
            self.run_generator(it, consume)
            if leaving:
                raise leaving[0]
            if not broke:
                self.exec_block(s.orelse, fr)
            return
        if isinstance(it, T) and self._search_loop(s, it, fr):
            return
        if isinstance(it, ListV):
            # a list is iterated by position over the live object: removing
            # or inserting elements in the body shifts what comes next
            i = 0
            while i < len(it.items):
                x = it.items[i]
                i += 1
                self.assign(s.target, x, fr)
                try:
                    self.exec_block(s.body, fr)
                except _Break:
                    return
                except _Continue:
                    continue
            self.exec_block(s.orelse, fr)
            return
        items = self.iterate(it)
        for x in items:
            self.assign(s.target, x, fr)
            try:
                self.exec_block(s.body, fr)
            except _Break:
                return
            except _Continue:
                continue
        self.exec_block(s.orelse, fr)

    def _search_loop(self, s, it, fr):
        """Exact summary of the idiom
        ``for x in S: if P(x): <constant assignments>; break``
        (a search loop): one fork on ``exists x in S: P(x)``."""
        if s.orelse or len(s.body) != 1 or not isinstance(s.body[0], ast.If):
            return False
        test_if = s.body[0]
        if test_if.orelse or not test_if.body or \
                not isinstance(test_if.body[-1], (ast.Break, ast.Raise,
                                                  ast.Return)) or \
                not isinstance(s.target, ast.Name):
            return False
        last = test_if.body[-1]
        if not isinstance(last, ast.Break) and any(
                isinstance(n, ast.Name) and n.id == s.target.id
                for n in ast.walk(last)):
            return False        # the exit mentions the element found
        for st in test_if.body[:-1]:
            if not (isinstance(st, ast.Assign) and
                    all(isinstance(t, ast.Name) for t in st.targets) and
                    isinstance(st.value, ast.Constant)):
                return False
        self.fresh_n += 1
        ph = T('ph', self.fresh_n)
        if self.types.get(it) == 'str':
            self.types[ph] = 'str'
        try:
            test = self._pure_term(test_if.test, {s.target.id: ph}, fr)
        except Inexact:
            return False
        cond = T('exists', it, ph, test)
        if self.truth(cond):
            self.exec_block(test_if.body[:-1], fr)
            if not isinstance(last, ast.Break):
                self.exec_block([last], fr)     # raise / return
        return True

    def _pure_term(self, e, binding, fr):
        """Expression -> term without forking (only the shapes a search
        loop's test uses)."""
        from . import models
        if isinstance(e, ast.Name):
            if e.id in binding:
                return binding[e.id]
            return self.termify(self.eval(e, fr))
        if isinstance(e, ast.Constant):
            return K(e.value)
        if isinstance(e, ast.BoolOp):
            # value semantics (x or y yields x or y, not a bool)
            op = 'vand' if isinstance(e.op, ast.And) else 'vor'
            return T(op, *[self._pure_term(v, binding, fr)
                           for v in e.values])
        if isinstance(e, ast.Subscript) and not isinstance(e.slice,
                                                           ast.Slice):
            return T('sub', self._pure_term(e.value, binding, fr),
                     self._pure_term(e.slice, binding, fr))
        if isinstance(e, ast.UnaryOp) and isinstance(e.op, ast.Not):
            return T('not', self._pure_term(e.operand, binding, fr))
        if isinstance(e, ast.Compare) and len(e.ops) == 1:
            a = self._pure_term(e.left, binding, fr)
            b = self._pure_term(e.comparators[0], binding, fr)
            sym = models.CMP_SYM[type(e.ops[0])]
            neg = sym in ('!=', 'not in', 'is not')
            sym = {'!=': '==', 'not in': 'in', 'is not': 'is'}.get(sym, sym)
            t = T('cmp', sym, a, b)
            return T('not', t) if neg else t
        if isinstance(e, ast.Call) and isinstance(e.func, ast.Attribute) \
                and not e.keywords and \
                e.func.attr in models.PURE_STR_METHODS:
            base = self._pure_term(e.func.value, binding, fr)
            return T('mcall', base, e.func.attr,
                     *[self._pure_term(a, binding, fr) for a in e.args])
        if isinstance(e, ast.Call) and isinstance(e.func, ast.Name) and \
                not e.keywords and e.func.id in (
                    'int', 'str', 'len', 'float', 'ord', 'chr', 'bool',
                    'abs') and e.func.id not in binding and \
                e.func.id not in fr.env:
            return T('call', e.func.id,
                     *[self._pure_term(a, binding, fr) for a in e.args])
        if isinstance(e, ast.BinOp) and type(e.op) in models.ARITH_SYM:
            return T('binop', models.ARITH_SYM[type(e.op)],
                     self._pure_term(e.left, binding, fr),
                     self._pure_term(e.right, binding, fr))
        if isinstance(e, ast.IfExp):
            return T('ifexp', self._pure_term(e.test, binding, fr),
                     self._pure_term(e.body, binding, fr),
                     self._pure_term(e.orelse, binding, fr))
        raise Inexact('test of the loop is not a pure expression')

    def iterate(self, it):
        """Concrete list of abstract elements, or a bounded symbolic
        unrolling (0..2 elements, explored as a choice)."""
        if isinstance(it, IterV):
            out = list(it.items)
            it.items = []           # used up
            return out
        if isinstance(it, ClassRef):
            members, _o = it.lookup('__enum_members__')
            if isinstance(members, ListV):
                return list(members.items)      # definition order
        if isinstance(it, (ListV, TupleV, SetV)):
            return list(it.items)
        if isinstance(it, DictV):
            if it.unknown:
                self.inexact('iteration over dict with unknown keys')
            return list(it.keys)
        if isinstance(it, K):
            if isinstance(it.v, (tuple, list)):
                return [K(x) for x in it.v]
            if isinstance(it.v, str):
                return [K(c) for c in it.v]
            if isinstance(it.v, bytes):
                return [K(c) for c in it.v]
            if isinstance(it.v, range):
                if len(it.v) > self.world.unroll_bound:
                    raise Inexact('range too long to unroll')
                return [K(i) for i in it.v]
        if isinstance(it, GenV):
            out = []
            self.run_generator(it, out.append)
            return out
        if isinstance(it, LazyV):
            out = []
            while True:
                try:
                    out.append(it.step(self))
                except _StopLazy:
                    return out
                if len(out) > max(self.world.loop_bound, 8):
                    raise _PathCut()
        if isinstance(it, Iter2V):
            from . import models
            out = []
            while True:
                v = self.call(it.func, [])
                if self.truth(models.compare(self, ast.Eq(), v,
                                             it.sentinel)):
                    return out
                out.append(v)
                if len(out) > max(self.world.loop_bound, 8):
                    raise _PathCut()
        if isinstance(it, Obj) and '__iter_items__' in it.fields:
            return list(it.fields['__iter_items__'])
        if isinstance(it, Obj) and it.cls is not None and \
                it.cls.lookup('__iter__')[0] is not None:
            # the iterator protocol of a repo class: __iter__() once, then
            # __next__() until StopIteration (a generator __iter__ runs
            # inline)
            iterator = self.call(self.get_attr(it, '__iter__'), [])
            if iterator is not it:
                return self.iterate(iterator)
            nxt = self.get_attr(it, '__next__', missing_ok=True)
            if nxt is None:
                raise AbsRaise(T('exc', 'TypeError',
                                 'iter() returned non-iterator'))
            out = []
            while True:
                if len(out) > max(4096, self.world.unroll_bound):
                    raise Inexact('iterator of %s did not stop' %
                                  it.cls.name)
                try:
                    out.append(self.call(self.get_attr(it, '__next__'), []))
                except AbsRaise as r:
                    cls = self.exc_class_of(r.exc)
                    if cls is not None and exc_is_subclass(
                            cls, ExtRef('StopIteration')):
                        return out
                    raise
        if isinstance(it, T):
            fixed = self.world.sym_iter_len.get(it)
            if fixed is None and self.world.sym_iter_hook is not None:
                fixed = self.world.sym_iter_hook(self, it)
            if fixed is not None:
                if isinstance(fixed, list):
                    return fixed
                n = fixed
            elif it in self.iter_lens:
                n = self.iter_lens[it]
            elif self.guide is None and it.op == 'mcall' and \
                    it.args[1] in ('split', 'rsplit') and \
                    len(it.args) == 4 and isinstance(it.args[3], K) and \
                    isinstance(it.args[3].v, int) and \
                    0 <= it.args[3].v <= 3:
                # x.split(sep, m): between 1 and m + 1 pieces
                n = 1 + self.choose(it.args[3].v + 1)
                self.iter_lens[it] = n
                self.assumptions.append((T('len', it), n))
            elif self.guide is None and it.op == 'mcall' and \
                    it.args[1] in ('partition', 'rpartition'):
                n = 3
            elif self.guide is not None and self._guided_len(it) is not None:
                n = self._guided_len(it)
                self.iter_lens[it] = n
                self.assumptions.append((T('len', it), n))
            else:
                n = self.choose(self.world.sym_iter_max + 1)
                self.iter_lens[it] = n
                self.assumptions.append((T('len', it), n))
                if n == self.world.sym_iter_max:
                    self.inexact('symbolic iteration bounded at %d' % n)
            elems = [T('elem', it, K(i)) for i in range(n)]
            if it.op == 'mcall' and it.args[1] in (
                    'split', 'rsplit', 'splitlines', 'partition',
                    'rpartition'):
                # pieces of a str (bytes) are str (bytes)
                base_t = it.args[0]
                tag = 'str' if isinstance(base_t, K) and isinstance(
                    base_t.v, str) else (self.types.get(base_t) or
                                         self.path_types.get(base_t)) \
                    if isinstance(base_t, T) else None
                if tag in ('str', 'bytes'):
                    for e_ in elems:
                        self.types.setdefault(e_, tag)
            return elems
        raise Inexact('iteration over %s' % type(it).__name__)

    def _guided_len(self, it):
        from .termeval import CannotEval, Raised
        try:
            n = len(self.guide(it))
        except (CannotEval, Raised, TypeError):
            return None
        if n > self.world.unroll_bound:
            return None
        return n

    def st_With(self, s, fr, first=0):
        mgrs = []
        for n_item, item in enumerate(s.items[first:], first):
            m = self.eval(item.context_expr, fr)
            if isinstance(m, CtxGenV):
                if mgrs:
                    raise Inexact('generator context manager after another '
                                  'manager in one with statement')
                state = {'entered': False}

                def consume(v, item=item, n_item=n_item):
                    if state['entered']:
                        raise Inexact('context manager yields twice')
                    state['entered'] = True
                    if item.optional_vars is not None:
                        self.assign(item.optional_vars, v, fr)
                    # return / break / continue in the body: the manager is
                    # left normally (the generator resumes after its yield),
                    # then the jump takes effect
                    try:
                        if n_item + 1 < len(s.items):
                            self.st_With(s, fr, first=n_item + 1)
                        else:
                            self.exec_block(s.body, fr)
                    except (_Return, _Break, _Continue) as jump:
                        state['jump'] = jump
                self.run_generator(m, consume)
                if not state['entered']:
                    raise Inexact('generator context manager did not yield')
                if 'jump' in state:
                    raise state['jump']
                return
            entered = self.ctx_enter(m)
            if item.optional_vars is not None:
                self.assign(item.optional_vars, entered, fr)
            mgrs.append(m)
        try:
            self.exec_block(s.body, fr)
        except AbsRaise as r:
            for m in reversed(mgrs):
                if self.ctx_exit(m, r.exc):
                    return
            raise
        except (_Return, _Break, _Continue):
            for m in reversed(mgrs):
                self.ctx_exit(m, None)
            raise
        for m in reversed(mgrs):
            self.ctx_exit(m, None)

    def ctx_enter(self, m):
        if isinstance(m, Obj):
            f = self.get_attr(m, '__enter__', missing_ok=True)
            if f is not None:
                return self.call(f, [])
        if isinstance(m, FuncRef):
            raise Inexact('function %s used as a context manager%s' % (
                m.name, ' (wrapped by %s)' % ', '.join(
                    getattr(m, 'decorators', [])) if getattr(
                        m, 'decorators', None) else ''))
        self.effect('enter', self.termify(m))
        return T('entered', self.termify(m))

    def ctx_exit(self, m, exc):
        """Returns True when the manager suppresses *exc*."""
        if isinstance(m, Obj):
            f = self.get_attr(m, '__exit__', missing_ok=True)
            if f is not None:
                if exc is None:
                    a = [K(None), K(None), K(None)]
                else:
                    cls = self.exc_class_of(exc)
                    a = [cls if cls is not None else T('type', exc), exc,
                         T('tb', self.termify(exc))]
                saved = self.frames[-1].exc_stack if self.frames else None
                if exc is not None and self.frames:
                    self.frames[-1].exc_stack.append(exc)
                try:
                    r = self.call(f, a)
                finally:
                    if exc is not None and self.frames:
                        self.frames[-1].exc_stack.pop()
                return exc is not None and self.truth(r)
        self.effect('exit', self.termify(m),
                    K(None) if exc is None else self.termify(exc))
        return False

    def st_Try(self, s, fr):
        try:
            try:
                self.exec_block(s.body, fr)
            except AbsRaise as r:
                handled = False
                for h in s.handlers:
                    if self.handler_matches(h, r.exc, fr):
                        handled = True
                        if h.name:
                            fr.env[h.name] = r.exc
                        fr.exc_stack.append(r.exc)
                        try:
                            self.exec_block(h.body, fr)
                        finally:
                            fr.exc_stack.pop()
                            if h.name:
                                fr.env.pop(h.name, None)
                        break
                if not handled:
                    raise
            else:
                self.exec_block(s.orelse, fr)
        finally:
            # a finally block that itself raises/returns overrides; Python
            # semantics are obtained for free from the host try/finally.
            if s.finalbody:
                self.exec_block(s.finalbody, fr)

    def handler_matches(self, h, exc, fr):
        if h.type is None:
            return True
        ht = self.eval(h.type, fr)
        types = ht.items if isinstance(ht, TupleV) else [ht]
        cls = self.exc_class_of(exc)
        unknown = False
        for t in types:
            if cls is None:
                unknown = True
                continue
            r = exc_is_subclass(cls, t)
            if r:
                return True
            if r is None:
                unknown = True
        if unknown:
            return self.assume(T('caught', self.termify(exc),
                                 T('types', *[self.termify(t)
                                              for t in types])))
        return False

    def st_Raise(self, s, fr):
        if s.exc is None:
            stack = None
            for f in reversed(self.frames):
                if f.exc_stack:
                    stack = f.exc_stack
                    break
            if not stack:
                raise self.raise_builtin('RuntimeError', 'No active exception')
            self.effect('reraise', self.termify(stack[-1]))
            raise AbsRaise(stack[-1])
        v = self.eval(s.exc, fr)
        if isinstance(v, (ClassRef, ExtRef)):
            v = self.make_exc(v, [])
        if s.cause is not None:
            c = self.eval(s.cause, fr)
            self.effect('cause', self.termify(v), self.termify(c))
        raise AbsRaise(v)

    # -- expressions -------------------------------------------------------------
    def eval(self, e, fr):
        m = getattr(self, 'ex_' + type(e).__name__, None)
        if m is None:
            raise Inexact('expression %s not modelled' % type(e).__name__)
        return m(e, fr)

    def ex_Constant(self, e, fr):
        return K(e.value)

    def ex_Name(self, e, fr):
        if e.id in fr.env and e.id not in fr.globals_decl:
            v = fr.env[e.id]
            if isinstance(v, Poison):
                raise Inexact('the definition of %s was not followed' %
                              v.why)
            return v
        f = fr.func
        if self.global_over and f is not None and f.module is not None:
            key = (f.module.name, e.id)
            if key in self.global_over:
                return self.global_over[key]
        if f is not None and f.closure is not None and e.id in f.closure:
            return f.closure[e.id]
        return self.world.global_name(self, e.id, f.module if f else None)

    def ex_Attribute(self, e, fr):
        base = self.eval(e.value, fr)
        return self.get_attr(base, e.attr)

    def get_attr(self, base, name, missing_ok=False):
        from . import models
        if self.on_attr is not None:
            r = self.on_attr(self, base, name)
            if r is not None:
                return r
        if isinstance(base, models.SuperV):
            return models.super_attr(self, base, name)
        if isinstance(base, Obj):
            if name in base.fields:
                return base.fields[name]
            if base.cls is not None:
                v, owner = base.cls.lookup(name)
                if v is not None:
                    return self.bind_member(v, base, base.cls)
                exts = base.cls.ext_bases()
                if name == '__class__':
                    return base.cls
                if missing_ok:
                    return None
                if exts and any(x != 'abc.ABC' for x in exts):
                    return T('attr', self.termify(base), name)
                raise AbsRaise(T('exc', 'AttributeError', name))
            if missing_ok:
                return None
            if base.fields.get('__open__'):
                return T('attr', self.termify(base), name)
            if base.fields.get('__closed__') or '__hasattr__' in \
                    base.fields or name.startswith('__'):
                # a stand-in whose attribute set is part of the scenario
                raise AbsRaise(T('exc', 'AttributeError', name))
            # a stand-in built by a rule models only what the rule expected
            # the code to use: anything else is unknown, not absent
            raise Inexact('attribute %s of the stand-in %s is not modelled'
                          % (name, base.label))
        if isinstance(base, NTupleV):
            r = self.ntuple_attr(base, name)
            if r is not None:
                return r
        if isinstance(base, NTClass):
            r = self.ntclass_attr(base, base, name)
            if r is not None:
                return r
            if missing_ok:
                return None
            return T('attr', self.termify(base), name)
        if isinstance(base, ClassRef):
            v, owner = base.lookup(name)
            if v is not None:
                if isinstance(v, ClassMethodV):
                    return v.func.bind(base)
                if isinstance(v, StaticV):
                    return v.func
                if isinstance(v, Poison):
                    raise Inexact('the definition of %s was not followed' %
                                  v.why)
                if isinstance(v, Obj) and v.cls is not None and isinstance(
                        v.cls.lookup('__get__')[0], FuncRef):
                    return self.bind_member(v, None, base)
                return v
            if base.nt_base() is not None:
                r = self.ntclass_attr(base.nt_base(), base, name)
                if r is not None:
                    return r
            if name == '__name__':
                return K(base.name)
            if missing_ok:
                return None
            return T('attr', self.termify(base), name)
        if isinstance(base, ModRef):
            return self.world.module_attr(self, base.name, name)
        if isinstance(base, FuncRef):
            attrs = self.world.func_attrs.get(base.qualname, {})
            if name in attrs:
                return attrs[name]
            if name == '__name__':
                return K(base.name)
            if missing_ok:
                return None
            return T('attr', self.termify(base), name)
        return models.get_attr_external(self, base, name, missing_ok)

    def bind_member(self, v, obj, cls):
        if isinstance(v, FuncRef):
            return v.bind(obj)
        if isinstance(v, Poison):
            raise Inexact('the definition of %s was not followed' % v.why)
        if isinstance(v, PropertyV):
            if getattr(v, 'cached', False) and isinstance(obj, Obj) and \
                    isinstance(v.fget, FuncRef):
                r = self.call(v.fget.bind(obj), [])
                obj.fields[v.fget.name] = r
                return r
            if isinstance(v.fget, FuncRef):
                return self.call(v.fget.bind(obj), [])
            return self.call(v.fget, [obj])     # property(callable)
        if isinstance(v, StaticV):
            return v.func
        if isinstance(v, ClassMethodV):
            return v.func.bind(cls)
        if isinstance(v, Obj) and v.cls is not None:
            # the descriptor protocol of a repo class
            getter, _o = v.cls.lookup('__get__')
            if isinstance(getter, FuncRef):
                return self.call(getter.bind(v), [
                    obj if obj is not None else K(None), cls])
        return v

    def ex_Call(self, e, fr):
        from . import models
        # super()
        if isinstance(e.func, ast.Name) and e.func.id == 'super' and \
                not e.args:
            return models.make_super(self, fr)
        if isinstance(e.func, ast.Attribute) and \
                e.func.attr in ('extend', 'append') and \
                isinstance(e.func.value, ast.Name) and len(e.args) == 1 \
                and not e.keywords and e.func.value.id in fr.env:
            base = fr.env[e.func.value.id]
            if isinstance(base, T) and self._listish(base):
                # a local symbolic list: model the mutation by rebinding
                # the name (sound as long as nothing aliases the list)
                others = [k for k, v in fr.env.items()
                          if v is base and k != e.func.value.id]
                if others:
                    self.inexact('mutation of an aliased symbolic list')
                arg = self.termify(self.eval(e.args[0], fr))
                if e.func.attr == 'append':
                    arg = T('list', arg)
                new = T('binop', '+', base, arg)
                self.types[new] = 'list'
                fr.env[e.func.value.id] = new
                return K(None)
        if isinstance(e.func, ast.Attribute) and \
                e.func.attr in self.rebind_methods and \
                isinstance(e.func.value, ast.Name) and \
                e.func.value.id in fr.env and \
                isinstance(fr.env[e.func.value.id], T):
            # a builder-style method that configures its receiver in place
            # (x.setParseAction(f)): the receiver name is rebound to the
            # configured term
            base = fr.env[e.func.value.id]
            margs = [self.eval(a, fr) for a in e.args]
            new = self.rebind_methods[e.func.attr](self, base, margs)
            fr.env[e.func.value.id] = new
            # the receiver object was changed in place: every other local
            # that holds it, or a term built from it, sees the change
            if new != base:
                memo = {}
                for k, v in list(fr.env.items()):
                    if isinstance(v, T) and k != e.func.value.id:
                        nv = _subst(v, base, new, memo)
                        if nv is not v:
                            fr.env[k] = nv
            return new
        if isinstance(e.func, ast.Attribute) and \
                e.func.attr in self.rebind_methods and \
                not isinstance(e.func.value, ast.Name):
            # builder-style method on an anonymous receiver
            base = self.eval(e.func.value, fr)
            if isinstance(base, T):
                margs = [self.eval(a, fr) for a in e.args]
                return self.rebind_methods[e.func.attr](self, base, margs)
        f = self.eval(e.func, fr)
        args = []
        for a in e.args:
            if isinstance(a, ast.Starred):
                args.extend(self.iterate(self.eval(a.value, fr)))
            else:
                args.append(self.eval(a, fr))
        kwargs = {}
        for k in e.keywords:
            v = self.eval(k.value, fr)
            if k.arg is None:
                if isinstance(v, DictV):
                    for kk, vv in zip(v.keys, v.vals):
                        kwargs[kk.v] = vv
                else:
                    raise Inexact('** of non-dict')
            else:
                kwargs[k.arg] = v
        return self.call(f, args, kwargs)

    def _listish(self, t):
        if self.types.get(t) == 'list':
            return True
        if t.op == 'slice':
            return self._listish(t.args[0]) if isinstance(t.args[0], T) \
                else False
        if t.op == 'binop' and t.args[0] == '+':
            return any(isinstance(x, T) and self._listish(x)
                       for x in t.args[1:])
        return False

    def ex_BoolOp(self, e, fr):
        is_and = isinstance(e.op, ast.And)
        v = None
        for sub in e.values:
            v = self.eval(sub, fr)
            b = self.truth(v)
            if is_and and not b:
                return v if self._plain(v) else K(False)
            if not is_and and b:
                return v if self._plain(v) else K(True)
        return v

    def _plain(self, v):
        return not (isinstance(v, T) and v.op in ('cmp', 'not', 'call',
                                                  'caught'))

    def ex_UnaryOp(self, e, fr):
        from . import models
        v = self.eval(e.operand, fr)
        if isinstance(e.op, ast.Not):
            b = self.truth_known(v)
            if b is not None:
                return K(not b)
            return K(not self.truth(v))
        return models.unaryop(self, e.op, v)

    def ex_BinOp(self, e, fr):
        from . import models
        return models.binop(self, e.op, self.eval(e.left, fr),
                            self.eval(e.right, fr))

    def ex_Compare(self, e, fr):
        from . import models
        left = self.eval(e.left, fr)
        result = None
        for op, right_e in zip(e.ops, e.comparators):
            right = self.eval(right_e, fr)
            result = models.compare(self, op, left, right)
            if len(e.ops) > 1:
                if not self.truth(result):
                    return K(False)
            left = right
        if len(e.ops) > 1:
            return K(True)
        return result

    def ex_NamedExpr(self, e, fr):
        v = self.eval(e.value, fr)
        self.assign(e.target, v, fr)
        return v

    def ex_IfExp(self, e, fr):
        if self.truth(self.eval(e.test, fr)):
            return self.eval(e.body, fr)
        return self.eval(e.orelse, fr)

    def ex_Tuple(self, e, fr):
        out = []
        for x in e.elts:
            if isinstance(x, ast.Starred):
                out.extend(self.iterate(self.eval(x.value, fr)))
            else:
                out.append(self.eval(x, fr))
        if all(isinstance(x, K) for x in out):
            return K(tuple(x.v for x in out))
        return TupleV(out)

    def ex_List(self, e, fr):
        out = []
        segments = []       # closed ListV segments and symbolic sequences
        for x in e.elts:
            if isinstance(x, ast.Starred):
                v = self.eval(x.value, fr)
                if isinstance(v, T) and (self.guide is None or
                                         self._guided_len(v) is None):
                    # [a, *seq] with a symbolic seq: one concatenation term
                    # instead of a fork on the length of seq
                    if out:
                        segments.append(ListV(out))
                        out = []
                    t = T('call', 'list', v)
                    self.types[t] = 'list'
                    segments.append(t)
                else:
                    out.extend(self.iterate(v))
            else:
                out.append(self.eval(x, fr))
        if not segments:
            return ListV(out)
        if out:
            segments.append(ListV(out))
        acc = self.termify(segments[0])
        for seg in segments[1:]:
            acc = T('binop', '+', acc, self.termify(seg))
            self.types[acc] = 'list'
        return acc

    def ex_Set(self, e, fr):
        return SetV([self.eval(x, fr) for x in e.elts])

    def ex_Dict(self, e, fr):
        d = DictV()
        for k, v in zip(e.keys, e.values):
            if k is None:
                src = self.eval(v, fr)
                if isinstance(src, DictV):
                    for kk, vv in zip(src.keys, src.vals):
                        d.set(kk, vv)
                else:
                    raise Inexact('** in dict display')
                continue
            kv = self.eval(k, fr)
            d.set(kv, self.eval(v, fr))
            if not isinstance(kv, K):
                d.unknown = True
        return d

    def ex_Subscript(self, e, fr):
        from . import models
        base = self.eval(e.value, fr)
        if isinstance(e.slice, ast.Slice):
            lo = self.eval(e.slice.lower, fr) if e.slice.lower else K(None)
            hi = self.eval(e.slice.upper, fr) if e.slice.upper else K(None)
            st = self.eval(e.slice.step, fr) if e.slice.step else K(None)
            return models.slice_(self, base, lo, hi, st)
        idx = self.eval(e.slice, fr)
        if isinstance(idx, K) and isinstance(idx.v, slice):
            # a slice object made elsewhere (slice(a, b) kept in a field)
            return models.slice_(self, base, K(idx.v.start), K(idx.v.stop),
                                 K(idx.v.step))
        return models.subscript(self, base, idx)

    def ex_Lambda(self, e, fr):
        return FuncRef(e, fr.func.module if fr.func else None,
                       closure=fr.env, name='<lambda>')

    def ex_JoinedStr(self, e, fr):
        parts = []
        for v in e.values:
            if isinstance(v, ast.Constant):
                parts.append(K(v.value))
            else:
                parts.append(self.ex_FormattedValue(v, fr))
        if all(isinstance(p, K) for p in parts):
            return K(''.join(str(p.v) for p in parts))
        t = T('fstr', *parts)
        self.types[t] = 'str'
        return t

    def ex_FormattedValue(self, e, fr):
        """{value!conv:spec} -> constant when everything is constant, else
        a term ``fmtval(value, conv, spec)`` (plain ``{value}`` of a str-typed
        term is the term itself)."""
        val = self.eval(e.value, fr)
        spec = K('')
        if e.format_spec is not None:
            spec = self.eval(e.format_spec, fr)
        conv = {-1: '', 115: 's', 114: 'r', 97: 'a'}.get(e.conversion, '')
        if isinstance(val, K) and isinstance(spec, K):
            x = val.v
            try:
                if conv == 's':
                    x = str(x)
                elif conv == 'r':
                    x = repr(x)
                elif conv == 'a':
                    x = ascii(x)
                return K(format(x, spec.v))
            except Exception as ex:
                from . import models
                raise models.py_exc(self, ex)
        tv = self.termify(val)
        if conv in ('', 's') and spec == K('') and isinstance(tv, T) and \
                self.types.get(tv) == 'str':
            return tv
        t = T('fmtval', tv, conv, self.termify(spec))
        self.types[t] = 'str'
        return t

    def ex_Starred(self, e, fr):
        raise Inexact('starred expression')

    def _comp_symbolic(self, e, fr, kind):
        """One generator over a symbolic sequence with a pure element and
        pure conditions: kept as one term (evaluated element by element on
        grid values) instead of a bounded unrolling."""
        if kind == 'dict' or len(e.generators) != 1 or self.guide is not None:
            return None
        g = e.generators[0]
        if not isinstance(g.target, ast.Name) or g.is_async:
            return None
        try:
            it = self.eval(g.iter, fr)
        except Inexact:
            return None
        if not isinstance(it, T) or it in self.world.sym_iter_len or \
                self.world.sym_iter_hook is not None:
            return None
        self.fresh_n += 1
        ph = T('ph', self.fresh_n)
        if self.types.get(it) == 'str':
            self.types[ph] = 'str'
        try:
            elt = self._pure_term(e.elt, {g.target.id: ph}, fr)
            conds = [self._pure_term(c, {g.target.id: ph}, fr)
                     for c in g.ifs]
        except (Inexact, AbsRaise):
            return None
        t = T('comp', 'set' if kind == 'set' else 'list', it, ph, elt,
              *conds)
        self.types[t] = 'list'
        return t

    def _comp(self, e, fr, kind):
        """Comprehension: concrete when the generators are concrete."""
        results = []
        env = dict(fr.env)
        cfr = Frame(fr.func, env, fr.depth)
        cfr.exc_stack = fr.exc_stack

        def rec(i):
            if i == len(e.generators):
                if kind == 'dict':
                    results.append((self.eval(e.key, cfr),
                                    self.eval(e.value, cfr)))
                else:
                    results.append(self.eval(e.elt, cfr))
                return
            g = e.generators[i]
            it = self.eval(g.iter, cfr)
            for x in self.iterate(it):
                self.assign(g.target, x, cfr)
                if all(self.truth(self.eval(c, cfr)) for c in g.ifs):
                    rec(i + 1)
        self.frames.append(cfr)
        try:
            rec(0)
        finally:
            self.frames.pop()
        return results

    def ex_ListComp(self, e, fr):
        t = self._comp_symbolic(e, fr, 'list')
        if t is not None:
            return t
        return ListV(self._comp(e, fr, 'list'))

    def ex_GeneratorExp(self, e, fr):
        t = self._comp_symbolic(e, fr, 'gen')
        if t is not None:
            return t
        return ListV(self._comp(e, fr, 'gen'))

    def ex_SetComp(self, e, fr):
        t = self._comp_symbolic(e, fr, 'set')
        if t is not None:
            return t
        return SetV(self._comp(e, fr, 'set'))

    def ex_DictComp(self, e, fr):
        return DictV(self._comp(e, fr, 'dict'))

    def ex_Yield(self, e, fr):
        h = getattr(fr, 'on_yield', None)
        if h is None:
            raise Inexact('yield')
        v = self.eval(e.value, fr) if e.value is not None else K(None)
        return h(self, v)


def _subst(t, old, new, memo):
    """*t* with every occurrence of the term *old* replaced by *new*."""
    if t == old:
        return new
    if not isinstance(t, T):
        return t
    r = memo.get(t)
    if r is not None:
        return r
    args = tuple(_subst(a, old, new, memo) if isinstance(a, T) else a
                 for a in t.args)
    r = t if all(a is b for a, b in zip(args, t.args)) else T(t.op, *args)
    memo[t] = r
    return r


def _load(t):
    import copy
    t2 = copy.copy(t)
    t2.ctx = ast.Load()
    return t2


def _is_generator(node):
    r = getattr(node, '_sa_is_gen', None)
    if r is None:
        r = _is_generator_uncached(node)
        try:
            node._sa_is_gen = r
        except AttributeError:
            pass
    return r


def _is_generator_uncached(node):
    for n in ast.walk(node):
        if isinstance(n, (ast.Yield, ast.YieldFrom)):
            # not inside a nested def
            p = getattr(n, '_parent', None)
            while p is not None and p is not node:
                if isinstance(p, (ast.FunctionDef, ast.Lambda)):
                    break
                p = getattr(p, '_parent', None)
            if p is node:
                return True
    return False
