"""E8 - abstract streaming model of the image inspectors.

An inspector class of the analysed tree is instantiated through its real
constructor and fed abstract chunks through its real ``eat_chunk`` /
``post_process`` / ``region_complete`` / ``finish`` code.  Only the byte-offset
arithmetic of ``CaptureRegion.capture`` / ``EndCaptureRegion.capture`` is
replaced by an abstract capture model: a *schedule* decides, per chunk, how far
each region is filled (nothing / partially / to its ``min_length`` / fully) and
the region's data becomes the symbolic byte string ``stream[offset:offset+n]``.
All parsing code therefore runs on symbolic bytes; the extracted paths are
later evaluated on concrete images (region bytes looked up in the image).
"""
from .absint import Interp, AbsRaise, Inexact
from .loader import AnalysisError
from .models import bytes_len, lin
from .termeval import ev, Raised, CannotEval
from .values import (K, T, Obj, ListV, TupleV, SetV, DictV, FuncRef, AbsFunc,
                     ClassRef, show)

MOD = 'imageutils.format_inspector'

# fill levels
NONE, PARTIAL, MIN, FULL, MINFULL = 'none', 'partial', 'min', 'full', \
    'minfull'


class Schedule:
    """name, number of chunks, policy(region name, static?, chunk index,
    visit) -> level.  *visit* counts capture calls on that region within the
    chunk (0 = first presentation, 1 = re-presentation ...)."""

    def __init__(self, name, n_chunks, policy, doc):
        self.name = name
        self.n_chunks = n_chunks
        self.policy = policy
        self.doc = doc


def _giant(name, static, i, seen, abs_i=0):
    return FULL


def _two_step(name, static, i, seen, abs_i=0):
    # regions known before the chunk arrive complete in it; a region
    # defined by the chunk lies beyond it and arrives with the next one
    return FULL if seen else NONE


TRICKLE_LEVELS = [1, 2, 3, 4]      # extended per class by levels_for()


def _trickle(name, static, i, seen, abs_i=0):
    """Every region grows through the byte counts of TRICKLE_LEVELS (the
    constants the class compares / slices with, +-1), then completes."""
    if not seen:
        return NONE
    if i < len(TRICKLE_LEVELS):
        return ('bytes', TRICKLE_LEVELS[i])
    return FULL


def _small_then_giant(name, static, i, seen, abs_i=0):
    # a first chunk of a few bytes, then everything else at once
    if abs_i == 0:
        return ('bytes', 5)
    return FULL


def levels_for(world, cls, cap=4096):
    """Byte counts at which partial states are observed: every integer
    constant of the class (and its bases) up to *cap*, and its
    neighbours - the lengths the code can distinguish."""
    import ast as _ast
    consts = set()
    for c in cls.mro():
        for node in _ast.walk(c.node):
            if isinstance(node, _ast.Constant) and \
                    isinstance(node.value, int) and \
                    not isinstance(node.value, bool) and \
                    0 < node.value <= cap:
                consts.add(node.value)
            elif isinstance(node, _ast.Constant) and \
                    isinstance(node.value, (bytes, str)) and \
                    0 < len(node.value) <= 16:
                consts.add(len(node.value))
    for k, v in cls.attrs.items():
        if isinstance(v, K) and isinstance(v.v, int) and 0 < v.v <= cap:
            consts.add(v.v)
    out = set()
    for c in consts:
        out.update((c - 1, c, c + 1))
    out.update((1, 2))
    return sorted(x for x in out if 0 < x <= cap)


def _min_only(name, static, i, seen, abs_i=0):
    # regions with a min_length stop at exactly that many bytes
    return MINFULL if seen else NONE


def _birth_partial(name, static, i, seen, abs_i=0):
    # a region defined by a chunk finds its first 4 KiB in that very chunk
    # (re-presentation) and the rest in the next one
    if static:
        return FULL
    return ('bytes', 4096) if i == 0 else FULL


SCHEDULES = [
    Schedule('giant', 1, _giant, 'the whole stream as one chunk'),
    Schedule('two-step', 4, _two_step, 'every region arrives complete, one '
             'chunk after the chunk that defined it'),
    Schedule('trickle', 8, _trickle, 'every region grows through the byte '
             'counts the class can distinguish (its integer constants '
             '+-1), then completes'),
    Schedule('small-then-giant', 4, _small_then_giant, 'a first chunk of 5 '
             'bytes, then everything else in one chunk (regions defined '
             'by the second chunk complete within it)'),
    Schedule('birth-partial', 6, _birth_partial, 'the chunk that defines a '
             'region also holds its first 4 KiB; the region completes with '
             'the next chunk'),
    Schedule('min-stop', 6, _min_only, 'regions complete at exactly '
             'min_length bytes when they have one, else fully'),
]


SCHED_BY_NAME = {s.name: s for s in SCHEDULES}


def private_names(world):
    """Names of the private attributes the model has to touch, found by
    looking at a constructed inspector instead of being assumed: the table
    of capture regions (a dict whose values are CaptureRegion objects), the
    table of safety checks (values are SafetyCheck objects) and the stream
    position (the integer attribute eat_chunk advances by len(chunk))."""
    cached = world.__dict__.get('_insp_private_names')
    if cached is not None:
        return cached
    region_cls = world.cls(MOD, 'CaptureRegion')
    check_cls = world.cls(MOD, 'SafetyCheck')
    out = {}
    probe = {}

    def thunk(interp):
        insp = interp.call(world.cls(MOD, 'QcowInspector'), [])
        probe['before'] = dict(insp.fields)
        chunk = T('sym', 'probe_chunk')
        interp.types[chunk] = 'bytes'
        interp.stubs['CaptureRegion.capture'] = lambda i, a, k: K(None)
        interp.stubs['EndCaptureRegion.capture'] = lambda i, a, k: K(None)
        try:
            interp.call(interp.get_attr(insp, 'eat_chunk'), [chunk])
        except AbsRaise:
            pass
        probe['after'] = dict(insp.fields)
        return K(None)
    interp = Interp(world, inline_depth=5)
    try:
        interp.explore(thunk, max_paths=64)
    except AnalysisError:
        pass
    for name, v in probe.get('before', {}).items():
        if isinstance(v, DictV) and v.vals and all(
                isinstance(x, Obj) and x.cls is not None and
                x.cls.is_subclass(region_cls) for x in v.vals):
            out['regions'] = name
        if isinstance(v, DictV) and v.vals and all(
                isinstance(x, Obj) and x.cls is not None and
                x.cls.is_subclass(check_cls) for x in v.vals):
            out['checks'] = name
    for name, v in probe.get('after', {}).items():
        b = probe['before'].get(name)
        if isinstance(b, K) and b.v == 0 and isinstance(v, T) and \
                'probe_chunk' in show(v):
            out['position'] = name
    for role in ('regions', 'checks', 'position'):
        if role not in out:
            raise AnalysisError('anchor vanished: the attribute of '
                                'FileInspector holding the %s' % role)
    world.__dict__['_insp_private_names'] = out
    return out


class Snapshot:
    """Observations after a chunk / at the end of a path."""

    def __init__(self):
        self.items = {}

    def __repr__(self):
        return 'Snapshot(%s)' % self.items


def region_src(interp, region):
    off = region.fields.get('offset')
    return T('at', interp.termify(off))


class StreamModel:
    def __init__(self, ctx, cls_name, sym_iter_max=2, inline_depth=7):
        self.ctx = ctx
        self.world = ctx.world
        self.cls = ctx.world.cls(MOD, cls_name)
        self.cls_name = cls_name
        self.sym_iter_max = sym_iter_max
        self.inline_depth = inline_depth
        self.region_cls = ctx.world.cls(MOD, 'CaptureRegion')
        self.end_cls = ctx.world.cls(MOD, 'EndCaptureRegion')

    # -- capture model -------------------------------------------------------
    def _region_name(self, interp, insp, region):
        regs = insp.fields.get(private_names(self.world)['regions'])
        if isinstance(regs, DictV):
            for k, v in zip(regs.keys, regs.vals):
                if v is region:
                    return k.v if isinstance(k, K) else show(k)
        return None

    def _install(self, interp, sched, st):
        """st: mutable per-path state {insp, chunk, born, visits}."""
        model = self

        def capture(interp2, args, kwargs):
            region = args[0]
            insp = st['insp']
            name = model._region_name(interp2, insp, region)
            i = st['chunk']
            if id(region) not in st['born'] and \
                    id(region) not in st['static']:
                model._note_birth(interp2, st, insp, region, name, 'region')
            born = st['born'].setdefault(id(region), i)
            # a region is "seen" by the chunk that follows its definition,
            # or by the defining chunk when it is re-presented
            key = (id(region), i)
            visit = st['visits'].get(key, 0)
            st['visits'][key] = visit + 1
            static = id(region) in st['static']
            seen = static or born < i or st['represent'].get(id(region))
            if born == i and not static:
                st['represent'][id(region)] = True
            if id(region) in st.get('gone', ()):
                interp2.effect('capture', name, K(i), NONE)
                return K(None)
            level = sched.policy(name, static, i - (0 if static else born),
                                 seen if sched.name not in ('giant', 'small-then-giant',
                                                           'birth-partial')
                                 else True, i)
            interp2.effect('capture', name, K(i), level)
            model.fill(interp2, region, level)
            return K(None)

        def end_capture(interp2, args, kwargs):
            region = args[0]
            if id(region) not in st['born'] and \
                    id(region) not in st['static']:
                model._note_birth(interp2, st, st['insp'], region,
                                  model._region_name(interp2, st['insp'],
                                                     region), 'tail')
            st['born'].setdefault(id(region), st['chunk'])
            n = region.fields.get('length')
            src = T('tail', interp2.termify(n))
            if interp2.guide is not None:
                # lazy enumeration: the window holds what the stream has
                try:
                    nv = interp2.guide(interp2.termify(n))
                except (CannotEval, Raised) as e:
                    raise Inexact('tail window size not evaluable: %s' % e)
                have = min(nv, len(model.image))
                region.fields['data'] = T('bytes', src, K(0), K(have))
                region.fields['offset'] = K(len(model.image) - have)
            else:
                region.fields['data'] = T('bytes', src, K(0),
                                          interp2.termify(n))
                region.fields['offset'] = T('sym', 'tail_offset')
            interp2.effect('capture', 'tail', K(st['chunk']), FULL)
            return K(None)
        interp.stubs['CaptureRegion.capture'] = capture
        interp.stubs['EndCaptureRegion.capture'] = end_capture
        interp.decide = self._decide
        interp.world.sym_iter_max = self.sym_iter_max

    def _note_birth(self, interp, st, insp, region, name, kind):
        """Geometry of a region defined while streaming (guided mode)."""
        info = st.setdefault('born_info', {})
        if interp.guide is None or name is None:
            return
        try:
            off = None
            if kind == 'region':
                off = interp.guide(interp.termify(
                    region.fields.get('offset')))
            floor = self.held_floor(interp, insp, region)
            info[name] = (kind, off, floor, st.get('chunk_floor'))
            cf = st.get('chunk_floor')
            if kind == 'region' and off is not None and cf:
                # every byte of the region went by before the chunk that
                # defines it started: no later chunk can deliver it
                length = interp.guide(interp.termify(
                    region.fields.get('length')))
                if isinstance(length, int) and length > 0 and \
                        off + length < cf:
                    st.setdefault('gone', set()).add(id(region))
        except (CannotEval, Raised):
            info[name] = (kind, None, None, None)

    def held_floor(self, interp, insp, skip=None):
        """End of the data held by the (non-tail) regions: the stream has
        delivered at least that many bytes."""
        floor = 0
        regs = insp.fields.get(private_names(self.world)['regions'])
        if not isinstance(regs, DictV):
            return 0
        for k, r in zip(regs.keys, regs.vals):
            if r is skip or not isinstance(r, Obj) or (
                    r.cls is not None and r.cls.is_subclass(self.end_cls)):
                continue
            d = r.fields.get('data')
            if not (isinstance(d, T) and d.op == 'bytes'):
                continue
            o2 = interp.guide(interp.termify(r.fields.get('offset')))
            n2 = len(interp.guide(d))
            floor = max(floor, o2 + n2)
        return floor

    def fill(self, interp, region, level):
        if level == NONE:
            return
        if interp.guide is not None:
            return self.fill_guided(interp, region, level)
        length = region.fields.get('length')
        minl = region.fields.get('min_length')
        src = region_src(interp, region)
        cur = region.fields.get('data')
        has_min = isinstance(minl, K) and minl.v is not None
        if level == MINFULL:
            level = MIN if has_min else FULL
        if level == MIN and has_min:
            new_hi = minl
        elif level == PARTIAL or (level == MIN):
            # partial: one byte (below any min_length); MIN without a
            # min_length: two bytes
            new_hi = K(1) if level == PARTIAL else K(2)
            if isinstance(length, K) and isinstance(length.v, int) and \
                    length.v <= new_hi.v:
                new_hi = length
        else:
            new_hi = interp.termify(length)
        # never shrink
        if isinstance(cur, T) and cur.op == 'bytes':
            old_hi = cur.args[2]
            if isinstance(old_hi, K) and isinstance(new_hi, K) and \
                    old_hi.v >= new_hi.v:
                return
            if not isinstance(new_hi, K) and old_hi == new_hi:
                return
        region.fields['data'] = T('bytes', src, K(0), new_hi)

    def fill_guided(self, interp, region, level):
        """Lazy-enumeration mode: offsets / lengths are evaluated on the
        image, the captured byte count is clipped to the stream."""
        image = self.image
        try:
            off = interp.guide(interp.termify(region.fields.get('offset')))
            length = interp.guide(interp.termify(
                region.fields.get('length')))
        except (CannotEval, Raised) as e:
            raise Inexact('region geometry not evaluable: %s' % e)
        minl = region.fields.get('min_length')
        has_min = isinstance(minl, K) and minl.v is not None
        if level == MINFULL:
            level = MIN if has_min else FULL
        if level == PARTIAL:
            want = 1
        elif level == MIN:
            want = minl.v if has_min else 2
        elif isinstance(level, tuple):      # ('bytes', n)
            want = level[1]
        else:
            want = length
        avail = max(0, len(image) - off) if off >= 0 else 0
        if length < 0:
            # data[:length] with a negative length keeps all but the last
            # |length| bytes of what the chunk delivered (Python slicing):
            # the retention follows the chunk, not the region
            n = max(0, avail + length) if level not in (NONE,) else 0
        else:
            n = max(0, min(want, length, avail))
        cur = region.fields.get('data')
        if isinstance(cur, T) and cur.op == 'bytes' and \
                isinstance(cur.args[2], K) and cur.args[2].v >= n:
            return
        if n == 0:
            return
        src = region_src(interp, region)
        region.fields['data'] = T('bytes', src, K(0), K(n))

    def _decide(self, interp, t):
        return None

    def run(self, image, sched, chunk_observer=True, depth=None,
            second_run=False, mid_safety=False):
        """Lazy enumeration: the single path the image follows under
        *sched*.  -> dict of observations (python values)."""
        self.image = image
        world = self.world
        cls = self.cls
        n = sched.n_chunks
        if sched.name == 'trickle':
            global TRICKLE_LEVELS
            TRICKLE_LEVELS = levels_for(world, cls)
            n = 2 * len(TRICKLE_LEVELS) + 14
        lens = {'chunk%d' % i: len(image) // n for i in range(n)}
        lens['chunk%d' % (n - 1)] += len(image) - sum(lens.values())
        iv = ImageVal(image, lens)
        holder = {}
        model = self

        gmemo = {}

        def guide(t):
            r = gmemo.get(t, gmemo)
            if r is gmemo:
                try:
                    r = ev(t, {}, [iv.hook])
                except Raised as e:
                    gmemo[t] = e
                    raise
                gmemo[t] = r
            elif isinstance(r, Raised):
                raise r
            return r

        def observe(interp, insp, final):
            out = {}
            names = ['complete', 'format_match', 'virtual_size',
                     'context_info']
            for name in names:
                try:
                    v = interp.get_attr(insp, name)
                    out[name] = ('value', ev(v, {}, [iv.hook]))
                except AbsRaise as r:
                    out[name] = ('raise', _exc_name(interp, r.exc))
                except (CannotEval, Raised) as e:
                    out[name] = ('unevaluable', str(e))
            if final:
                try:
                    interp.call(interp.get_attr(insp, 'safety_check'), [])
                    out['safety'] = 'ok'
                except AbsRaise as r:
                    nm = _exc_name(interp, r.exc)
                    if nm == 'SafetyCheckFailed' and isinstance(r.exc, Obj):
                        f = r.exc.fields.get('failures')
                        names_ = frozenset(k.v for k in f.keys) if \
                            isinstance(f, DictV) else frozenset()
                        out['safety'] = ('fail', names_)
                    elif nm == 'ImageFormatError':
                        out['safety'] = 'refused'
                    else:
                        out['safety'] = ('raise', nm)
            return out

        def thunk(interp):
            interp.guide = guide
            st = {'insp': None, 'chunk': -1, 'born': {}, 'visits': {},
                  'static': set(), 'represent': {}}
            model._install(interp, sched, st)
            interp.method_raises.update({
                'index': ['ValueError'], 'decode': ['UnicodeDecodeError']})
            insp = interp.call(cls, [])
            st['insp'] = insp
            regs = insp.fields.get(private_names(self.world)['regions'])
            if isinstance(regs, DictV):
                for v in regs.vals:
                    st['static'].add(id(v))
            res = {'chunks': [], 'error': None}
            # what a new inspector reports before it has seen any data
            res['fresh_before'] = observe(interp, insp, False)
            st['born_info'] = {}
            res['born'] = st['born_info']
            holder['res'] = res
            holder['insp'] = insp
            for i in range(n):
                st['chunk'] = i
                try:
                    # bytes certainly delivered before this chunk starts
                    st['chunk_floor'] = model.held_floor(interp, insp)
                except (CannotEval, Raised):
                    st['chunk_floor'] = None
                chunk = T('sym', 'chunk%d' % i)
                interp.types[chunk] = 'bytes'
                try:
                    interp.call(interp.get_attr(insp, 'eat_chunk'), [chunk])
                except AbsRaise as r:
                    res['error'] = (i, _exc_name(interp, r.exc))
                    break
                if chunk_observer:
                    res['chunks'].append(observe(interp, insp, False))
                if mid_safety:
                    # a caller asks for the safety verdict between two
                    # reads (whatever it answers now)
                    try:
                        interp.call(interp.get_attr(insp, 'safety_check'),
                                    [])
                    except AbsRaise:
                        pass
            try:
                interp.call(interp.get_attr(insp, 'finish'), [])
            except AbsRaise as r:
                res['finish_error'] = _exc_name(interp, r.exc)
            res['final'] = observe(interp, insp, True)
            # ... and what the next new inspector reports afterwards
            try:
                st2 = dict(st)
                insp2 = interp.call(cls, [])
                res['fresh_after'] = observe(interp, insp2, False)
            except AbsRaise as r:
                insp2 = None
                res['fresh_after'] = {'constructor': (
                    'raise', _exc_name(interp, r.exc))}
            if second_run and insp2 is not None:
                # the second inspector reads the same stream: afterwards no
                # mutable object made while streaming may belong to both
                st.update(insp=insp2, chunk=-1, born={}, visits={},
                          represent={}, static=set())
                st.pop('gone', None)
                regs2 = insp2.fields.get(private_names(self.world)['regions'])
                if isinstance(regs2, DictV):
                    for v in regs2.vals:
                        st['static'].add(id(v))
                try:
                    for i in range(n):
                        st['chunk'] = i
                        try:
                            st['chunk_floor'] = model.held_floor(interp,
                                                                 insp2)
                        except (CannotEval, Raised):
                            st['chunk_floor'] = None
                        chunk = T('sym', 'chunk%d' % i)
                        interp.call(interp.get_attr(insp2, 'eat_chunk'),
                                    [chunk])
                    interp.call(interp.get_attr(insp2, 'finish'), [])
                except AbsRaise:
                    pass
                res['shared'] = shared_state(interp, insp, insp2)
            chk = insp.fields.get(private_names(self.world)['checks'])
            res['checks'] = sorted(k.v for k in chk.keys) if isinstance(
                chk, DictV) else None
            regs = insp.fields.get(private_names(self.world)['regions'])
            res['regions'] = {}
            if isinstance(regs, DictV):
                for k, r in zip(regs.keys, regs.vals):
                    try:
                        res['regions'][k.v] = (
                            ev(r.fields.get('offset'), {}, [iv.hook]),
                            ev(r.fields.get('length'), {}, [iv.hook]),
                            len(ev(r.fields.get('data'), {}, [iv.hook])))
                    except (CannotEval, Raised) as e:
                        res['regions'][k.v] = ('unevaluable', str(e))
            return K(None)

        interp = Interp(world, inline_depth=depth or self.inline_depth)
        old_iter, old_loop, old_unroll = world.sym_iter_max, \
            world.loop_bound, world.unroll_bound
        world.loop_bound = 8
        try:
            outs = interp.explore(thunk, max_paths=64,
                                  capture=lambda i: dict(holder['res'])
                                  if 'res' in holder else None)
        finally:
            world.sym_iter_max, world.loop_bound, world.unroll_bound = \
                old_iter, old_loop, old_unroll
        return outs


    def explore(self, sched, observe=None, max_paths=20000):
        """Paths of: construct, eat n chunks, finish.  Outcome.state is the
        final inspector object graph (per path) plus per-chunk snapshots."""
        world = self.world
        cls = self.cls
        holder = {}

        def thunk(interp):
            st = {'insp': None, 'chunk': -1, 'born': {}, 'visits': {},
                  'static': set(), 'represent': {}}
            self._install(interp, sched, st)
            insp = interp.call(cls, [])
            st['insp'] = insp
            regs = insp.fields.get(private_names(self.world)['regions'])
            if isinstance(regs, DictV):
                for v in regs.vals:
                    st['static'].add(id(v))
            snaps = []
            holder['snaps'] = snaps
            holder['insp'] = insp
            for i in range(sched.n_chunks):
                st['chunk'] = i
                chunk = T('sym', 'chunk%d' % i)
                interp.types[chunk] = 'bytes'
                interp.call(interp.get_attr(insp, 'eat_chunk'), [chunk])
                if observe is not None:
                    snaps.append(observe(interp, insp, i))
            interp.call(interp.get_attr(insp, 'finish'), [])
            return insp

        def capture(interp):
            return {'insp': holder.get('insp'),
                    'snaps': list(holder.get('snaps', []))}

        interp = Interp(world, inline_depth=self.inline_depth)
        old = world.sym_iter_max
        try:
            outs = interp.explore(thunk, capture=capture,
                                  max_paths=max_paths)
        finally:
            world.sym_iter_max = old
        return outs


def shared_state(interp, a, b):
    """Mutable objects reachable from both inspector instances that are not
    class / module constants left as they were imported: [(how reached from
    the first, what it is)]."""
    world = interp.world
    constant = world.__dict__.get('_snap_seen', set())

    def reach(root):
        seen = {}
        todo = [(root, 'self')]
        while todo:
            v, path = todo.pop()
            if id(v) in seen or len(seen) > 20000:
                continue
            if isinstance(v, Obj):
                seen[id(v)] = (path, v)
                for k, x in v.fields.items():
                    if isinstance(x, (Obj, ListV, DictV, SetV, TupleV)):
                        todo.append((x, '%s.%s' % (path, k)))
            elif isinstance(v, (ListV, SetV, TupleV)):
                if not isinstance(v, TupleV):
                    seen[id(v)] = (path, v)
                for j, x in enumerate(v.items):
                    if isinstance(x, (Obj, ListV, DictV, SetV, TupleV)):
                        todo.append((x, '%s[%d]' % (path, j)))
            elif isinstance(v, DictV):
                seen[id(v)] = (path, v)
                for k, x in zip(v.keys, v.vals):
                    if isinstance(x, (Obj, ListV, DictV, SetV, TupleV)):
                        todo.append((x, '%s[%s]' % (path, show(k))))
        return seen
    ra, rb = reach(a), reach(b)
    out = []
    for i_, (path, v) in sorted(ra.items(), key=lambda kv: kv[1][0]):
        if i_ in rb and i_ not in constant and v is not a and v is not b:
            if isinstance(v, Obj) and v.cls is None:
                continue        # stand-ins made by the model itself
            origin = interp.default_objects.get(i_)
            out.append((path, rb[i_][0], type(v).__name__.replace(
                'V', '').lower() if not isinstance(v, Obj) else
                'object of %s' % (v.cls.name if v.cls else '?'),
                'the default value %s of a parameter of %s' % (
                    origin[1], origin[0]) if origin else None))
    return out[:6]


def observe_basic(interp, insp, i):
    """complete / format_match after a chunk (exceptions recorded)."""
    out = {}
    for name in ('complete', 'format_match', 'virtual_size'):
        try:
            out[name] = interp.get_attr(insp, name)
        except AbsRaise as r:
            out[name] = ('raise', r.exc)
    return out


def clone_graph(root):
    """Deep copy of an abstract object graph (Obj / containers); bound
    methods are re-bound to the copies."""
    memo = {}

    def cp(v):
        if id(v) in memo:
            return memo[id(v)]
        if isinstance(v, Obj):
            o = Obj(v.cls, {}, label=v.label)
            memo[id(v)] = o
            for k, x in v.fields.items():
                o.fields[k] = cp(x)
            return o
        if isinstance(v, ListV):
            n = ListV()
            memo[id(v)] = n
            n.items = [cp(x) for x in v.items]
            return n
        if isinstance(v, DictV):
            n = DictV()
            memo[id(v)] = n
            n.keys = [cp(x) for x in v.keys]
            n.vals = [cp(x) for x in v.vals]
            n.unknown = v.unknown
            return n
        if isinstance(v, SetV):
            n = SetV()
            memo[id(v)] = n
            n.items = [cp(x) for x in v.items]
            return n
        if isinstance(v, TupleV):
            n = TupleV([cp(x) for x in v.items])
            return n
        if isinstance(v, FuncRef) and v.bound is not None:
            f = FuncRef(v.node, v.module, v.cls, cp(v.bound), v.closure,
                        v.name)
            if hasattr(v, 'decorators'):
                f.decorators = v.decorators
            return f
        return v
    return cp(root)


# ------------------------------------------------------------------ evaluation
class ImageVal:
    """Valuation hook: region bytes are looked up in a concrete image."""

    def __init__(self, image, chunk_lens=None):
        self.image = image
        self.chunk_lens = chunk_lens or {}
        self.memo = {}

    def hook(self, v, val):
        if not isinstance(v, T):
            return NotImplemented
        if val:
            return self._hook(v, val)
        m = self.memo.get(v, self)
        if m is not self:
            if isinstance(m, Raised):
                raise m
            return m
        try:
            r = self._hook(v, val)
        except Raised as e:
            self.memo[v] = e
            raise
        if r is not NotImplemented:
            self.memo[v] = r
        return r

    def _hook(self, v, val):
        hooks = [self.hook]
        if v.op == 'bytes':
            src, lo, hi = v.args
            base = self._base(src, val)
            a = ev(lo, val, hooks)
            b = ev(hi, val, hooks)
            if isinstance(src, T) and src.op == 'tail':
                n = ev(src.args[0], val, hooks)
                data = self.image[-n:] if n else b''
                return data[a:b]
            return self.image[base + a: base + b][:max(b - a, 0)]
        if v.op == 'int':
            src, off, w, endian, signed = v.args
            base = self._base(src, val)
            o = ev(off, val, hooks)
            if isinstance(src, T) and src.op == 'tail':
                n = ev(src.args[0], val, hooks)
                raw = self.image[-n:][o:o + w]
            else:
                raw = self.image[base + o: base + o + w]
            if len(raw) < w:
                raise Raised('struct.error')
            return int.from_bytes(raw, 'little' if endian in ('<', 'B')
                                  else 'big', signed=signed)
        if v.op == 'call' and v.args[0] == 'len' and len(v.args) == 2 and \
                isinstance(v.args[1], T) and v.args[1].op == 'sym' and \
                str(v.args[1].args[0]).startswith('chunk'):
            return self.chunk_lens.get(v.args[1].args[0], 0)
        if v.op == 'sym' and v.args[0] == 'tail_offset':
            return max(len(self.image) - 1536, 0)
        if v.op == 'haslen':
            src, need = v.args
            have = ev(T('curlen', src), val, hooks) if False else None
            return NotImplemented
        if v.op == 'elem':
            seq = ev(v.args[0], val, hooks)
            i = ev(v.args[1], val, hooks)
            try:
                return seq[i]
            except (IndexError, TypeError):
                raise Raised('IndexError')
        if v.op == 'range':
            return range(*[ev(a, val, hooks) for a in v.args])
        if v.op == 'len':
            return len(ev(v.args[0], val, hooks))
        return NotImplemented

    def _base(self, src, val):
        if isinstance(src, T) and src.op == 'at':
            return ev(src.args[0], val, [self.hook])
        if isinstance(src, T) and src.op == 'tail':
            return 0
        raise CannotEval('unknown byte source %s' % show(src))


def _exc_name(interp, exc):
    cls = interp.exc_class_of(exc)
    if isinstance(cls, ClassRef):
        return cls.name
    if cls is not None:
        return cls.name
    return show(exc)

    # -- exploration -----------------------------------------------------------
