"""E1 - loader / index.

Parses every ``oslo_utils/**/*.py`` of the repository under analysis (tests are
parsed for syntax only) and offers symbol lookup on the syntax trees.  Nothing
from the repository is imported or executed.
"""
import ast
import hashlib
import os

REPO = os.environ.get('SA_REPO', '/repo')
PKG = 'oslo_utils'


class AnalysisError(Exception):
    """The analysis cannot decide (vanished anchor, unknown idiom, bound hit).

    Never reported as a violation: exit status 2.
    """


class Module:
    def __init__(self, name, path, source):
        self.name = name
        self.path = path
        self.source = source
        self.tree = ast.parse(source, filename=path)
        for node in ast.walk(self.tree):
            for child in ast.iter_child_nodes(node):
                child._parent = node
        self.digest = hashlib.sha256(source.encode('utf-8')).hexdigest()

    @property
    def relpath(self):
        return os.path.relpath(self.path, REPO)

    # -- symbol lookup -----------------------------------------------------
    def top(self, name):
        """Return the top-level def/class/assign node binding *name*."""
        found = None
        for node in self.tree.body:
            if isinstance(node, (ast.FunctionDef, ast.ClassDef)):
                if node.name == name:
                    found = node
            elif isinstance(node, ast.Assign):
                for t in node.targets:
                    if isinstance(t, ast.Name) and t.id == name:
                        found = node
            elif isinstance(node, ast.AnnAssign):
                if isinstance(node.target, ast.Name) and \
                        node.target.id == name:
                    found = node
        return found

    def func(self, qualname):
        """Find ``func`` or ``Class.method`` (anchor: AnalysisError if gone)."""
        parts = qualname.split('.')
        body = self.tree.body
        node = None
        for i, part in enumerate(parts):
            node = None
            for cand in body:
                if isinstance(cand, (ast.FunctionDef, ast.ClassDef)) and \
                        cand.name == part:
                    node = cand  # last definition wins
            if node is None:
                raise AnalysisError(
                    'anchor vanished: %s:%s' % (self.relpath, qualname))
            body = node.body
        return node

    def has(self, qualname):
        try:
            self.func(qualname)
            return True
        except AnalysisError:
            return False

    def classes(self):
        return [n for n in self.tree.body if isinstance(n, ast.ClassDef)]

    def functions(self):
        return [n for n in self.tree.body if isinstance(n, ast.FunctionDef)]


class Repo:
    def __init__(self, root=None, overrides=None):
        """*overrides*: {relative path: source} used by the self-test to
        analyse a transformed tree without touching the disk."""
        self.root = root or REPO
        self.overrides = overrides or {}
        self.modules = {}
        self.test_files = 0
        self.parse_errors = []
        self._load()

    def _load(self):
        base = os.path.join(self.root, PKG)
        if not os.path.isdir(base):
            raise AnalysisError('package directory %s not found' % base)
        for dirpath, dirnames, filenames in os.walk(base):
            dirnames[:] = sorted(d for d in dirnames if d != '__pycache__')
            for fn in sorted(filenames):
                if not fn.endswith('.py'):
                    continue
                path = os.path.join(dirpath, fn)
                rel = os.path.relpath(path, self.root)
                if rel in self.overrides:
                    src = self.overrides[rel]
                else:
                    with open(path, encoding='utf-8') as f:
                        src = f.read()
                modname = rel[:-3].replace(os.sep, '.')
                if modname.endswith('.__init__'):
                    modname = modname[:-9]
                is_test = (os.sep + 'tests' + os.sep) in path
                try:
                    if is_test:
                        ast.parse(src, filename=path)
                        self.test_files += 1
                    else:
                        self.modules[modname] = Module(modname, path, src)
                except SyntaxError as e:
                    self.parse_errors.append('%s: %s' % (rel, e))
        if self.parse_errors:
            raise AnalysisError('syntax errors: %s' % self.parse_errors)

    def module(self, name):
        full = name if name.startswith(PKG) else PKG + '.' + name
        if full not in self.modules:
            raise AnalysisError('anchor vanished: module %s' % full)
        return self.modules[full]

    def digest(self, names=None):
        h = hashlib.sha256()
        for name in sorted(names or self.modules):
            h.update(self.module(name).digest.encode())
        return h.hexdigest()[:16]

    def source_of(self, rel):
        if rel in self.overrides:
            return self.overrides[rel]
        with open(os.path.join(self.root, rel), encoding='utf-8') as f:
            return f.read()


def node_key(node):
    """Position-free text of a statement/expression (for finding keys)."""
    try:
        return ast.unparse(node).strip().split('\n')[0][:120]
    except Exception:  # pragma: no cover
        return type(node).__name__


def enclosing_function(node):
    n = getattr(node, '_parent', None)
    names = []
    while n is not None:
        if isinstance(n, (ast.FunctionDef, ast.ClassDef, ast.Lambda)):
            names.append(getattr(n, 'name', '<lambda>'))
        n = getattr(n, '_parent', None)
    return '.'.join(reversed(names)) or '<module>'



class Budget:
    """CPU-time budget of one analysis step (SIGPROF; independent of the
    evaluator's own watchdog): when it is used up the step ends with an
    AnalysisError, i.e. undecided - never a hang."""

    def __init__(self, seconds, what):
        self.seconds, self.what = seconds, what

    def __enter__(self):
        import signal
        import threading
        self.active = threading.current_thread() is threading.main_thread()
        if not self.active:
            return self

        def fire(signum, frame):
            raise AnalysisError('%s did not finish within %d s of CPU time'
                                % (self.what, self.seconds))
        self.old = signal.signal(signal.SIGPROF, fire)
        # fires again in case the first one was swallowed somewhere
        signal.setitimer(signal.ITIMER_PROF, self.seconds, 2)
        return self

    def __exit__(self, *exc):
        if self.active:
            import signal
            signal.setitimer(signal.ITIMER_PROF, 0)
            signal.signal(signal.SIGPROF, self.old)
        return False
