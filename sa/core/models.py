"""Models of builtins, stdlib helpers and container/str/bytes methods for the
abstract interpreter.  Only *pure* operations on constants are folded with
the host Python; everything else becomes a symbolic term and (for calls) a
recorded effect."""
import ast
import operator as _op
import struct as _struct

from .absint import AbsRaise, Inexact, exc_is_subclass
from .values import (K, T, Obj, ListV, IterV, TupleV, SetV, DictV, FuncRef, ClassRef,
                     ExtRef, ModRef, AbsFunc, RegexV, NTupleV, NTClass, same,
                     show)


class Method:
    """A bound method of a non-Obj abstract value."""

    def __init__(self, base, name):
        self.base = base
        self.name = name

    def __repr__(self):
        return '<method %s of %r>' % (self.name, self.base)


TYPE_TAGS = {
    'str': {'str'}, 'bytes': {'bytes'}, 'bool': {'bool', 'int'},
    'int': {'int'}, 'float': {'float'}, 'NoneType': set(),
    'dict': {'dict', 'collections.abc.Mapping',
             'collections.abc.MutableMapping'},
    'Mapping': {'collections.abc.Mapping'},
    'list': {'list'}, 'tuple': {'tuple'}, 'set': {'set'},
    'other': set(), 'datetime': {'datetime.datetime', 'datetime.date'},
}
PY_TYPES = {'str': str, 'bytes': bytes, 'bool': bool, 'int': int,
            'float': float, 'tuple': tuple, 'list': list, 'dict': dict,
            'set': set, 'frozenset': frozenset, 'range': range,
            'bytearray': bytearray, 'memoryview': memoryview,
            'complex': complex, 'object': object, 'type': type}

PURE_STR_METHODS = {
    'lower', 'upper', 'strip', 'lstrip', 'rstrip', 'replace', 'split',
    'rsplit', 'splitlines', 'partition', 'rpartition', 'startswith',
    'endswith', 'count', 'find', 'rfind', 'index', 'rindex', 'join',
    'isdigit', 'isascii', 'isalpha', 'isalnum', 'isspace', 'isprintable',
    'title', 'capitalize', 'casefold', 'removeprefix', 'removesuffix',
    'zfill', 'format', 'encode', 'decode', 'hex', 'swapcase', 'center',
    'ljust', 'rjust', 'expandtabs', 'isupper', 'islower', 'isnumeric',
    'isdecimal', 'isidentifier', 'istitle', 'translate'}
STR_RET = {'lower', 'upper', 'strip', 'lstrip', 'rstrip', 'replace',
           'format', 'join', 'decode', 'title', 'capitalize', 'removesuffix',
           'removeprefix', 'casefold', 'hex', 'translate', 'swapcase',
           'center', 'ljust', 'rjust', 'expandtabs', 'zfill'}
BYTES_RET = {'encode'}

ARITH = {ast.Add: _op.add, ast.Sub: _op.sub, ast.Mult: _op.mul,
         ast.Div: _op.truediv, ast.FloorDiv: _op.floordiv, ast.Mod: _op.mod,
         ast.Pow: _op.pow, ast.LShift: _op.lshift, ast.RShift: _op.rshift,
         ast.BitOr: _op.or_, ast.BitAnd: _op.and_, ast.BitXor: _op.xor}
ARITH_SYM = {ast.Add: '+', ast.Sub: '-', ast.Mult: '*', ast.Div: '/',
             ast.FloorDiv: '//', ast.Mod: '%', ast.Pow: '**',
             ast.LShift: '<<', ast.RShift: '>>', ast.BitOr: '|',
             ast.BitAnd: '&', ast.BitXor: '^', ast.MatMult: '@'}
CMP_SYM = {ast.Eq: '==', ast.NotEq: '!=', ast.Lt: '<', ast.LtE: '<=',
           ast.Gt: '>', ast.GtE: '>=', ast.Is: 'is', ast.IsNot: 'is not',
           ast.In: 'in', ast.NotIn: 'not in'}
CMP_PY = {'==': _op.eq, '!=': _op.ne, '<': _op.lt, '<=': _op.le,
          '>': _op.gt, '>=': _op.ge}


def py_exc(interp, e):
    name = type(e).__name__
    if isinstance(e, _struct.error):
        name = 'struct.error'
    return AbsRaise(T('exc', name, str(e)))


# ---------------------------------------------------------------- linear ints
def lin(v):
    """Linear form of an integer-valued abstract value:
    (const, {atom: coef}) or None."""
    if isinstance(v, K):
        if isinstance(v.v, bool) or not isinstance(v.v, int):
            return None
        return (v.v, {})
    if isinstance(v, T) and v.op == 'binop':
        op, a, b = v.args
        la, lb = lin(a), lin(b)
        if la is None or lb is None:
            return (0, {v: 1})
        if op == '+':
            return _ladd(la, lb, 1)
        if op == '-':
            return _ladd(la, lb, -1)
        if op == '*':
            if not la[1]:
                return (la[0] * lb[0], {k: c * la[0] for k, c in
                                        lb[1].items() if c * la[0]})
            if not lb[1]:
                return (la[0] * lb[0], {k: c * lb[0] for k, c in
                                        la[1].items() if c * lb[0]})
        return (0, {v: 1})
    if isinstance(v, T):
        return (0, {v: 1})
    return None


def _ladd(a, b, sign):
    d = dict(a[1])
    for k, c in b[1].items():
        d[k] = d.get(k, 0) + sign * c
        if d[k] == 0:
            del d[k]
    return (a[0] + sign * b[0], d)


def from_lin(l):
    const, d = l
    if not d:
        return K(const)
    parts = None
    for k in sorted(d, key=show):
        c = d[k]
        term = k if c == 1 else T('binop', '*', K(c), k)
        parts = term if parts is None else T('binop', '+', parts, term)
    if const:
        parts = T('binop', '+', K(const), parts)
    return parts


def norm_int(v):
    l = lin(v)
    if l is None:
        return v
    return from_lin(l)


# ---------------------------------------------------------------- operators
def binop(interp, op, a, b):
    sym = ARITH_SYM[type(op)]
    if isinstance(a, K) and isinstance(b, K):
        try:
            return K(ARITH[type(op)](a.v, b.v))
        except Exception as e:
            raise py_exc(interp, e)
    if sym == '+':
        if isinstance(a, TupleV) or isinstance(b, TupleV):
            ai = _seq_items(a)
            bi = _seq_items(b)
            if ai is not None and bi is not None:
                return TupleV(ai + bi)
        if isinstance(a, ListV) and isinstance(b, ListV):
            return ListV(a.items + b.items)
        if isinstance(a, ListV) and _seq_items(b) is not None:
            return ListV(a.items + _seq_items(b))
    if sym == '|' and isinstance(a, DictV) and isinstance(b, DictV):
        # dict merge: the right operand wins, order of first appearance
        d = DictV(list(zip(a.keys, a.vals)))
        for k_, v_ in zip(b.keys, b.vals):
            d.set(k_, v_)
        d.unknown = a.unknown or b.unknown
        return d
    if isinstance(a, SetV) and isinstance(b, SetV) and sym in ('-', '|',
                                                               '&', '^'):
        if sym == '-':
            return SetV([x for x in a.items
                         if not any(same(x, y) for y in b.items)])
        if sym == '|':
            return SetV(a.items + b.items)
        if sym == '&':
            return SetV([x for x in a.items
                         if any(same(x, y) for y in b.items)])
        return SetV([x for x in a.items
                     if not any(same(x, y) for y in b.items)] +
                    [y for y in b.items
                     if not any(same(x, y) for x in a.items)])
    if sym == '*' and isinstance(a, ListV) and isinstance(b, K) and \
            isinstance(b.v, int):
        if b.v > 64:
            return T('list*', interp.termify(a), b)
        return ListV(a.items * max(b.v, 0))
    if sym == '*' and isinstance(a, ListV) and isinstance(b, T):
        t = T('binop', '*', interp.termify(a), b)
        interp.types[t] = 'list'
        return t
    if sym == '%' and isinstance(a, K) and isinstance(a.v, (str, bytes)):
        pb = _const_py(b)
        if pb is not _NOCONST:
            try:
                return K(a.v % pb)
            except Exception as e:
                raise py_exc(interp, e)
        return T('fmt', a, interp.termify(b))
    ta, tb = interp.termify(a), interp.termify(b)
    t = T('binop', sym, ta, tb)
    if sym in ('+', '-', '*') and _intlike(interp, ta) and \
            _intlike(interp, tb):
        la, lb = lin(ta), lin(tb)
        if la is not None and lb is not None:
            r = norm_int(t)
            if isinstance(r, T):
                interp.types[r] = 'int'
            return r
    return t


def _intlike(interp, v):
    if isinstance(v, K):
        return isinstance(v.v, int) and not isinstance(v.v, bool)
    if isinstance(v, T):
        if v.op in ('int', 'idx'):
            return True
        if interp.types.get(v) == 'int':
            return True
        if v.op == 'call' and v.args[0] == 'len':
            return True
        if v.op == 'elem' and isinstance(v.args[0], T) and \
                v.args[0].op == 'range':
            return True
        if v.op == 'binop' and v.args[0] in ('+', '-', '*'):
            return _intlike(interp, v.args[1]) and \
                _intlike(interp, v.args[2])
    return False


_NOCONST = object()


def _const_py(v):
    if isinstance(v, K):
        return v.v
    if isinstance(v, (TupleV, ListV)):
        items = [_const_py(x) for x in v.items]
        if any(x is _NOCONST for x in items):
            return _NOCONST
        return tuple(items) if isinstance(v, TupleV) else items
    if isinstance(v, DictV) and not v.unknown:
        out = {}
        for k, x in zip(v.keys, v.vals):
            pk, px = _const_py(k), _const_py(x)
            if pk is _NOCONST or px is _NOCONST:
                return _NOCONST
            out[pk] = px
        return out
    return _NOCONST


def _seq_items(v):
    if isinstance(v, (TupleV, ListV)):
        return list(v.items)
    if isinstance(v, K) and isinstance(v.v, tuple):
        return [K(x) for x in v.v]
    return None


def unaryop(interp, op, v):
    if isinstance(v, K):
        try:
            if isinstance(op, ast.USub):
                return K(-v.v)
            if isinstance(op, ast.UAdd):
                return K(+v.v)
            if isinstance(op, ast.Invert):
                return K(~v.v)
        except Exception as e:
            raise py_exc(interp, e)
    if isinstance(op, ast.USub):
        return norm_int(T('binop', '-', K(0), interp.termify(v)))
    return T('unop', type(op).__name__, interp.termify(v))


def compare(interp, op, a, b):
    sym = CMP_SYM[type(op)]
    neg = False
    if sym == '!=':
        sym, neg = '==', True
    elif sym == 'is not':
        sym, neg = 'is', True
    elif sym == 'not in':
        sym, neg = 'in', True
    r = _compare(interp, sym, a, b)
    if neg:
        if isinstance(r, K):
            return K(not r.v)
        return T('not', r)
    return r


def static_type(interp, t, depth=0):
    """Type tag of a term when it follows from how the term was made."""
    if not isinstance(t, T) or depth > 6:
        return 'str' if isinstance(t, K) and isinstance(t.v, str) else None
    tag = interp.types.get(t) or interp.path_types.get(t)
    if tag:
        return tag
    if t.op in ('fstr', 'fmtval', 'format'):
        return 'str'
    if t.op in ('item', 'sub', 'elem') and isinstance(t.args[0], T) and \
            t.args[0].op == 'mcall' and t.args[0].args[1] in (
                'split', 'rsplit', 'splitlines', 'partition', 'rpartition'):
        return static_type(interp, t.args[0].args[0], depth + 1)
    if t.op == 'mcall' and t.args[1] in STR_RET:
        base = static_type(interp, t.args[0], depth + 1)
        if base in ('str', 'bytes'):
            if t.args[1] == 'decode':
                return 'str'
            return base
    if t.op == 'slice':
        return static_type(interp, t.args[0], depth + 1)
    return None


def _identity(a, b, interp=None):
    """True/False/None for ``a is b``."""
    if isinstance(a, ExtRef) and isinstance(b, K) or \
            isinstance(b, ExtRef) and isinstance(a, K):
        return False
    # an abstract object (record, tuple, iterator, function, ...) is not
    # one of the constant singletons
    for x, y in ((a, b), (b, a)):
        if isinstance(y, K) and (y.v is None or isinstance(y.v, bool)) and \
                not isinstance(x, (K, T)):
            return False
    # the result of an operator, of string formatting, of a comparison or
    # of a container display is never None
    for x, y in ((a, b), (b, a)):
        if isinstance(y, K) and y.v is None and isinstance(x, T) and \
                x.op in ('binop', 'fstr', 'fmtval', 'format', 'cmp', 'not',
                         'bytes', 'int', 'list', 'dict', 'tuple', 'set',
                         'isinstance', 'rxmatch', 'len'):
            return False
    # type(x) of an unmodelled object is a class: never a constant
    if isinstance(a, T) and a.op == 'type' and isinstance(b, K) or \
            isinstance(b, T) and b.op == 'type' and isinstance(a, K):
        return False
    if interp is not None:
        da = isinstance(a, T) and (a in interp.distinct or a.op == 'tb')
        db = isinstance(b, T) and (b in interp.distinct or b.op == 'tb')
        if da and db:
            return a == b
        if (da and isinstance(b, K)) or (db and isinstance(a, K)):
            return False
    if isinstance(a, K) and isinstance(b, K):
        if a.v is None or b.v is None or isinstance(a.v, bool) or \
                isinstance(b.v, bool):
            return a.v is b.v
        if a is not b and a == b and isinstance(a.v, (str, bytes, float,
                                                      tuple)):
            # equal values held by distinct objects: the language does not
            # say whether they are identical (interning is an accident of
            # how each one was made) - both answers are explored
            return None
        return a == b
    heap = (Obj, ListV, DictV, SetV, FuncRef, ClassRef, AbsFunc)
    if isinstance(a, heap) or isinstance(b, heap):
        if isinstance(a, K) or isinstance(b, K):
            return False
        if isinstance(a, heap) and isinstance(b, heap):
            return a is b
        if interp is not None:
            # a value known to be a str / bytes / number is not a heap
            # object made by the code (a sentinel, an instance, a list)
            for x, y in ((a, b), (b, a)):
                if isinstance(x, heap) and isinstance(y, T) and \
                        static_type(interp, y) in (
                            'str', 'bytes', 'int', 'float', 'bool',
                            'datetime', 'timedelta'):
                    return False
        return None
    if isinstance(a, ExtRef) and isinstance(b, ExtRef):
        return a == b
    if isinstance(a, T) and isinstance(b, T) and a == b:
        return True
    return None


def _compare(interp, sym, a, b):
    if sym == 'is':
        r = _identity(a, b, interp)
        if r is not None:
            return K(r)
        if isinstance(a, K) and not isinstance(b, K):
            a, b = b, a
        none_known = interp.not_none.get(a) if isinstance(a, T) else None
        if none_known is not None and isinstance(b, K) and b.v is None:
            return K(not none_known)
        return T('cmp', 'is', interp.termify(a), interp.termify(b))
    if sym == '==':
        if isinstance(a, K) and isinstance(b, K):
            return K(a.v == b.v)
        for x, y in ((a, b), (b, a)):
            # x == b'' (x == '') on a value known to be bytes (str) is the
            # same question as ``not x``: asked in one form only, so that a
            # scenario's answer to one is its answer to the other
            if isinstance(y, K) and isinstance(y.v, (bytes, str)) and \
                    len(y.v) == 0 and isinstance(x, T):
                tag = interp.types.get(x) or interp.path_types.get(x) or (
                    'bytes' if x.op == 'bytes' else None)
                if tag == ('bytes' if isinstance(y.v, bytes) else 'str'):
                    known = interp.truth_known(x)
                    if known is not None:
                        return K(not known)
                    return T('not', x)
        if isinstance(a, Method) or isinstance(b, Method):
            # a bound method never equals a constant
            if isinstance(a, K) or isinstance(b, K):
                return K(False)
        r = _identity(a, b)
        if r is True:
            return K(True)
        if isinstance(a, T) and isinstance(b, T) and a.op == 'id' and \
                b.op == 'id':
            return K(a == b)        # ids of two live objects differ
        for x, y in ((a, b), (b, a)):
            if isinstance(x, Obj) and isinstance(x.fields.get('__eq__'),
                                                 AbsFunc):
                return interp.call(x.fields['__eq__'], [y])
        for x, y in ((a, b), (b, a)):
            if isinstance(x, Obj) and x.cls is not None:
                m, _o = x.cls.lookup('__eq__')
                if isinstance(m, FuncRef):
                    r = interp.call(m.bind(x), [y])
                    if isinstance(r, ExtRef) and r.name == 'NotImplemented':
                        continue
                    return r
        if isinstance(a, (Obj, FuncRef, ClassRef)) and \
                isinstance(b, (Obj, FuncRef, ClassRef)):
            return K(a is b)
        for x, y in ((a, b), (b, a)):
            # a container never equals a constant of another kind
            if isinstance(x, (ListV, DictV, SetV, TupleV)) and \
                    isinstance(y, K) and not isinstance(
                        y.v, {ListV: list, DictV: dict, SetV: (set,
                                                               frozenset),
                              TupleV: tuple, NTupleV: tuple}[type(x)]):
                return K(False)
        ia, ib = _seq_items(a), _seq_items(b)
        if ia is not None and ib is not None and \
                isinstance(a, (TupleV, K)) == isinstance(b, (TupleV, K)):
            if len(ia) != len(ib):
                return K(False)
            # element-wise conjunction
            for x, y in zip(ia, ib):
                if not interp.truth(_compare(interp, '==', x, y)):
                    return K(False)
            return K(True)
        if (isinstance(a, K) and a.v is None and isinstance(b, (Obj,))) or \
                (isinstance(b, K) and b.v is None and isinstance(a, (Obj,))):
            return K(False)
        if isinstance(a, K) and not isinstance(b, K):
            a, b = b, a
        return T('cmp', '==', interp.termify(a), interp.termify(b))
    if sym == 'in':
        holder = b.cls if isinstance(b, (Obj, NTupleV)) else None
        if isinstance(holder, ClassRef):
            m, _o = holder.lookup('__contains__')
            if isinstance(m, FuncRef):
                return K(bool(interp.truth(interp.call(m.bind(b), [a]))))
        if isinstance(b, K) and isinstance(a, K):
            try:
                return K(a.v in b.v)
            except Exception as e:
                raise py_exc(interp, e)
        items = None
        if isinstance(b, IterV):
            # membership in an iterator advances it past the first hit
            for i, x in enumerate(list(b.items)):
                if interp.truth(_compare(interp, '==', a, x)):
                    b.items = b.items[i + 1:]
                    return K(True)
            b.items = []
            return K(False)
        if isinstance(b, (ListV, TupleV, SetV)):
            items = b.items
        elif isinstance(b, DictV) and not b.unknown:
            items = b.keys
        elif isinstance(b, K) and isinstance(b.v, (tuple, list)):
            items = [K(x) for x in b.v]
        if items is not None:
            unknown = []
            for x in items:
                r = _compare(interp, '==', a, x)
                if isinstance(r, K):
                    if r.v:
                        return K(True)
                else:
                    unknown.append(r)
            if not unknown:
                return K(False)
            if isinstance(b, K):
                return T('cmp', 'in', interp.termify(a), b)
            for r in unknown:
                if interp.truth(r):
                    return K(True)
            return K(False)
        return T('cmp', 'in', interp.termify(a), interp.termify(b))
    # ordering
    if isinstance(a, K) and isinstance(b, K):
        try:
            return K(CMP_PY[sym](a.v, b.v))
        except Exception as e:
            raise py_exc(interp, e)
    ta, tb = interp.termify(a), interp.termify(b)
    la, lb = lin(ta), lin(tb)
    if la is not None and lb is not None:
        d = _ladd(la, lb, -1)
        if not d[1]:
            return K(CMP_PY[sym](d[0], 0))
    return T('cmp', sym, ta, tb)


# ---------------------------------------------------------------- subscripts
def bytes_len(interp, t):
    """Known length of a bytes term, or None."""
    src, lo, hi = t.args
    if isinstance(hi, K) and hi.v is None:
        return None
    d = _ladd(lin(hi), lin(lo), -1) if lin(hi) and lin(lo) else None
    if d is not None and not d[1]:
        return max(d[0], 0)
    return None


def slice_(interp, base, lo, hi, step):
    if isinstance(base, K) and all(isinstance(x, K) for x in (lo, hi, step)):
        try:
            return K(base.v[lo.v:hi.v:step.v])
        except Exception as e:
            raise py_exc(interp, e)
    if isinstance(base, (ListV, TupleV)) and \
            all(isinstance(x, K) for x in (lo, hi, step)):
        items = base.items[lo.v:hi.v:step.v]
        return ListV(items) if isinstance(base, ListV) else TupleV(items)
    if isinstance(base, T) and base.op == 'bytes' and \
            isinstance(step, K) and step.v is None:
        return bytes_slice(interp, base, lo, hi)
    t = T('slice', interp.termify(base), interp.termify(lo),
          interp.termify(hi), interp.termify(step))
    if isinstance(base, T) and interp.types.get(base) in ('str', 'bytes',
                                                           'list'):
        interp.types[t] = interp.types[base]
    return t


def bytes_slice(interp, base, lo, hi):
    src, blo, bhi = base.args
    total = bytes_len(interp, base)

    def absolute(x, default):
        if isinstance(x, K) and x.v is None:
            return default
        if isinstance(x, K) and isinstance(x.v, int) and x.v < 0:
            if total is None:
                return T('binop', '+', T('end', src), x)
            return norm_int(T('binop', '+', blo, K(max(total + x.v, 0))))
        return norm_int(T('binop', '+', blo, interp.termify(x)))
    nlo = absolute(lo, blo)
    nhi = absolute(hi, bhi)
    # clip to the known end of the base
    if isinstance(bhi, K) and bhi.v is not None and \
            interp.guide is not None:
        # lazy enumeration: symbolic bounds have a value on this image
        from .termeval import CannotEval, Raised
        for which in ('hi', 'lo'):
            x = nhi if which == 'hi' else nlo
            if isinstance(x, T):
                try:
                    xv = interp.guide(x)
                except (CannotEval, Raised):
                    continue
                if isinstance(xv, int) and not isinstance(xv, bool) and \
                        xv > bhi.v:
                    interp.effect('clip', src, x, bhi)
                    if which == 'hi':
                        nhi = bhi
                    else:
                        nlo = bhi
    if isinstance(bhi, K) and bhi.v is not None:
        if isinstance(nhi, K) and nhi.v is not None and nhi.v > bhi.v:
            interp.effect('clip', src, nhi, bhi)
            nhi = bhi
        if isinstance(nlo, K) and nlo.v > bhi.v:
            nlo = bhi
    if not isinstance(bhi, K) and nhi != bhi and not (
            isinstance(nhi, K) and nhi.v is None):
        nhi = T('call', 'min', *sorted([nhi, bhi], key=show))
        interp.types[nhi] = 'int'
    if isinstance(nhi, K) and nhi.v is not None and isinstance(nlo, K) and \
            nhi.v < nlo.v:
        nhi = nlo
    need = nhi if not (isinstance(nhi, K) and nhi.v is None) else None
    if need is not None and total is None:
        interp.effect('need', src, need)
    return T('bytes', src, nlo, nhi)


def subscript(interp, base, idx):
    if isinstance(base, K) and isinstance(idx, K):
        try:
            r = base.v[idx.v]
            return K(r)
        except Exception as e:
            raise py_exc(interp, e)
    if isinstance(base, (ListV, TupleV)):
        if isinstance(idx, K) and isinstance(idx.v, int):
            try:
                return base.items[idx.v]
            except IndexError as e:
                raise py_exc(interp, e)
        return T('sub', interp.termify(base), interp.termify(idx))
    if isinstance(base, DictV):
        if isinstance(idx, (Obj, FuncRef, ClassRef)):
            i = base.index(idx)
            if i >= 0:
                return base.vals[i]
            raise AbsRaise(T('exc', 'KeyError', interp.termify(idx)))
        if isinstance(idx, (K, T, TupleV)):
            i = base.index(idx)
            if i >= 0:
                return base.vals[i]
            if isinstance(idx, K) and not base.unknown:
                raise AbsRaise(T('exc', 'KeyError', idx))
            # unknown key: might be any of the entries or missing
            if interp.guide is not None and isinstance(idx, (T, K)) and \
                    (isinstance(idx, T) or
                     any(isinstance(k, T) for k in base.keys)):
                from .termeval import CannotEval, Raised
                try:
                    kv = interp.guide(idx) if isinstance(idx, T) else idx.v
                    # later stores win: a key stored under a term may be
                    # the same key as an earlier one
                    for k, v in reversed(list(zip(base.keys, base.vals))):
                        if isinstance(k, K) and k.v == kv and \
                                type(k.v) is type(kv):
                            interp.assumptions.append(
                                (T('cmp', '==', idx, k), True))
                            return v
                        if isinstance(k, T) and interp.guide(k) == kv:
                            interp.assumptions.append(
                                (T('cmp', '==', idx, k), True))
                            return v
                    interp.assumptions.append(
                        (T('cmp', 'in', idx, K(tuple(
                            k.v for k in base.keys if isinstance(k, K)))),
                         False))
                    raise AbsRaise(T('exc', 'KeyError', idx))
                except (CannotEval, Raised):
                    pass
            n = interp.choose(len(base.keys) + 1)
            if n == len(base.keys):
                if all(isinstance(k, K) for k in base.keys):
                    interp.assumptions.append(
                        (T('cmp', 'in', interp.termify(idx),
                           K(tuple(k.v for k in base.keys))), False))
                else:
                    interp.assumptions.append(
                        (T('haskey', interp.termify_ref(base),
                           interp.termify(idx)), False))
                raise AbsRaise(T('exc', 'KeyError', interp.termify(idx)))
            interp.assumptions.append(
                (T('cmp', '==', interp.termify(idx), base.keys[n]), True))
            if isinstance(idx, T):
                interp.known_eq[idx] = base.keys[n]
            return base.vals[n]
    if isinstance(base, T) and base.op == 'bytes':
        if isinstance(idx, K) and isinstance(idx.v, int):
            src, blo, bhi = base.args
            total = bytes_len(interp, base)
            i = idx.v
            if i < 0:
                if total is None:
                    return T('sub', base, idx)
                i = total + i
            if total is not None and not (0 <= i < total):
                raise AbsRaise(T('exc', 'IndexError', 'bytes index'))
            off = norm_int(T('binop', '+', blo, K(i)))
            if total is None:
                interp.effect('need', src,
                              norm_int(T('binop', '+', off, K(1))))
            return T('int', src, off, 1, 'B', False)
        if isinstance(idx, T):
            src, blo, bhi = base.args
            off = norm_int(T('binop', '+', blo, idx))
            return T('int', src, off, 1, 'B', False)
    if isinstance(base, Obj):
        f = interp.get_attr(base, '__getitem__', missing_ok=True)
        if f is not None:
            return interp.call(f, [idx])
    if isinstance(base, K) and isinstance(base.v, (tuple, str, bytes)):
        t = T('sub', base, interp.termify(idx))
    else:
        t = T('sub', interp.termify(base), interp.termify(idx))
    if '[]' in interp.call_raises and isinstance(idx, T):
        # a rule asked for the failure modes of indexing to be explored
        interp.may_raise('[]', t)
    return t


# ---------------------------------------------------------------- struct
_CODES = {'B': (1, False), 'b': (1, True), 'H': (2, False), 'h': (2, True),
          'I': (4, False), 'i': (4, True), 'L': (4, False), 'l': (4, True),
          'Q': (8, False), 'q': (8, True)}


def parse_struct(fmt):
    """-> (endian, [(kind, width, signed)])  kind in 'int','bytes','pad'."""
    if isinstance(fmt, bytes):
        fmt = fmt.decode()
    endian = '='
    if fmt and fmt[0] in '<>=!@':
        endian = fmt[0]
        fmt = fmt[1:]
    if endian not in '<>!':
        raise Inexact('native struct byte order')
    endian = '<' if endian == '<' else '>'
    out = []
    num = ''
    for ch in fmt:
        if ch.isdigit():
            num += ch
            continue
        if ch.isspace():
            continue
        n = int(num) if num else 1
        num = ''
        if ch == 's':
            out.append(('bytes', n, False))
        elif ch == 'x':
            out.append(('pad', n, False))
        elif ch in _CODES:
            w, s = _CODES[ch]
            for _ in range(n):
                out.append(('int', w, s))
        else:
            raise Inexact('struct code %r' % ch)
    return endian, out


def struct_unpack(interp, fmt, data):
    if not isinstance(fmt, K):
        raise Inexact('non-constant struct format')
    try:
        size = _struct.calcsize(fmt.v)
    except _struct.error as e:
        raise py_exc(interp, e)
    endian, fields = parse_struct(fmt.v)
    interp.effect('unpack', fmt.v, interp.termify(data))
    if isinstance(data, K) and isinstance(data.v, bytes):
        try:
            return K(_struct.unpack(fmt.v, data.v))
        except _struct.error as e:
            raise py_exc(interp, e)
    if not (isinstance(data, T) and data.op == 'bytes'):
        interp.inexact('struct.unpack of %s' % show(data))
        return T('call', 'struct.unpack', fmt, interp.termify(data))
    src, lo, hi = data.args
    n = bytes_len(interp, data)
    if n is None:
        if isinstance(hi, K) and hi.v is None:
            interp.inexact('struct.unpack of a slice of unknown length: %s'
                           % show(data))
        else:
            ln = norm_int(T('binop', '-', hi, lo))
            ok = _compare(interp, '==', ln, K(size))
            if not interp.truth(ok):
                raise AbsRaise(T('exc', 'struct.error',
                                 'unpack requires a buffer of %d bytes'
                                 % size))
            hi = norm_int(T('binop', '+', lo, K(size)))
    elif n != size:
        raise AbsRaise(T('exc', 'struct.error',
                         'unpack requires a buffer of %d bytes, got %d' %
                         (size, n)))
    out = []
    off = lo
    for kind, w, signed in fields:
        if kind == 'int':
            out.append(T('int', src, off, w, endian, signed))
        elif kind == 'bytes':
            out.append(T('bytes', src, off,
                         norm_int(T('binop', '+', off, K(w)))))
        off = norm_int(T('binop', '+', off, K(w)))
    return TupleV(out)


# ---------------------------------------------------------------- isinstance
def type_names(interp, t):
    """Set of dotted type names from an isinstance() second argument."""
    items = t.items if isinstance(t, TupleV) else (
        [K(x) for x in t.v] if isinstance(t, K) and isinstance(t.v, tuple)
        else [t])
    return items


def isinstance_(interp, v, t):
    types = type_names(interp, t)
    tag = None
    if isinstance(v, NTupleV):
        for ty in types:
            if ty is v.cls or (isinstance(ty, ExtRef) and ty.name in (
                    'tuple', 'object')):
                return K(True)
            if isinstance(v.cls, ClassRef) and (
                    (isinstance(ty, ClassRef) and v.cls.is_subclass(ty)) or
                    ty is v.cls.nt_base()):
                return K(True)
        return K(False)
    if isinstance(v, K):
        pyv = v.v
        res = False
        for ty in types:
            if isinstance(ty, ExtRef) and ty.name in PY_TYPES:
                if isinstance(pyv, PY_TYPES[ty.name]):
                    res = True
            elif isinstance(ty, ExtRef) and ty.name == 'object':
                res = True
            elif isinstance(ty, ExtRef) and ty.name in (
                    'collections.abc.Mapping',):
                if isinstance(pyv, dict):
                    res = True
        return K(res)
    if isinstance(v, Obj):
        if v.cls is not None:
            res = False
            for ty in types:
                if isinstance(ty, ClassRef) and v.cls.is_subclass(ty):
                    res = True
                elif isinstance(ty, ExtRef):
                    r = exc_is_subclass(v.cls, ty)
                    if r:
                        res = True
            return K(res)
        tag = v.fields.get('__type__')
        if tag is None and v.fields.get('__class_name__'):
            res = False
            for ty in types:
                r = exc_is_subclass(ExtRef(v.fields['__class_name__']), ty)
                if r:
                    res = True
                elif r is None:
                    return T('isinstance', interp.termify(v),
                             T('types', *[interp.termify(x) for x in types]))
            return K(res)
    elif isinstance(v, ListV):
        tag = 'list'
    elif isinstance(v, DictV):
        tag = 'dict'
    elif isinstance(v, TupleV):
        tag = 'tuple'
    elif isinstance(v, SetV):
        tag = 'set'
    elif isinstance(v, T):
        tag = interp.types.get(v)
        if v.op == 'group':
            # a regex group is a str or None (a group that did not take
            # part in the match): answered by the value
            tag = None
        if tag is None and v.op == 'exc':
            res = False
            for ty in types:
                r = exc_is_subclass(ExtRef(v.args[0]), ty)
                if r:
                    res = True
            return K(res)
        if tag is None and v.op == 'bytes':
            tag = 'bytes'
        if tag is None and v.op == 'int':
            tag = 'int'
    elif isinstance(v, (FuncRef, ClassRef, AbsFunc, ExtRef, ModRef)):
        tag = 'other'
    if tag == 'other' and isinstance(v, T) and not all(
            isinstance(ty, ExtRef) and ty.name in ('str', 'bytes')
            for ty in types):
        # "neither str nor bytes" is all that is known: tests against any
        # other type are answered by the value the symbol stands for
        if all(isinstance(ty, ExtRef) and ty.name in (
                'str', 'bytes') or isinstance(ty, ExtRef) and (
                    ty.name in PY_TYPES or
                    ty.name == 'collections.abc.Mapping')
               for ty in types):
            rest = [ty for ty in types if ty.name not in ('str', 'bytes')]
            return T('isinstance', interp.termify(v),
                     T('types', *[interp.termify(x) for x in rest]))
    if tag is not None:
        if isinstance(tag, K):
            tag = tag.v
        names = TYPE_TAGS.get(tag, set())
        res = False
        for ty in types:
            if isinstance(ty, ExtRef) and (ty.name in names or
                                           ty.name == 'object'):
                res = True
        return K(res)
    return T('isinstance', interp.termify(v),
             T('types', *[interp.termify(x) for x in types]))


# ---------------------------------------------------------------- attributes
def get_attr_external(interp, base, name, missing_ok=False):
    if isinstance(base, ExtRef):
        folded = fold_ext_attr(base.name, name)
        if folded is not None:
            return folded
        return ExtRef(base.name + '.' + name)
    if isinstance(base, (K, ListV, DictV, SetV, TupleV, RegexV)):
        if isinstance(base, K) and name == '__traceback__':
            return K(None)
        if isinstance(base, K) and hasattr(base.v, name) and \
                not callable(getattr(base.v, name)) and \
                isinstance(getattr(base.v, name), (int, str, bytes, float,
                                                   tuple, type(None))):
            # a data attribute of a constant (uuid.UUID(...).bytes_le)
            return K(getattr(base.v, name))
        return Method(base, name)
    if isinstance(base, T):
        if base.op == 'exc':
            if name == 'args':
                return TupleV(list(base.args[1:]))
            if name == '__traceback__':
                # an exception object built by this very call has not been
                # raised yet: no traceback
                return K(None)
        if base.op == 'bytes' and (name in (
                'startswith', 'decode', 'index', 'find', 'endswith', 'hex')
                or name in PURE_STR_METHODS):
            return Method(base, name)
        attrs = interp.attrs.get(base)
        if attrs is not None and name in attrs:
            return attrs[name]
        if interp.types.get(base) in ('str', 'bytes') or base.op in (
                'mcall',):
            return Method(base, name)
        if name in PURE_STR_METHODS and interp.types.get(base) is None \
                and base.op in ('item', 'sub', 'slice', 'group', 'elem',
                                'fmt', 'format', 'binop'):
            return Method(base, name)
        return T('attr', base, name)
    if isinstance(base, Method):
        return T('attr', interp.termify(base.base), base.name, name)
    if isinstance(base, AbsFunc):
        if missing_ok:
            return None
        return T('attr', interp.termify(base), name)
    if missing_ok:
        return None
    raise Inexact('attribute %s of %s' % (name, type(base).__name__))


_FOLD_MODULES = ('re', 'errno', 'os', 'stat', 'socket', 'io', 'signal',
                 'select', 'fcntl', 'mmap', 'struct', 'math')


def fold_ext_attr(mod, name):
    """Integer/str constants of a few stdlib modules are folded (these are
    not part of the analysed repository)."""
    if mod == 'functools' and name == 'WRAPPER_ASSIGNMENTS':
        import functools
        return K(tuple(functools.WRAPPER_ASSIGNMENTS))
    if mod == 'sys' and name in ('maxsize', 'maxunicode', 'byteorder'):
        import sys
        return K(getattr(sys, name))
    if mod == 'string':
        import string
        v = getattr(string, name, None)
        if isinstance(v, str):
            return K(v)
    if mod == 'pyparsing' and name in ('printables', 'alphas', 'nums',
                                       'alphanums', 'hexnums', 'alphas8bit',
                                       'punc8bit'):
        try:
            import pyparsing
        except ImportError:
            return None
        v = getattr(pyparsing, name, None)
        if isinstance(v, str):
            return K(v)
    if mod in _FOLD_MODULES:
        import importlib
        try:
            m = importlib.import_module(mod)
        except ImportError:
            return None
        if hasattr(m, name):
            v = getattr(m, name)
            if isinstance(v, int) and not isinstance(v, bool) and (
                    mod != 'os' or name.startswith('SEEK_')):
                return K(int(v))
    return None


# ---------------------------------------------------------------- calls
class SuperV:
    def __init__(self, cls, obj):
        self.cls = cls
        self.obj = obj


def make_super(interp, fr):
    f = fr.func
    self_v = None
    if f is not None and getattr(f.node, 'args', None) and f.node.args.args:
        self_v = fr.env.get(f.node.args.args[0].arg)
    if f is None or f.cls is None or self_v is None:
        raise Inexact('super() outside a method')
    return SuperV(f.cls, self_v)


def super_attr(interp, sup, name):
    obj = sup.obj
    start = obj.cls if isinstance(obj, Obj) and obj.cls is not None else (
        obj if isinstance(obj, ClassRef) else sup.cls)
    mro = start.mro()
    after = mro[mro.index(sup.cls) + 1:] if sup.cls in mro else []
    for c in after:
        if name in c.attrs:
            return interp.bind_member(c.attrs[name], obj, start)
    # external base (Exception, abc.ABC, fixtures.Fixture ...)
    return AbsFunc('super().' + name, lambda i, a, k: _super_ext(
        i, sup, name, a, k))


def _super_ext(interp, sup, name, args, kwargs):
    if name == '__init__' and isinstance(sup.obj, Obj):
        sup.obj.fields['args'] = TupleV(args)
        return K(None)
    return interp.opaque_call('super().' + name, None, args, kwargs)


def call_external(interp, f, args, kwargs):
    if isinstance(f, Method):
        return call_method(interp, f.base, f.name, args, kwargs)
    if isinstance(f, ExtRef):
        m = BUILTINS.get(f.name)
        if m is not None:
            r = m(interp, args, kwargs)
            if r is not NotImplemented:
                return r
        from .absint import BUILTIN_EXC
        if f.name in BUILTIN_EXC:
            return T('exc', f.name, *[interp.termify(a) for a in args])
        owner, _, meth = f.name.partition('.')
        if owner in ('str', 'bytes', 'list', 'dict', 'set', 'tuple',
                     'frozenset') and meth and '.' not in meth and args \
                and (owner, meth) not in (('dict', 'fromkeys'),
                                          ('str', 'maketrans'),
                                          ('bytes', 'maketrans'),
                                          ('bytes', 'fromhex'),
                                          ('int', 'from_bytes')):
            # the method of a builtin type called through the type:
            # str.strip(x) is x.strip() for an x of that type
            tag = (interp.types.get(args[0]) or
                   interp.path_types.get(args[0])) if isinstance(
                       args[0], T) else None
            if tag is None and isinstance(args[0], T) and owner in (
                    'str', 'bytes') and args[0].op in ('elem', 'item', 'sub',
                                                       'sym'):
                # str.strip(x) only works on a str: on the path where the
                # call returns, x is one
                tag = owner
                interp.path_types[args[0]] = owner
            ok = {'str': isinstance(args[0], K) and isinstance(
                      args[0].v, str) or tag == 'str',
                  'bytes': isinstance(args[0], K) and isinstance(
                      args[0].v, bytes) or tag == 'bytes' or (
                          isinstance(args[0], T) and args[0].op == 'bytes'),
                  'list': isinstance(args[0], ListV),
                  'dict': isinstance(args[0], DictV),
                  'set': isinstance(args[0], SetV),
                  'frozenset': isinstance(args[0], SetV),
                  'tuple': isinstance(args[0], TupleV) or (
                      isinstance(args[0], K) and isinstance(args[0].v,
                                                            tuple))}[owner]
            if ok:
                return interp.call(interp.get_attr(args[0], meth),
                                   list(args[1:]), kwargs)
        return interp.opaque_call(f.name, f, args, kwargs)
    if isinstance(f, T):
        if f.op == 'attr' and len(f.args) == 2:
            if interp.on_method is not None:
                r = interp.on_method(f.args[0], f.args[1], args, kwargs)
                if r is not NotImplemented:
                    return r
            if f.args[1] in interp.pure_methods or (
                    isinstance(f.args[0], T) and (
                        interp.types.get(f.args[0]) or
                        interp.path_types.get(f.args[0])) in ('str',
                                                              'bytes')):
                return method_term(interp, f.args[0], f.args[1], args,
                                   kwargs)
            return interp.opaque_call('.' + f.args[1], f,
                                      [f.args[0]] + list(args), kwargs)
        return interp.opaque_call(show(f), f, args, kwargs)
    if isinstance(f, K) and f.v is None:
        raise AbsRaise(T('exc', 'TypeError', 'NoneType not callable'))
    raise Inexact('call of %s' % type(f).__name__)


def _all_const(args):
    """Constants or containers built only from constants."""
    def const(v):
        if isinstance(v, K):
            return True
        if isinstance(v, (ListV, TupleV, SetV)):
            return all(const(x) for x in v.items)
        if isinstance(v, DictV):
            return not v.unknown and all(const(x) for x in v.keys) and \
                all(const(x) for x in v.vals)
        return False
    return all(const(a) for a in args)


def _all_k(args, kwargs=None):
    return all(isinstance(a, K) for a in args) and \
        all(isinstance(v, K) for v in (kwargs or {}).values())


def call_method(interp, base, name, args, kwargs):
    # constants: fold with the host implementation
    if isinstance(base, K):
        if _all_k(args, kwargs):
            try:
                meth = getattr(base.v, name)
            except AttributeError as e:
                raise py_exc(interp, e)
            try:
                r = meth(*[a.v for a in args],
                         **{k: v.v for k, v in kwargs.items()})
            except Exception as e:
                raise py_exc(interp, e)
            return from_python(r)
        if isinstance(base.v, (str, bytes)) and name in (
                'translate', 'join', 'startswith', 'endswith', 'format',
                'strip', 'lstrip', 'rstrip', 'replace', 'split') and \
                not kwargs and _all_const(args):
            # containers of constants as arguments (translate tables,
            # tuples of prefixes): fold with the host implementation
            from .world import to_python
            try:
                r = getattr(base.v, name)(*[to_python(a) for a in args])
            except Exception as e:
                raise py_exc(interp, e)
            return from_python(r)
        if name == 'join' and len(args) == 1:
            items = None
            if isinstance(args[0], IterV) or (
                    isinstance(args[0], Obj) and args[0].cls is not None and
                    args[0].cls.lookup('__iter__')[0] is not None):
                # an iterator (of a repo class): consumed by the join
                args = [ListV(interp.iterate(args[0]))]
            if isinstance(args[0], (ListV, TupleV)):
                items = args[0].items
            if items is not None and all(isinstance(x, K) for x in items):
                try:
                    return K(base.v.join(x.v for x in items))
                except Exception as e:
                    raise py_exc(interp, e)
        if name == 'format':
            t = T('format', base, *[interp.termify(a) for a in args])
            interp.types[t] = 'str'
            return t
        return method_term(interp, base, name, args, kwargs)
    if name == '__contains__' and len(args) == 1 and isinstance(
            base, (ListV, DictV, SetV, TupleV, K)):
        return _compare(interp, 'in', args[0], base)
    if isinstance(base, ListV):
        return list_method(interp, base, name, args, kwargs)
    if isinstance(base, DictV):
        return dict_method(interp, base, name, args, kwargs)
    if isinstance(base, SetV):
        if name == 'add' and len(args) == 1:
            base.add(args[0])
            interp.effect('setadd', interp.termify_ref(base),
                          interp.termify(args[0]))
            return K(None)
        if name in ('discard', 'remove') and len(args) == 1:
            base.items = [x for x in base.items if not same(x, args[0])]
            interp.effect('setdel', interp.termify_ref(base),
                          interp.termify(args[0]))
            return K(None)
        if name == 'clear':
            base.items = []
            interp.effect('setclear', interp.termify_ref(base))
            return K(None)
        if name == 'copy':
            return SetV(base.items)
        if name == 'update':
            for a_ in args:
                for x in interp.iterate(a_):
                    base.add(x)
            return K(None)
        if name in ('union', 'intersection', 'difference',
                    'symmetric_difference') and all(
                isinstance(a_, (SetV, ListV, TupleV, K)) for a_ in args):
            cur = list(base.items)
            for a_ in args:
                other = interp.iterate(a_)

                def has(seq, x):
                    return any(interp.truth(_compare(interp, '==', x, y))
                               for y in seq)
                if name == 'union':
                    cur = cur + [x for x in other if not has(cur, x)]
                elif name == 'intersection':
                    cur = [x for x in cur if has(other, x)]
                elif name == 'difference':
                    cur = [x for x in cur if not has(other, x)]
                else:
                    cur = [x for x in cur if not has(other, x)] + \
                        [x for x in other if not has(cur, x)]
            return SetV(cur)
        if name in ('pop', 'difference_update', 'intersection_update',
                    'symmetric_difference_update', '__ior__', '__iand__',
                    '__isub__', '__ixor__'):
            raise Inexact('set.%s' % name)
    if isinstance(base, TupleV):
        if name == 'index' or name == 'count':
            pass
    if isinstance(base, RegexV):
        return interp.opaque_call('re.Pattern.' + name, base,
                                  [base] + list(args), kwargs)
    if isinstance(base, T) and base.op == 'bytes':
        if name == 'startswith' and len(args) == 1 and \
                isinstance(args[0], K) and isinstance(args[0].v, bytes):
            src, lo, hi = base.args
            n = len(args[0].v)
            end = norm_int(T('binop', '+', lo, K(n)))
            total = bytes_len(interp, base)
            if total is not None and total < n:
                return K(False)
            if total is None:
                return method_term(interp, base, name, args, kwargs)
            return T('cmp', '==', T('bytes', src, lo, end), args[0])
    return method_term(interp, base, name, args, kwargs)


def method_term(interp, base, name, args, kwargs):
    tb = interp.termify(base)
    targs = tuple(interp.termify(a) for a in args) + tuple(
        T('kw', k, interp.termify(v)) for k, v in sorted(kwargs.items()))
    r = interp.on_method(tb, name, args, kwargs) \
        if interp.on_method is not None else NotImplemented
    if r is not NotImplemented:
        return r
    t = T('mcall', tb, name, *targs)
    if name in interp.pure_methods:
        if name in interp.method_raises:
            interp.call_raises['.' + name] = interp.method_raises[name]
            interp.may_raise('.' + name, t)
        return t
    bt = (interp.types.get(tb) or interp.path_types.get(tb)) \
        if isinstance(tb, T) else (
        'str' if isinstance(tb, K) and isinstance(tb.v, str) else
        'bytes' if isinstance(tb, K) and isinstance(tb.v, bytes) else None)
    if isinstance(tb, T) and tb.op == 'bytes':
        bt = 'bytes'
    if bt is None and name in PURE_STR_METHODS and isinstance(tb, T) and \
            tb.op in ('item', 'sub', 'slice', 'group', 'elem', 'fmt',
                      'format', 'binop', 'mcall'):
        if name in interp.method_raises:
            saved = interp.call_raises.get('.' + name)
            interp.call_raises['.' + name] = interp.method_raises[name]
            try:
                interp.may_raise('.' + name, t)
            finally:
                if saved is None:
                    interp.call_raises.pop('.' + name, None)
                else:
                    interp.call_raises['.' + name] = saved
        return t
    if bt in ('str', 'bytes'):
        if name in STR_RET and not (bt == 'str' and name == 'decode'):
            interp.types[t] = 'str' if (bt == 'str' or name in (
                'decode', 'hex')) else 'bytes'
        elif name == 'encode' and bt == 'str':
            interp.types[t] = 'bytes'
        elif name in ('startswith', 'endswith', 'isprintable', 'isspace',
                      'isdigit', 'isascii'):
            interp.types[t] = 'bool'
        elif name in ('split', 'rsplit', 'splitlines', 'partition'):
            interp.types[t] = 'list'
            if interp.guide is not None and name != 'partition':
                # following one input: the list is built now, so that the
                # code may change it in place afterwards
                from .termeval import CannotEval, Raised
                try:
                    got = interp.guide(t)
                    if isinstance(got, list):
                        return from_python(got)
                except (CannotEval, Raised):
                    pass
        elif name in ('count', 'find', 'index', 'rfind'):
            interp.types[t] = 'int'
        if name in interp.method_raises:
            interp.effect('mcall', name, tb, targs)
            saved = interp.call_raises.get('.' + name)
            interp.call_raises['.' + name] = interp.method_raises[name]
            try:
                interp.may_raise('.' + name, t)
            finally:
                if saved is None:
                    interp.call_raises.pop('.' + name, None)
                else:
                    interp.call_raises['.' + name] = saved
        return t
    if isinstance(tb, T) and name in PURE_SET_METHODS and (
            tb.op == 'set' or tb.op == 'call' and tb.args[0] in (
                'set', 'frozenset')):
        # a set built in place: its algebra is pure
        return t
    if name in CONTAINER_MUTATORS and isinstance(tb, T) and (
            bt in ('list', 'dict', 'set') or tb.op in (
                'mcall', 'slice', 'binop', 'list', 'sorted', 'dictget')):
        # the receiver is a value kept as a term (a list some pure call
        # returned): changing it in place is not something a term can follow
        raise Inexact('%s() on a %s kept as a term (%s)' % (
            name, bt or 'value', show(tb)[:60]))
    interp.effect('mcall', name, tb, targs)
    interp.fresh_n += 1
    return T('mret', tb, name, interp.fresh_n, *targs)


CONTAINER_MUTATORS = ('pop', 'append', 'extend', 'insert', 'remove', 'clear',
                      'sort', 'reverse', 'popitem', 'setdefault', 'update',
                      'add', 'discard', '__setitem__', '__delitem__',
                      '__iadd__', '__imul__')


PURE_SET_METHODS = ('intersection', 'union', 'difference', 'issubset',
                    'issuperset', 'isdisjoint', 'symmetric_difference',
                    'copy')


def from_python(r):
    if isinstance(r, list):
        return ListV([from_python(x) for x in r])
    if isinstance(r, tuple):
        if all(isinstance(x, (int, str, bytes, float, bool, type(None)))
               for x in r):
            return K(r)
        return TupleV([from_python(x) for x in r])
    if isinstance(r, (int, str, bytes, float, bool, type(None), range)):
        return K(r)
    if isinstance(r, dict):
        return DictV([(from_python(k), from_python(v)) for k, v in r.items()])
    raise Inexact('host value %r' % type(r).__name__)


def b_deque(interp, args, kwargs):
    """collections.deque([iterable]) without maxlen: a list that also grows
    and shrinks at the left end."""
    maxlen = args[1] if len(args) > 1 else kwargs.get('maxlen')
    if maxlen is not None and not (isinstance(maxlen, K) and
                                   maxlen.v is None):
        raise Inexact('deque with maxlen')
    if args and isinstance(args[0], T):
        return NotImplemented
    d = ListV(list(interp.iterate(args[0])) if args else [])
    d.is_deque = True
    return d


def list_method(interp, base, name, args, kwargs):
    if getattr(base, 'is_deque', False):
        if name == 'appendleft' and len(args) == 1:
            base.items.insert(0, args[0])
            return K(None)
        if name == 'popleft' and not args:
            if not base.items:
                raise AbsRaise(T('exc', 'IndexError', 'pop from an empty '
                                 'deque'))
            return base.items.pop(0)
        if name == 'extendleft' and len(args) == 1:
            for x in interp.iterate(args[0]):
                base.items.insert(0, x)
            return K(None)
        if name == 'rotate':
            n = args[0].v if args and isinstance(args[0], K) else None
            if n is None and args:
                raise Inexact('deque.rotate by a symbolic amount')
            n = 1 if n is None else n
            if base.items:
                k = n % len(base.items)
                base.items[:] = base.items[-k:] + base.items[:-k] if k \
                    else base.items
            return K(None)
    if name == 'append' and len(args) == 1:
        base.items.append(args[0])
        interp.effect('append', interp.termify_ref(base),
                      interp.termify(args[0]))
        return K(None)
    if name == 'extend' and len(args) == 1:
        base.items.extend(interp.iterate(args[0]))
        return K(None)
    if name == 'insert' and len(args) == 2 and isinstance(args[0], K):
        base.items.insert(args[0].v, args[1])
        return K(None)
    if name == 'pop':
        if not base.items:
            raise AbsRaise(T('exc', 'IndexError', 'pop from empty list'))
        i = args[0].v if args and isinstance(args[0], K) else -1
        try:
            return base.items.pop(i)
        except IndexError as e:
            raise py_exc(interp, e)
    if name == 'copy':
        return ListV(base.items)
    if name == 'reverse' and not args:
        base.items.reverse()
        return K(None)
    if name == 'clear' and not args:
        base.items[:] = []
        return K(None)
    if name == 'remove' and len(args) == 1:
        for i, x in enumerate(base.items):
            if x is args[0] or same(x, args[0]):
                del base.items[i]
                interp.effect('listdel', interp.termify_ref(base),
                              interp.termify(args[0]))
                return K(None)
        raise AbsRaise(T('exc', 'ValueError', 'list.remove(x): x not in list'))
    if name == 'count' and len(args) == 1:
        return K(sum(1 for x in base.items if same(x, args[0])))
    if name == 'index' and len(args) == 1:
        for i, x in enumerate(base.items):
            if same(x, args[0]):
                return K(i)
        raise AbsRaise(T('exc', 'ValueError', 'not in list'))
    if not hasattr(list, name):
        raise AbsRaise(T('exc', 'AttributeError',
                         "'list' object has no attribute %r" % name))
    raise Inexact('list.%s' % name)


def dict_method(interp, base, name, args, kwargs):
    if name == 'get' and 1 <= len(args) <= 2:
        default = args[1] if len(args) == 2 else K(None)
        i = base.index(args[0])
        if i >= 0:
            return base.vals[i]
        if isinstance(args[0], K) and not base.unknown:
            return default
        if isinstance(args[0], (T, K)) and (base.unknown or isinstance(
                args[0], T)) and all(isinstance(k, (K, T))
                                     for k in base.keys):
            # fork per key like a subscript; the missing-key path yields
            # the default
            try:
                return subscript(interp, base, args[0])
            except AbsRaise as r:
                if isinstance(r.exc, T) and r.exc.op == 'exc' and \
                        r.exc.args[0] == 'KeyError':
                    return default
                raise
        return T('dictget', interp.termify(base), interp.termify(args[0]),
                 interp.termify(default))
    if name == 'items':
        return ListV([TupleV([k, v]) for k, v in zip(base.keys, base.vals)])
    if name == 'keys':
        return ListV(base.keys)
    if name == 'values':
        return ListV(base.vals)
    if name == 'copy':
        d = DictV(zip(base.keys, base.vals))
        d.unknown = base.unknown
        return d
    if name == 'pop' and args:
        i = base.index(args[0])
        if i >= 0:
            v = base.vals[i]
            base.delete(args[0])
            interp.effect('delitem', interp.termify_ref(base),
                          interp.termify(args[0]))
            return v
        if len(args) == 2:
            return args[1]
        raise AbsRaise(T('exc', 'KeyError', interp.termify(args[0])))
    if name == 'setdefault' and len(args) == 2:
        i = base.index(args[0])
        if i >= 0:
            return base.vals[i]
        base.set(args[0], args[1])
        return args[1]
    if name == 'update' and len(args) == 1 and isinstance(args[0], DictV):
        for k, v in zip(args[0].keys, args[0].vals):
            base.set(k, v)
        return K(None)
    if name == 'update' and len(args) == 1 and isinstance(
            args[0], (ListV, TupleV)) and all(
                isinstance(p, (TupleV, ListV)) and len(p.items) == 2
                for p in args[0].items):
        for p in args[0].items:
            base.set(p.items[0], p.items[1])
        return K(None)
    if name == 'update' and not args and kwargs:
        for k, v in kwargs.items():
            base.set(K(k), v)
        return K(None)
    if name == 'clear':
        base.keys, base.vals = [], []
        return K(None)
    raise Inexact('dict.%s' % name)


# ---------------------------------------------------------------- builtins
def b_id(interp, args, kwargs):
    """id() of a heap object: one term per object, equal only to itself."""
    v, = args
    if isinstance(v, (Obj, ListV, DictV, SetV, FuncRef, ClassRef, AbsFunc)):
        table = interp.__dict__.setdefault('_ids', {})
        keep = interp.__dict__.setdefault('_id_keep', [])
        n = table.get(id(v))
        if n is None:
            n = table[id(v)] = len(table) + 1
            keep.append(v)          # keep alive: python ids are reused
        t = T('id', n)
        interp.types[t] = 'int'
        interp.distinct.add(t)
        return t
    interp.fresh_n += 1
    return T('ret', 'id', interp.fresh_n, interp.termify(v))


def b_len(interp, args, kwargs):
    v, = args
    if isinstance(v, K):
        try:
            return K(len(v.v))
        except Exception as e:
            raise py_exc(interp, e)
    if isinstance(v, (ListV, TupleV, SetV)):
        return K(len(v.items))
    if isinstance(v, DictV) and not v.unknown:
        return K(len(v.keys))
    if isinstance(v, T) and v.op == 'bytes':
        n = bytes_len(interp, v)
        if n is not None:
            return K(n)
        src, lo, hi = v.args
        if not (isinstance(hi, K) and hi.v is None):
            t = norm_int(T('binop', '-', hi, lo))
            if isinstance(t, T):
                interp.types[t] = 'int'
            return t
    if isinstance(v, T) and v in interp.lens:
        return K(interp.lens[v])
    if isinstance(v, Obj):
        f = interp.get_attr(v, '__len__', missing_ok=True)
        if f is not None:
            return interp.call(f, [])
    return T('call', 'len', interp.termify(v))


def b_isinstance(interp, args, kwargs):
    return isinstance_(interp, args[0], args[1])


def b_slice(interp, args, kwargs):
    """slice(a, b[, c]) with constant bounds: a constant slice object."""
    if kwargs or not 1 <= len(args) <= 3 or not all(
            isinstance(a_, K) for a_ in args):
        return NotImplemented
    try:
        return K(slice(*[a_.v for a_ in args]))
    except Exception as e:
        raise py_exc(interp, e)


def b_issubclass(interp, args, kwargs):
    if len(args) != 2:
        return NotImplemented
    c, info = args
    if isinstance(c, K):
        raise AbsRaise(T('exc', 'TypeError', 'issubclass() arg 1'))
    infos = list(info.items) if isinstance(info, TupleV) else [info]
    if not isinstance(c, (ClassRef, ExtRef)) or not all(
            isinstance(i, (ClassRef, ExtRef)) for i in infos):
        return NotImplemented
    unknown = False
    for i in infos:
        r = exc_is_subclass(c, i) if c is not i else True
        if r is None and isinstance(c, ClassRef) and isinstance(i, ClassRef):
            r = c.is_subclass(i)
        if r:
            return K(True)
        unknown = unknown or r is None
    if unknown:
        return NotImplemented
    return K(False)


def b_str(interp, args, kwargs):
    if not args:
        return K('')
    v = args[0]
    if isinstance(v, K) and len(args) == 1:
        return K(str(v.v))
    if isinstance(v, Obj) and v.cls is not None:
        m, _o = v.cls.lookup('__str__')
        if isinstance(m, FuncRef):
            return interp.call(m.bind(v), [])
    if isinstance(v, Obj) and '__str__' in v.fields:
        return interp.call(v.fields['__str__'], [])
    if isinstance(v, T) and interp.types.get(v) == 'str' and len(args) == 1:
        return v
    t = T('call', 'str', *[interp.termify(a) for a in args])
    interp.types[t] = 'str'
    interp.may_raise('str', t)
    return t


def _num(name, conv, tag):
    def f(interp, args, kwargs):
        if _all_k(args, kwargs) and args:
            try:
                return K(conv(*[a.v for a in args]))
            except Exception as e:
                raise py_exc(interp, e)
        if not args:
            return K(conv())
        v = args[0]
        if len(args) == 1 and isinstance(v, T) and (
                interp.types.get(v) == tag or
                (tag == 'int' and v.op == 'int')):
            return v
        t = T('call', name, *[interp.termify(a) for a in args])
        interp.types[t] = tag
        interp.may_raise(name, t)
        return t
    return f


def b_bool(interp, args, kwargs):
    if not args:
        return K(False)
    b = interp.truth_known(args[0])
    if b is not None:
        return K(b)
    t = interp.termify(args[0])
    if isinstance(t, T) and t.op in ('cmp', 'not', 'isinstance'):
        return t
    return T('call', 'bool', t)


def b_minmax(name):
    fn = min if name == 'min' else max

    def f(interp, args, kwargs):
        if kwargs:
            return NotImplemented
        items = args
        if len(args) == 1:
            items = interp.iterate(args[0])
        if all(isinstance(a, K) for a in items) and items:
            try:
                return K(fn(a.v for a in items))
            except Exception as e:
                raise py_exc(interp, e)
        t = T('call', name, *sorted((interp.termify(a) for a in items),
                                   key=show))
        return t
    return f


def b_range(interp, args, kwargs):
    if _all_k(args):
        try:
            return K(range(*[a.v for a in args]))
        except Exception as e:
            raise py_exc(interp, e)
    a = [interp.termify(x) for x in args]
    if len(a) == 1:
        a = [K(0)] + a
    return T('range', *a)


def b_enumerate(interp, args, kwargs):
    items = interp.iterate(args[0])
    start = args[1].v if len(args) > 1 else kwargs.get('start', K(0)).v
    return IterV([TupleV([K(start + i), x]) for i, x in enumerate(items)])


def b_reversed(interp, args, kwargs):
    return IterV(list(reversed(interp.iterate(args[0]))))


class EndlessV:
    """itertools.repeat(x) / count(n) / cycle(xs): an iterator without end;
    only meaningful next to a finite one (zip, islice)."""

    def __init__(self, kind, payload):
        self.kind = kind
        self.payload = payload

    def take(self, interp, n):
        if self.kind == 'repeat':
            return [self.payload] * n
        if self.kind == 'count':
            start, step = self.payload
            return [binop(interp, ast.Add(), start,
                          binop(interp, ast.Mult(), step, K(i)))
                    if i else start for i in range(n)]
        items = self.payload
        if not items:
            return []
        return [items[i % len(items)] for i in range(n)]


def b_zip(interp, args, kwargs):
    if kwargs and set(kwargs) != {'strict'}:
        return NotImplemented
    finite = [interp.iterate(a) for a in args
              if not isinstance(a, EndlessV)]
    if args and not finite:
        raise Inexact('zip over endless iterators only')
    n = min([len(x) for x in finite] or [0])
    seqs = [a.take(interp, n) if isinstance(a, EndlessV)
            else interp.iterate(a) for a in args]
    return IterV([TupleV(list(t)) for t in zip(*seqs)])


def b_it_repeat(interp, args, kwargs):
    times = args[1] if len(args) > 1 else kwargs.get('times')
    if times is None:
        return EndlessV('repeat', args[0])
    if not (isinstance(times, K) and isinstance(times.v, int)):
        return NotImplemented
    return ListV([args[0]] * max(0, times.v))


def b_it_count(interp, args, kwargs):
    start = args[0] if args else kwargs.get('start', K(0))
    step = args[1] if len(args) > 1 else kwargs.get('step', K(1))
    return EndlessV('count', (start, step))


def b_it_cycle(interp, args, kwargs):
    return EndlessV('cycle', list(interp.iterate(args[0])))


def b_it_chain(interp, args, kwargs):
    out = []
    for a in args:
        if isinstance(a, T):
            return NotImplemented
        out.extend(interp.iterate(a))
    return ListV(out)


def b_it_chain_from(interp, args, kwargs):
    if len(args) != 1 or isinstance(args[0], T):
        return NotImplemented
    out = []
    for a in interp.iterate(args[0]):
        if isinstance(a, T):
            return NotImplemented
        out.extend(interp.iterate(a))
    return ListV(out)


def b_it_islice(interp, args, kwargs):
    if len(args) < 2 or not all(isinstance(x, K) for x in args[1:]):
        return NotImplemented
    bounds = [x.v for x in args[1:]]
    sl = slice(*bounds)
    if isinstance(args[0], EndlessV):
        if sl.stop is None:
            raise Inexact('islice without an end over an endless iterator')
        items = args[0].take(interp, sl.stop)
    elif isinstance(args[0], T):
        return NotImplemented
    else:
        items = interp.iterate(args[0])
    return ListV(items[sl])


def b_it_starmap(interp, args, kwargs):
    if len(args) != 2 or isinstance(args[1], T):
        return NotImplemented
    return IterV([interp.call(args[0], list(interp.iterate(x)))
                  for x in interp.iterate(args[1])])


def _filtering(keep_true):
    def f(interp, args, kwargs):
        if len(args) != 2 or isinstance(args[1], T):
            return NotImplemented
        pred = args[0]
        out = []
        for x in interp.iterate(args[1]):
            r = x if isinstance(pred, K) and pred.v is None else \
                interp.call(pred, [x])
            if bool(interp.truth(r)) == keep_true:
                out.append(x)
        return IterV(out)
    return f


def _while(take):
    def f(interp, args, kwargs):
        if len(args) != 2 or isinstance(args[1], T):
            return NotImplemented
        src_step = _lazy_source(interp, args[1])
        if src_step is not None:
            if not take:
                raise Inexact('dropwhile over an endless iterator')
            from .absint import LazyV, _StopLazy
            pred = args[0]

            def step(i2):
                v = src_step(i2)
                if not i2.truth(i2.call(pred, [v])):
                    raise _StopLazy()
                return v
            return LazyV(step)
        items = interp.iterate(args[1])
        i = 0
        while i < len(items) and interp.truth(interp.call(args[0],
                                                          [items[i]])):
            i += 1
        return ListV(items[:i] if take else items[i:])
    return f


def b_it_accumulate(interp, args, kwargs):
    if not args or isinstance(args[0], T):
        return NotImplemented
    func = args[1] if len(args) > 1 else kwargs.get('func')
    items = list(interp.iterate(args[0]))
    if 'initial' in kwargs and not (isinstance(kwargs['initial'], K) and
                                    kwargs['initial'].v is None):
        items = [kwargs['initial']] + items
    out = []
    for x in items:
        if not out:
            out.append(x)
        elif func is None or (isinstance(func, K) and func.v is None):
            out.append(binop(interp, ast.Add(), out[-1], x))
        else:
            out.append(interp.call(func, [out[-1], x]))
    return ListV(out)


def b_it_zip_longest(interp, args, kwargs):
    if any(isinstance(a, (T, EndlessV)) for a in args):
        return NotImplemented
    fill = kwargs.get('fillvalue', K(None))
    seqs = [interp.iterate(a) for a in args]
    n = max([len(x) for x in seqs] or [0])
    return ListV([TupleV([s_[i] if i < len(s_) else fill for s_ in seqs])
                  for i in range(n)])


def b_dict(interp, args, kwargs):
    d = DictV()
    if args:
        src = args[0]
        if isinstance(src, DictV):
            for k, v in zip(src.keys, src.vals):
                d.set(k, v)
            d.unknown = src.unknown
        elif isinstance(src, T):
            if kwargs:
                t = T('call', 'dict', src, *[
                    T('kw', k, interp.termify(v))
                    for k, v in sorted(kwargs.items())])
                interp.types[t] = 'dict'
                return t
            return T('call', 'dict', src)
        else:
            for pair in interp.iterate(src):
                k, v = interp.unpack(pair, 2)
                d.set(k, v)
                if not isinstance(k, K):
                    d.unknown = True
    for k, v in kwargs.items():
        d.set(K(k), v)
    return d


def b_list(interp, args, kwargs):
    if not args:
        return ListV()
    if isinstance(args[0], T):
        n = interp.lens.get(args[0])
        if n is None:
            return T('call', 'list', args[0])
    return ListV(interp.iterate(args[0]))


def b_tuple(interp, args, kwargs):
    if not args:
        return K(())
    if isinstance(args[0], T):
        return T('call', 'tuple', args[0])
    items = interp.iterate(args[0])
    if all(isinstance(x, K) for x in items):
        return K(tuple(x.v for x in items))
    return TupleV(items)


def b_set(interp, args, kwargs):
    if not args:
        return SetV()
    if isinstance(args[0], T):
        return T('call', 'set', args[0])
    return SetV(interp.iterate(args[0]))


def b_sorted(interp, args, kwargs):
    items = interp.iterate(args[0])
    if all(isinstance(x, K) for x in items) and not kwargs:
        try:
            return ListV([K(x) for x in sorted(i.v for i in items)])
        except Exception as e:
            raise py_exc(interp, e)
    if all(isinstance(x, K) for x in items) and \
            set(kwargs) <= {'key', 'reverse'}:
        # sorted(constants, key=f, reverse=c): keys computed by calling f
        rev = kwargs.get('reverse', K(False))
        keyf = kwargs.get('key')
        if isinstance(rev, K):
            try:
                ks = [interp.call(keyf, [x]) if keyf is not None and not (
                    isinstance(keyf, K) and keyf.v is None) else x
                    for x in items]
                if all(isinstance(k, K) for k in ks):
                    order = sorted(range(len(items)), key=lambda i: ks[i].v,
                                   reverse=bool(rev.v))
                    return ListV([items[i] for i in order])
            except AbsRaise:
                raise
            except Exception as e:
                raise py_exc(interp, e)
    return T('call', 'sorted', interp.termify(args[0]))


def b_all(interp, args, kwargs):
    if isinstance(args[0], T):
        return T('call', 'all', args[0])
    for x in interp.iterate(args[0]):
        if not interp.truth(x):
            return K(False)
    return K(True)


def b_any(interp, args, kwargs):
    if isinstance(args[0], T):
        return T('call', 'any', args[0])
    for x in interp.iterate(args[0]):
        if interp.truth(x):
            return K(True)
    return K(False)


def b_getattr(interp, args, kwargs):
    obj, name = args[0], args[1]
    if not isinstance(name, K):
        raise Inexact('getattr with non-constant name')
    if len(args) == 3:
        try:
            r = interp.get_attr(obj, name.v, missing_ok=True)
        except AbsRaise:
            return args[2]
        if r is None:
            return args[2]
        if isinstance(r, T) and r.op == 'attr' and not isinstance(obj, Obj):
            # unknown external attribute: may be missing
            return T('getattr', interp.termify(obj), name, interp.termify(
                args[2]))
        return r
    return interp.get_attr(obj, name.v)


def b_hasattr(interp, args, kwargs):
    obj, name = args
    if not isinstance(name, K):
        raise Inexact('hasattr with non-constant name')
    if isinstance(obj, Obj):
        if '__hasattr__' in obj.fields:
            spec = obj.fields['__hasattr__']
            if name.v in spec:
                return K(spec[name.v])
        try:
            r = interp.get_attr(obj, name.v, missing_ok=True)
        except AbsRaise:
            return K(False)
        if r is not None and not (isinstance(r, T) and r.op == 'attr'):
            return K(True)
        if obj.cls is not None and not obj.cls.ext_bases():
            return K(False)
    if isinstance(obj, AbsFunc):
        return K(False)
    if isinstance(obj, K):
        return K(hasattr(obj.v, name.v))
    if isinstance(obj, T) and interp.types.get(obj) == 'str':
        return K(hasattr('', name.v))
    return T('call', 'hasattr', interp.termify(obj), name)


def b_namedtuple(interp, args, kwargs):
    """collections.namedtuple(typename, field_names, defaults=...)."""
    if len(args) != 2 or set(kwargs) - {'defaults', 'module'}:
        return NotImplemented
    name, fields = args
    if not isinstance(name, K):
        return NotImplemented
    if isinstance(fields, K) and isinstance(fields.v, str):
        names = fields.v.replace(',', ' ').split()
    else:
        items = interp.iterate(fields)
        if not all(isinstance(x, K) and isinstance(x.v, str) for x in items):
            return NotImplemented
        names = [x.v for x in items]
    defaults = kwargs.get('defaults')
    dvals = [] if defaults is None or (
        isinstance(defaults, K) and defaults.v is None) else \
        list(interp.iterate(defaults))
    return NTClass(name.v, names, dvals)


def b_setattr(interp, args, kwargs):
    if len(args) != 3 or not isinstance(args[1], K) or \
            not isinstance(args[1].v, str):
        raise Inexact('setattr with a computed name')
    interp.set_attr(args[0], args[1].v, args[2])
    return K(None)


def b_type(interp, args, kwargs):
    if len(args) == 1:
        v = args[0]
        if isinstance(v, NTupleV):
            return v.cls
        if isinstance(v, Obj) and v.cls is not None:
            return v.cls
        if isinstance(v, K):
            return ExtRef(type(v.v).__name__)
        return T('type', interp.termify(v))
    raise Inexact('type() with 3 arguments')


def b_iter(interp, args, kwargs):
    if len(args) == 2 and getattr(interp, 'concrete_iter2', False):
        # the rule scripts what the callable returns: call until sentinel
        items = []
        for _ in range(64):
            v = interp.call(args[0], [])
            if interp.truth(_compare(interp, '==', v, args[1])):
                return ListV(items)
            items.append(v)
        raise Inexact('iter(callable, sentinel) did not reach the sentinel')
    if len(args) == 2:
        # iter(callable, sentinel): called lazily by the consuming loop
        from .absint import Iter2V
        return Iter2V(args[0], args[1])
    if isinstance(args[0], IterV):
        return args[0]
    if isinstance(args[0], (ListV, TupleV)):
        return IterV(list(args[0].items))
    if isinstance(args[0], K) and isinstance(
            args[0].v, (tuple, list, str, bytes, range)):
        return IterV(interp.iterate(args[0]))
    if isinstance(args[0], (SetV, DictV)):
        return IterV(interp.iterate(args[0]))
    if isinstance(args[0], T) and interp.guide is not None:
        # following one input: the iterable is what it evaluates to
        from .termeval import CannotEval, Raised
        try:
            got = interp.guide(args[0])
            if isinstance(got, (range, list, tuple, str, bytes)) and \
                    len(got) <= interp.world.unroll_bound:
                return IterV([from_python(x) for x in got])
        except (CannotEval, Raised):
            pass
    if isinstance(args[0], T):
        # unrolled like a loop over the same term would be (bounded, noted)
        return IterV(interp.iterate(args[0]))
    return T('call', 'iter', interp.termify(args[0]))


def b_next(interp, args, kwargs):
    it = args[0]
    if isinstance(it, (ListV, TupleV)):
        # first element of a (generator-expression) sequence
        if it.items:
            if isinstance(it, ListV):
                return it.items.pop(0)
            return it.items[0]
        if len(args) > 1:
            return args[1]
        raise AbsRaise(T('exc', 'StopIteration'))
    if isinstance(it, Obj):
        f = interp.get_attr(it, '__next__', missing_ok=True)
        if f is not None:
            if len(args) == 1:
                return interp.call(f, [])
            try:
                return interp.call(f, [])
            except AbsRaise as r:
                cls = interp.exc_class_of(r.exc)
                if cls is not None and exc_is_subclass(
                        cls, ExtRef('StopIteration')):
                    return args[1]
                raise
    return NotImplemented


def b_suppress(interp, args, kwargs):
    """contextlib.suppress(*exceptions)"""
    classes = list(args)
    o = Obj(None, {}, label='suppress')
    o.fields['__enter__'] = AbsFunc('__enter__', lambda i, a, k: K(None))

    def exit_(i, a, k):
        if isinstance(a[0], K) and a[0].v is None:
            return K(False)
        for c in classes:
            r = exc_is_subclass(a[0], c) if not isinstance(a[0], T) else None
            if r:
                return K(True)
            if r is None:
                return T('caught', i.termify(a[1]), i.termify(c))
        return K(False)
    o.fields['__exit__'] = AbsFunc('__exit__', exit_)
    return o


def b_print(interp, args, kwargs):
    interp.effect('call', 'print', tuple(interp.termify(a) for a in args))
    return K(None)


def b_struct_unpack(interp, args, kwargs):
    return struct_unpack(interp, args[0], args[1])


def b_struct_unpack_from(interp, args, kwargs):
    fmt, data = args[0], args[1]
    off = args[2] if len(args) > 2 else kwargs.get('offset', K(0))
    if not isinstance(fmt, K):
        return NotImplemented
    try:
        size = _struct.calcsize(fmt.v)
    except _struct.error as e:
        raise py_exc(interp, e)
    end = norm_int(T('binop', '+', interp.termify(off), K(size)))
    piece = slice_(interp, data, off, end, K(None))
    return struct_unpack(interp, fmt, piece)


def b_struct_iter_unpack(interp, args, kwargs):
    """struct.iter_unpack(fmt, buffer): the records of a buffer whose length
    is known (constant, or evaluated on the input being followed)."""
    fmt, data = args[0], args[1]
    if not isinstance(fmt, K):
        return NotImplemented
    try:
        size = _struct.calcsize(fmt.v)
    except _struct.error as e:
        raise py_exc(interp, e)
    if isinstance(data, K) and isinstance(data.v, bytes):
        try:
            return from_python(list(_struct.iter_unpack(fmt.v, data.v)))
        except _struct.error as e:
            raise py_exc(interp, e)
    n = bytes_len(interp, data) if isinstance(data, T) and \
        data.op == 'bytes' else None
    if n is None and interp.guide is not None and isinstance(data, T):
        from .termeval import CannotEval, Raised
        try:
            n = len(interp.guide(data))
        except (CannotEval, Raised):
            n = None
    if n is None:
        raise Inexact('iter_unpack of a buffer of unknown length')
    if size == 0 or n % size:
        raise AbsRaise(T('exc', 'struct.error', 'iterative unpacking '
                         'requires a buffer of a multiple of %d bytes' %
                         size))
    if n // size > 4096:
        raise Inexact('iter_unpack of %d records' % (n // size))
    return ListV([struct_unpack(interp, fmt, slice_(
        interp, data, K(i * size), K((i + 1) * size), K(None)))
        for i in range(n // size)])


def b_uuid_UUID(interp, args, kwargs):
    """uuid.UUID(constant): the value object itself (immutable)."""
    import uuid as _uuid
    if not _all_k(args, kwargs) or not (args or kwargs):
        return NotImplemented
    try:
        return K(_uuid.UUID(*[a.v for a in args],
                            **{k: v.v for k, v in kwargs.items()}))
    except Exception as e:
        raise py_exc(interp, e)


def b_struct_Struct(interp, args, kwargs):
    """struct.Struct(fmt): a precompiled format with the same unpack model."""
    fmt = args[0] if args else kwargs.get('format')
    if not isinstance(fmt, K):
        return NotImplemented
    try:
        size = _struct.calcsize(fmt.v)
    except _struct.error as e:
        raise py_exc(interp, e)
    o = Obj(None, {'format': fmt, 'size': K(size)}, label='Struct')
    o.fields['unpack'] = AbsFunc('Struct.unpack', lambda i, a, k:
                                 struct_unpack(i, fmt, a[0]))
    o.fields['unpack_from'] = AbsFunc(
        'Struct.unpack_from', lambda i, a, k: b_struct_unpack_from(
            i, [fmt] + list(a), k))
    o.fields['iter_unpack'] = AbsFunc(
        'Struct.iter_unpack', lambda i, a, k: b_struct_iter_unpack(
            i, [fmt] + list(a), k))
    return o


def b_struct_calcsize(interp, args, kwargs):
    if isinstance(args[0], K):
        try:
            return K(_struct.calcsize(args[0].v))
        except Exception as e:
            raise py_exc(interp, e)
    return NotImplemented


def b_re_compile(interp, args, kwargs):
    flags = args[1] if len(args) > 1 else kwargs.get('flags', K(0))
    if isinstance(args[0], K) and isinstance(flags, K):
        return RegexV(args[0].v, int(flags.v))
    return NotImplemented


def b_format(interp, args, kwargs):
    if _all_k(args):
        try:
            return K(format(*[a.v for a in args]))
        except Exception as e:
            raise py_exc(interp, e)
    t = T('call', 'format', *[interp.termify(a) for a in args])
    interp.types[t] = 'str'
    return t


def b_pure(name):
    def f(interp, args, kwargs):
        if _all_k(args, kwargs):
            import builtins
            try:
                return from_python(getattr(builtins, name)(
                    *[a.v for a in args]))
            except Exception as e:
                raise py_exc(interp, e)
        return T('call', name, *[interp.termify(a) for a in args])
    return f


def b_pure_ext(dotted):
    """A pure stdlib function folded on constant arguments (symbolic
    arguments keep the default handling of the call)."""
    def f(interp, args, kwargs):
        if _all_k(args, kwargs):
            import importlib
            mod, _, fn = dotted.rpartition('.')
            try:
                return from_python(getattr(importlib.import_module(mod), fn)(
                    *[a.v for a in args],
                    **{k: v.v for k, v in kwargs.items()}))
            except Exception as e:
                raise py_exc(interp, e)
        return NotImplemented
    return f


def b_maketrans(kind):
    def f(interp, args, kwargs):
        if _all_const(args) and not kwargs:
            from .world import to_python
            try:
                return from_python(kind.maketrans(
                    *[to_python(a) for a in args]))
            except Exception as e:
                raise py_exc(interp, e)
        return NotImplemented
    return f


def b_math_ceil(interp, args, kwargs):
    import math
    if _all_k(args):
        return K(math.ceil(args[0].v))
    return T('call', 'math.ceil', interp.termify(args[0]))


def b_pow(interp, args, kwargs):
    if _all_k(args):
        try:
            return K(pow(*[a.v for a in args]))
        except Exception as e:
            raise py_exc(interp, e)
    return T('call', 'pow', *[interp.termify(a) for a in args])


def _lazy_source(interp, src):
    """step function of an endless / lazy source, or None."""
    from .absint import LazyV, Iter2V, _StopLazy
    if isinstance(src, LazyV):
        return src.step
    if isinstance(src, EndlessV):
        state = {'i': 0}

        def step(i2):
            state['i'] += 1
            return src.take(i2, state['i'])[-1]
        return step
    if isinstance(src, Iter2V):
        def step2(i2):
            v = i2.call(src.func, [])
            if i2.truth(_compare(i2, '==', v, src.sentinel)):
                raise _StopLazy()
            return v
        return step2
    return None


def b_map(interp, args, kwargs):
    if len(args) > 2 and not kwargs and not any(
            isinstance(a, T) for a in args[1:]):
        # several iterables: as long as the shortest; endless ones follow
        finite = [a for a in args[1:] if not isinstance(a, EndlessV)]
        if not finite or any(_lazy_source(interp, a) is not None
                             for a in finite):
            return NotImplemented
        cols = {id(a): interp.iterate(a) for a in finite}
        n = min(len(c) for c in cols.values())
        rows = [cols[id(a)][:n] if id(a) in cols else a.take(interp, n)
                for a in args[1:]]
        return IterV([interp.call(args[0], [r[i] for r in rows])
                      for i in range(n)])
    if len(args) != 2:
        return NotImplemented
    src_step = _lazy_source(interp, args[1])
    if src_step is not None:
        from .absint import LazyV
        f_ = args[0]
        return LazyV(lambda i2: i2.call(f_, [src_step(i2)]))
    if isinstance(args[1], T) and interp.guide is not None and \
            interp._guided_len(args[1]) is not None:
        # following one input: the elements are those of its value
        return IterV([interp.call(args[0], [x])
                      for x in interp.iterate(args[1])])
    if isinstance(args[1], T):
        return T('call', 'map', interp.termify(args[0]), args[1])
    return IterV([interp.call(args[0], [x])
                  for x in interp.iterate(args[1])])


def _dc_fields(interp, obj):
    if isinstance(obj, Obj) and obj.cls is not None:
        names, _o = obj.cls.lookup('__dataclass_fields__')
        if isinstance(names, K):
            return list(names.v)
    return None


def _dc_deep(interp, v, as_tuple):
    """dataclasses.asdict / astuple recurse into dataclass instances, lists,
    tuples and dicts (copies of everything else are the values
    themselves for the immutable kinds the repo stores)."""
    names = _dc_fields(interp, v)
    if names is not None:
        items = [(n, _dc_deep(interp, interp.get_attr(v, n), as_tuple))
                 for n in names]
        if as_tuple:
            return TupleV([x for _n, x in items])
        return DictV([(K(n), x) for n, x in items])
    if isinstance(v, IterV):
        raise Inexact('iterator inside a dataclass')
    if isinstance(v, ListV):
        return ListV([_dc_deep(interp, x, as_tuple) for x in v.items])
    if isinstance(v, TupleV):
        return TupleV([_dc_deep(interp, x, as_tuple) for x in v.items])
    if isinstance(v, DictV):
        return DictV([(k, _dc_deep(interp, x, as_tuple))
                      for k, x in zip(v.keys, v.vals)])
    if isinstance(v, (K, T)):
        return v
    raise Inexact('dataclasses.asdict on a field holding %s' %
                  type(v).__name__)


def b_dc_asdict(interp, args, kwargs):
    if len(args) != 1 or kwargs or _dc_fields(interp, args[0]) is None:
        return NotImplemented
    return _dc_deep(interp, args[0], False)


def b_dc_astuple(interp, args, kwargs):
    if len(args) != 1 or kwargs or _dc_fields(interp, args[0]) is None:
        return NotImplemented
    return _dc_deep(interp, args[0], True)


def b_dc_replace(interp, args, kwargs):
    if len(args) != 1:
        return NotImplemented
    names = _dc_fields(interp, args[0])
    if names is None:
        return NotImplemented
    kw = {n: interp.get_attr(args[0], n) for n in names}
    for k, v in kwargs.items():
        if k not in kw:
            raise AbsRaise(T('exc', 'TypeError', 'unexpected field'))
        kw[k] = v
    return interp.call(args[0].cls, [], kw)


def b_dc_fields(interp, args, kwargs):
    raise Inexact('dataclasses.fields() is not modelled')


def b_partial(interp, args, kwargs):
    """functools.partial(f, *a, **kw): a callable that prepends / merges."""
    if not args:
        return NotImplemented
    f, pre, prekw = args[0], list(args[1:]), dict(kwargs)

    def run(i2, a, kw):
        merged = dict(prekw)
        merged.update(kw)
        return i2.call(f, pre + list(a), merged)
    r = AbsFunc('partial(%s)' % show(interp.termify(f)), run)
    return r


_WRAP_ASSIGNED = ('__module__', '__name__', '__qualname__', '__doc__',
                  '__annotations__', '__type_params__')
_INTERNAL_FIELDS = ('__hasattr__', '__type__', '__truth__', '__closed__',
                    '__open__', '__class_name__', '__iter_items__',
                    '__call__')


def b_update_wrapper(interp, args, kwargs):
    """functools.update_wrapper(wrapper, wrapped): the listed attributes
    the wrapped object has are copied, the instance dictionary of the
    wrapped object is merged into the wrapper's, __wrapped__ is set."""
    if len(args) < 2 or set(kwargs) - {'assigned', 'updated'}:
        return NotImplemented
    wrapper, wrapped = args[0], args[1]
    if not isinstance(wrapper, Obj) or not isinstance(
            wrapped, (Obj, FuncRef, AbsFunc)):
        return NotImplemented
    if 'assigned' in kwargs or 'updated' in kwargs or len(args) > 2:
        return NotImplemented
    interp.effect('call', 'functools.update_wrapper',
                  (interp.termify(wrapper), interp.termify(wrapped)))
    for name in _WRAP_ASSIGNED:
        if isinstance(wrapped, Obj):
            v = wrapped.fields.get(name)
            if v is None and wrapped.cls is not None:
                v = interp.get_attr(wrapped, name, missing_ok=True)
        elif isinstance(wrapped, FuncRef):
            v = interp.world.func_attrs.get(wrapped.qualname, {}).get(name)
            if v is None:
                v = {'__name__': K(wrapped.name),
                     '__qualname__': K(wrapped.qualname),
                     '__module__': K(getattr(wrapped.module, 'name', None)),
                     '__doc__': K(ast.get_docstring(wrapped.node)
                                  if isinstance(wrapped.node,
                                                ast.FunctionDef) else None),
                     '__annotations__': DictV([]),
                     '__type_params__': K(())}.get(name)
        else:
            v = None
        if v is not None:
            wrapper.fields[name] = v
    if isinstance(wrapped, Obj):
        for k, v in list(wrapped.fields.items()):
            if k not in _INTERNAL_FIELDS and k not in _WRAP_ASSIGNED and \
                    not isinstance(v, (AbsFunc,)):
                wrapper.fields[k] = v
    elif isinstance(wrapped, FuncRef):
        for k, v in interp.world.func_attrs.get(wrapped.qualname,
                                                {}).items():
            wrapper.fields[k] = v
    wrapper.fields['__wrapped__'] = wrapped
    return wrapper


def b_wraps(interp, args, kwargs):
    """functools.wraps(f)(g) is update_wrapper(g, f) and returns g."""
    if len(args) != 1 or kwargs:
        return NotImplemented
    f = args[0]

    def run(i2, a, kw):
        r = b_update_wrapper(i2, [a[0], f], {})
        if r is NotImplemented:
            i2.opaque_call('functools.update_wrapper',
                           ExtRef('functools.update_wrapper'), [a[0], f], {})
        return a[0]
    return AbsFunc('wraps', run)


def b_reduce(interp, args, kwargs):
    items = None
    if isinstance(args[1], T):
        return NotImplemented
    items = interp.iterate(args[1])
    if len(args) == 3:
        items = [args[2]] + items
    if not items:
        raise AbsRaise(T('exc', 'TypeError', 'reduce() of empty iterable'))
    acc = items[0]
    for x in items[1:]:
        acc = interp.call(args[0], [acc, x])
    return acc


def b_divmod(interp, args, kwargs):
    if _all_k(args):
        try:
            return K(divmod(args[0].v, args[1].v))
        except Exception as e:
            raise py_exc(interp, e)
    t = T('call', 'divmod', *[interp.termify(a) for a in args])
    return TupleV([T('item', t, K(0)), T('item', t, K(1))])


def b_exc_info(interp, args, kwargs):
    exc = interp.current_exception()
    if exc is None:
        return TupleV([K(None), K(None), K(None)])
    cls = interp.exc_class_of(exc)
    return TupleV([cls if cls is not None else T('type', exc), exc,
                   T('tb', interp.termify(exc))])


def b_sys_exception(interp, args, kwargs):
    """sys.exception(): the exception being handled, or None."""
    exc = interp.current_exception()
    return K(None) if exc is None else exc


def b_parse_qsl(interp, args, kwargs):
    if _all_k(args, kwargs):
        from urllib import parse
        return from_python([tuple(p) for p in parse.parse_qsl(
            *[a.v for a in args], **{k: v.v for k, v in kwargs.items()})])
    return NotImplemented


def b_parse_qs(interp, args, kwargs):
    if _all_k(args, kwargs):
        from urllib import parse
        try:
            return from_python(parse.parse_qs(
                *[a.v for a in args], **{k: v.v for k, v in kwargs.items()}))
        except Exception as e:
            raise py_exc(interp, e)
    return NotImplemented


def b_groupby(interp, args, kwargs):
    if isinstance(args[0], T) and interp.guide is not None:
        # following one input: the elements are those of its value
        source = interp.iterate(args[0])
    elif isinstance(args[0], (ListV, TupleV)):
        source = args[0].items
    elif isinstance(args[0], K) and isinstance(args[0].v, (str, tuple)):
        source = interp.iterate(args[0])
    else:
        return NotImplemented
    keyf = args[1] if len(args) > 1 else kwargs.get('key')
    if isinstance(keyf, K) and keyf.v is None:
        keyf = None
    out = []
    last = None
    for item in source:
        k = interp.call(keyf, [item]) if keyf is not None else item
        if isinstance(k, T) and interp.guide is not None:
            from .termeval import CannotEval, Raised
            try:
                k = from_python(interp.guide(interp.termify(k)))
            except (CannotEval, Raised, Inexact):
                pass
        if out and isinstance(_compare(interp, '==', last, k), K) and \
                _compare(interp, '==', last, k).v:
            out[-1].items[1].items.append(item)
        else:
            out.append(TupleV([k, ListV([item])]))
            last = k
    return ListV(out)


def b_property(interp, args, kwargs):
    """property(fget, ...) written as a call rather than a decorator."""
    from .values import PropertyV
    fget = args[0] if args else kwargs.get('fget')
    if fget is None or (isinstance(fget, K) and fget.v is None):
        return NotImplemented
    return PropertyV(fget)


def b_attrgetter(interp, args, kwargs):
    if not args or not all(isinstance(x, K) and isinstance(x.v, str)
                           for x in args):
        return NotImplemented
    paths = [x.v.split('.') for x in args]

    def one(interp2, v, path):
        for part in path:
            v = interp2.get_attr(v, part)
        return v

    def get(interp2, a, kw):
        if len(paths) == 1:
            return one(interp2, a[0], paths[0])
        return TupleV([one(interp2, a[0], p) for p in paths])
    return AbsFunc('attrgetter(%s)' % ','.join(x.v for x in args), get)


def b_itemgetter(interp, args, kwargs):
    if not args:
        return NotImplemented
    keys = list(args)

    def get(i2, a, kw):
        if len(keys) == 1:
            return subscript(i2, a[0], keys[0])
        return TupleV([subscript(i2, a[0], k) for k in keys])
    return AbsFunc('itemgetter', get)


def b_methodcaller(interp, args, kwargs):
    if not args or not (isinstance(args[0], K) and
                        isinstance(args[0].v, str)):
        return NotImplemented
    name, pre, prekw = args[0].v, list(args[1:]), dict(kwargs)

    def run(i2, a, kw):
        if len(a) != 1 or kw:
            raise AbsRaise(T('exc', 'TypeError',
                             'methodcaller expected 1 argument'))
        return i2.call(i2.get_attr(a[0], name), pre, prekw)
    return AbsFunc('methodcaller(%s)' % name, run)


def b_frozenset(interp, args, kwargs):
    return b_set(interp, args, kwargs)


def b_dict_fromkeys(interp, args, kwargs):
    if not args or isinstance(args[0], T):
        return NotImplemented
    value = args[1] if len(args) > 1 else K(None)
    d = DictV([])
    for k in interp.iterate(args[0]):
        d.set(k, value)
    return d


def b_sum(interp, args, kwargs):
    if not args or isinstance(args[0], T):
        return NotImplemented
    acc = args[1] if len(args) > 1 else kwargs.get('start', K(0))
    for x in interp.iterate(args[0]):
        acc = binop(interp, ast.Add(), acc, x)
    return acc


def b_closing(interp, args, kwargs):
    """contextlib.closing(thing): enters as thing, leaves by thing.close()."""
    if len(args) != 1:
        return NotImplemented
    thing = args[0]
    o = Obj(None, {}, label='closing')
    o.fields['__enter__'] = AbsFunc('__enter__', lambda i, a, k: thing)

    def leave(i, a, k):
        i.call(i.get_attr(thing, 'close'), [])
        return K(None)
    o.fields['__exit__'] = AbsFunc('__exit__', leave)
    return o


def b_exitstack(interp, args, kwargs):
    """contextlib.ExitStack(): callbacks and entered managers are left in
    reverse order; a callback that raises replaces the pending exception;
    a manager that returns true suppresses it."""
    if args or kwargs:
        return NotImplemented
    o = Obj(None, {}, label='ExitStack')
    todo = []       # ('call', f, args, kw) | ('ctx', manager)

    def callback(i, a, k):
        if not a:
            raise AbsRaise(T('exc', 'TypeError', 'callback needs a callable'))
        todo.append(('call', a[0], list(a[1:]), dict(k)))
        return a[0]

    def enter_context(i, a, k):
        r = i.ctx_enter(a[0])
        todo.append(('ctx', a[0]))
        return r

    def push(i, a, k):
        if isinstance(a[0], Obj) and i.get_attr(a[0], '__exit__',
                                               missing_ok=True) is not None:
            todo.append(('ctx', a[0]))
        else:
            todo.append(('exitfn', a[0]))
        return a[0]

    def unwind(i, exc):
        """-> the exception still pending after every callback ran."""
        while todo:
            item = todo.pop()
            try:
                if item[0] == 'call':
                    i.call(item[1], item[2], item[3])
                elif item[0] == 'ctx':
                    if i.ctx_exit(item[1], exc):
                        exc = None
                else:
                    cls = i.exc_class_of(exc) if exc is not None else None
                    r = i.call(item[1], [K(None)] * 3 if exc is None else [
                        cls if cls is not None else T('type', exc), exc,
                        T('tb', i.termify(exc))])
                    if exc is not None and i.truth(r):
                        exc = None
            except AbsRaise as r2:
                exc = r2.exc
        return exc

    def exit_(i, a, k):
        exc0 = None if isinstance(a[1], K) and a[1].v is None else a[1]
        left = unwind(i, exc0)
        if left is None:
            return K(exc0 is not None)
        if left is exc0:
            return K(False)
        raise AbsRaise(left)

    def close(i, a, k):
        left = unwind(i, None)
        if left is not None:
            raise AbsRaise(left)
        return K(None)

    def pop_all(i, a, k):
        raise Inexact('ExitStack.pop_all')
    o.fields['__enter__'] = AbsFunc('__enter__', lambda i, a, k: o)
    o.fields['__exit__'] = AbsFunc('__exit__', exit_)
    o.fields['callback'] = AbsFunc('callback', callback)
    o.fields['enter_context'] = AbsFunc('enter_context', enter_context)
    o.fields['push'] = AbsFunc('push', push)
    o.fields['close'] = AbsFunc('close', close)
    o.fields['pop_all'] = AbsFunc('pop_all', pop_all)
    return o


def b_object(interp, args, kwargs):
    """object(): a fresh heap object (used as a unique sentinel)."""
    if args or kwargs:
        return NotImplemented
    return Obj(None, {}, label='object')


def b_operator_contains(interp, args, kwargs):
    if len(args) != 2:
        return NotImplemented
    return compare(interp, ast.In(), args[1], args[0])


def b_operator_not(interp, args, kwargs):
    if len(args) != 1:
        return NotImplemented
    return K(not interp.truth(args[0]))


def b_operator_is(neg):
    def f(interp, args, kwargs):
        if len(args) != 2:
            return NotImplemented
        return compare(interp, ast.IsNot() if neg else ast.Is(), args[0],
                       args[1])
    return f


def b_operator_getitem(interp, args, kwargs):
    if len(args) != 2:
        return NotImplemented
    return subscript(interp, args[0], args[1])


def b_operator_bin(sym):
    node = {'or_': ast.BitOr, 'and_': ast.BitAnd, 'add': ast.Add,
            'sub': ast.Sub, 'mul': ast.Mult, 'xor': ast.BitXor,
            'mod': ast.Mod, 'truediv': ast.Div, 'floordiv': ast.FloorDiv,
            'pow': ast.Pow, 'lshift': ast.LShift, 'rshift': ast.RShift,
            'matmul': ast.MatMult}[sym]()

    def f(interp, args, kwargs):
        if len(args) != 2:
            return NotImplemented
        return binop(interp, node, args[0], args[1])
    return f


def b_operator(sym):
    def f(interp, args, kwargs):
        if len(args) != 2:
            return NotImplemented
        node = {'lt': ast.Lt, 'le': ast.LtE, 'eq': ast.Eq, 'ne': ast.NotEq,
                'gt': ast.Gt, 'ge': ast.GtE}[sym]()
        return compare(interp, node, args[0], args[1])
    return f


BUILTINS = {
    'len': b_len, 'isinstance': b_isinstance, 'issubclass': b_issubclass,
    'slice': b_slice,
    'str': b_str,
    'int': _num('int', int, 'int'), 'float': _num('float', float, 'float'),
    'bool': b_bool, 'min': b_minmax('min'), 'max': b_minmax('max'),
    'range': b_range, 'enumerate': b_enumerate, 'reversed': b_reversed,
    'zip': b_zip, 'dict': b_dict, 'list': b_list, 'tuple': b_tuple,
    'set': b_set, 'sorted': b_sorted, 'all': b_all, 'any': b_any,
    'frozenset': b_frozenset, 'property': b_property,
    'operator.methodcaller': b_methodcaller,
    'collections.deque': b_deque,
    'operator.attrgetter': b_attrgetter, 'operator.itemgetter': b_itemgetter,
    'dict.fromkeys': b_dict_fromkeys,
    'getattr': b_getattr, 'hasattr': b_hasattr, 'setattr': b_setattr, 'type': b_type, 'id': b_id,
    'iter': b_iter, 'print': b_print, 'next': b_next,
    'contextlib.suppress': b_suppress,
    'struct.unpack': b_struct_unpack, 'struct.calcsize': b_struct_calcsize,
    'struct.unpack_from': b_struct_unpack_from,
    'struct.iter_unpack': b_struct_iter_unpack,
    'struct.Struct': b_struct_Struct, 'uuid.UUID': b_uuid_UUID,
    're.compile': b_re_compile,
    'bin': b_pure('bin'), 'hex': b_pure('hex'), 'ord': b_pure('ord'),
    'chr': b_pure('chr'), 'abs': b_pure('abs'), 'repr': b_pure('repr'),
    'math.ceil': b_math_ceil, 'pow': b_pow, 'map': b_map,
    'functools.reduce': b_reduce, 'functools.partial': b_partial,
    'dataclasses.asdict': b_dc_asdict, 'dataclasses.astuple': b_dc_astuple,
    'dataclasses.replace': b_dc_replace, 'dataclasses.fields': b_dc_fields,
    'collections.namedtuple': b_namedtuple,
    'functools.wraps': b_wraps, 'functools.update_wrapper': b_update_wrapper, 'divmod': b_divmod,
    'sys.exc_info': b_exc_info, 'sys.exception': b_sys_exception, 'format': b_format,
    're.escape': b_pure_ext('re.escape'),
    'str.maketrans': b_maketrans(str), 'bytes.maketrans': b_maketrans(bytes),
    'math.floor': b_pure_ext('math.floor'),
    'math.log': b_pure_ext('math.log'), 'math.log2': b_pure_ext('math.log2'),
    'math.log10': b_pure_ext('math.log10'),
    'math.sqrt': b_pure_ext('math.sqrt'),
    'math.trunc': b_pure_ext('math.trunc'),
    'operator.index': b_pure_ext('operator.index'),
    'unicodedata.normalize': b_pure_ext('unicodedata.normalize'),
    'unicodedata.category': b_pure_ext('unicodedata.category'),
    'string.capwords': b_pure_ext('string.capwords'),
    'textwrap.dedent': b_pure_ext('textwrap.dedent'),
    'posixpath.join': b_pure_ext('posixpath.join'),
    'itertools.groupby': b_groupby, 'itertools.repeat': b_it_repeat,
    'itertools.count': b_it_count, 'itertools.cycle': b_it_cycle,
    'itertools.chain': b_it_chain,
    'itertools.chain.from_iterable': b_it_chain_from,
    'itertools.islice': b_it_islice, 'itertools.starmap': b_it_starmap,
    'filter': _filtering(True), 'itertools.filterfalse': _filtering(False),
    'itertools.takewhile': _while(True),
    'itertools.dropwhile': _while(False),
    'itertools.accumulate': b_it_accumulate,
    'itertools.zip_longest': b_it_zip_longest,
    'urllib.parse.parse_qsl': b_parse_qsl,
    'urllib.parse.parse_qs': b_parse_qs,
    'round': b_pure('round'),
    'operator.lt': b_operator('lt'), 'operator.le': b_operator('le'),
    'operator.eq': b_operator('eq'), 'operator.ne': b_operator('ne'),
    'operator.gt': b_operator('gt'), 'operator.ge': b_operator('ge'),
    'contextlib.closing': b_closing, 'contextlib.ExitStack': b_exitstack, 'object': b_object, 'sum': b_sum,
    'operator.contains': b_operator_contains,
    'operator.not_': b_operator_not, 'operator.is_': b_operator_is(False),
    'operator.is_not': b_operator_is(True),
    'operator.getitem': b_operator_getitem,
    'operator.or_': b_operator_bin('or_'),
    'operator.and_': b_operator_bin('and_'),
    'operator.add': b_operator_bin('add'),
    'operator.sub': b_operator_bin('sub'),
    'operator.mul': b_operator_bin('mul'),
    'operator.xor': b_operator_bin('xor'),
    'operator.mod': b_operator_bin('mod'),
    'operator.truediv': b_operator_bin('truediv'),
    'operator.floordiv': b_operator_bin('floordiv'),
    'operator.pow': b_operator_bin('pow'),
    'operator.lshift': b_operator_bin('lshift'),
    'operator.rshift': b_operator_bin('rshift'),
    'operator.concat': b_operator_bin('add'),
}
