"""E6 - regex analysis on ``re._parser`` trees: character-set algebra, finite
language enumeration, shape inspection, NFA/DFA construction for language
inclusion / equivalence.  Patterns come from the analysed source as constant
strings; they are parsed, never matched against repository data."""
import re
import re._parser as sre_parse
import re._constants as C
import unicodedata

from .loader import AnalysisError

# Universe of code points for set algebra: all of Latin-1 and a sample of
# other scripts / categories (letters, digits, spaces, symbols, astral).
UNIVERSE = list(range(0, 0x180)) + [
    0x2028, 0x2029, 0x3000, 0x00A0, 0x0660, 0x0966, 0x0391, 0x03B1, 0x0416,
    0x4E2D, 0x212A, 0x017F, 0x0130, 0x0131, 0x1F600, 0x20AC, 0x2122, 0xFF21,
    0xFF10, 0x1D7CE, 0x200B, 0x0301]
UNIVERSE = sorted(set(UNIVERSE))
_CAT_RE = {
    C.CATEGORY_DIGIT: r'\d', C.CATEGORY_NOT_DIGIT: r'\D',
    C.CATEGORY_SPACE: r'\s', C.CATEGORY_NOT_SPACE: r'\S',
    C.CATEGORY_WORD: r'\w', C.CATEGORY_NOT_WORD: r'\W',
}
_cat_cache = {}


def category(cat, ascii_only=False):
    key = (cat, ascii_only)
    if key not in _cat_cache:
        rx = re.compile(_CAT_RE[cat], re.ASCII if ascii_only else 0)
        _cat_cache[key] = frozenset(c for c in UNIVERSE if rx.match(chr(c)))
    return _cat_cache[key]


def parse(pattern, flags=0):
    try:
        return sre_parse.parse(pattern, flags)
    except re.error as e:
        raise AnalysisError('pattern %r does not parse: %s' % (pattern, e))


def _fold(chars, flags):
    if not flags & re.IGNORECASE:
        return frozenset(chars)
    out = set(chars)
    for c in list(chars):
        ch = chr(c)
        for v in (ch.lower(), ch.upper(), ch.swapcase()):
            if len(v) == 1:
                out.add(ord(v))
    # close under simple case folding inside the universe
    for u in UNIVERSE:
        if u not in out:
            cu = chr(u)
            if any(len(x) == 1 and ord(x) in out
                   for x in (cu.lower(), cu.upper())):
                out.add(u)
    return frozenset(out)


def charset(node, flags=0):
    """Set of code points (within UNIVERSE) matched by a single-character
    node (LITERAL, NOT_LITERAL, ANY, IN, CATEGORY)."""
    op, av = node
    ascii_only = bool(flags & re.ASCII)
    if op is C.LITERAL:
        return _fold({av}, flags)
    if op is C.NOT_LITERAL:
        return frozenset(UNIVERSE) - _fold({av}, flags)
    if op is C.ANY:
        if flags & re.DOTALL:
            return frozenset(UNIVERSE)
        return frozenset(UNIVERSE) - {10}
    if op is C.CATEGORY:
        return category(av, ascii_only)
    if op is C.IN:
        neg = False
        acc = set()
        for iop, iav in av:
            if iop is C.NEGATE:
                neg = True
            elif iop is C.LITERAL:
                acc |= _fold({iav}, flags)
            elif iop is C.RANGE:
                lo, hi = iav
                acc |= _fold({c for c in UNIVERSE if lo <= c <= hi}, flags)
            elif iop is C.CATEGORY:
                acc |= category(iav, ascii_only)
            else:
                raise AnalysisError('class item %s' % (iop,))
        if neg:
            return frozenset(UNIVERSE) - acc
        return frozenset(acc)
    raise AnalysisError('not a single-character node: %s' % (op,))


def is_char(node):
    return node[0] in (C.LITERAL, C.NOT_LITERAL, C.ANY, C.IN, C.CATEGORY)


def items(tree):
    """Top-level sequence of (op, av) nodes."""
    return list(tree)


def group_index(node):
    if node[0] is C.SUBPATTERN:
        return node[1][0]
    return None


def group_body(node):
    return node[1][3]


def find_group(tree, n):
    for node in tree:
        op, av = node
        if op is C.SUBPATTERN:
            if av[0] == n:
                return node
            r = find_group(av[3], n)
            if r is not None:
                return r
        elif op in (C.MAX_REPEAT, C.MIN_REPEAT):
            r = find_group(av[2], n)
            if r is not None:
                return r
        elif op is C.BRANCH:
            for b in av[1]:
                r = find_group(b, n)
                if r is not None:
                    return r
    return None


def language(seq, flags=0, limit=4096, maxrep=3):
    """Finite language of a node sequence (set of strings); unbounded repeats
    are cut at *maxrep* (AnalysisError when the result exceeds *limit*)."""
    langs = ['']
    for node in seq:
        op, av = node
        if is_char(node):
            cs = charset(node, flags)
            if len(cs) > 64:
                raise AnalysisError('character class too wide to enumerate')
            opts = [chr(c) for c in sorted(cs)]
        elif op is C.SUBPATTERN:
            opts = sorted(language(av[3], flags, limit, maxrep))
        elif op is C.BRANCH:
            o = set()
            for b in av[1]:
                o |= language(b, flags, limit, maxrep)
            opts = sorted(o)
        elif op in (C.MAX_REPEAT, C.MIN_REPEAT):
            lo, hi, body = av
            hi = min(hi, max(lo, maxrep)) if hi is C.MAXREPEAT or \
                hi > maxrep else hi
            inner = sorted(language(body, flags, limit, maxrep))
            o = set()
            for n in range(lo, hi + 1):
                cur = ['']
                for _ in range(n):
                    cur = [a + b for a in cur for b in inner]
                    if len(cur) > limit:
                        raise AnalysisError('language too large')
                o |= set(cur)
            opts = sorted(o)
        elif op is C.AT:
            opts = ['']
        else:
            raise AnalysisError('cannot enumerate %s' % (op,))
        langs = [a + b for a in langs for b in opts]
        if len(langs) > limit:
            raise AnalysisError('language too large')
    return set(langs)


# ------------------------------------------------------------------ automata
class NFA:
    def __init__(self):
        self.n = 0
        self.eps = {}
        self.trans = {}     # state -> [(frozenset chars, target)]

    def new(self):
        self.n += 1
        return self.n - 1

    def add_eps(self, a, b):
        self.eps.setdefault(a, set()).add(b)

    def add(self, a, chars, b):
        self.trans.setdefault(a, []).append((chars, b))


def _build(nfa, seq, flags, start, alphabet):
    cur = start
    for node in seq:
        op, av = node
        if is_char(node):
            nxt = nfa.new()
            nfa.add(cur, charset(node, flags) & alphabet, nxt)
            cur = nxt
        elif op is C.SUBPATTERN:
            cur = _build(nfa, av[3], flags, cur, alphabet)
        elif op is C.BRANCH:
            end = nfa.new()
            for b in av[1]:
                s = nfa.new()
                nfa.add_eps(cur, s)
                e = _build(nfa, b, flags, s, alphabet)
                nfa.add_eps(e, end)
            cur = end
        elif op in (C.MAX_REPEAT, C.MIN_REPEAT):
            lo, hi, body = av
            for _ in range(lo):
                cur = _build(nfa, body, flags, cur, alphabet)
            if hi is C.MAXREPEAT:
                loop = nfa.new()
                nfa.add_eps(cur, loop)
                e = _build(nfa, body, flags, loop, alphabet)
                nfa.add_eps(e, loop)
                cur = loop
            else:
                end = nfa.new()
                nfa.add_eps(cur, end)
                for _ in range(hi - lo):
                    cur = _build(nfa, body, flags, cur, alphabet)
                    nfa.add_eps(cur, end)
                cur = end
        elif op is C.AT:
            if av in (C.AT_BEGINNING, C.AT_BEGINNING_STRING):
                if cur != start and node is not seq[0]:
                    raise AnalysisError('anchor ^ in the middle')
            elif av in (C.AT_END, C.AT_END_STRING):
                pass    # handled by the caller (must be last)
            else:
                raise AnalysisError('anchor %s' % (av,))
        else:
            raise AnalysisError('automaton: unsupported node %s' % (op,))
    return cur


def strip_anchors(tree):
    """-> (sequence without leading ^ / trailing $, anchored_start,
    anchored_end)"""
    seq = list(tree)
    a_start = a_end = False
    while seq and seq[0][0] is C.AT and seq[0][1] in (
            C.AT_BEGINNING, C.AT_BEGINNING_STRING):
        seq.pop(0)
        a_start = True
    while seq and seq[-1][0] is C.AT and seq[-1][1] in (
            C.AT_END, C.AT_END_STRING):
        seq.pop()
        a_end = True
    # ^ nested at the start of the first group: (^...)
    if seq and seq[0][0] is C.SUBPATTERN:
        body = list(seq[0][1][3])
        if body and body[0][0] is C.AT and body[0][1] in (
                C.AT_BEGINNING, C.AT_BEGINNING_STRING):
            a_start = True
            g = seq[0][1]
            seq[0] = (C.SUBPATTERN, (g[0], g[1], g[2], body[1:]))
    return seq, a_start, a_end


class DFA:
    def __init__(self, classes, trans, accept, start=0):
        self.classes = classes      # list of frozenset (alphabet partition)
        self.trans = trans          # state -> {class index: state}
        self.accept = accept
        self.start = start


def _partition(sets, alphabet):
    """Coarsest partition of *alphabet* respecting every set in *sets*."""
    parts = [frozenset(alphabet)]
    for s in sets:
        new = []
        for p in parts:
            a, b = p & s, p - s
            if a:
                new.append(a)
            if b:
                new.append(b)
        parts = new
    return parts


def nfa_of(seq, flags, alphabet):
    nfa = NFA()
    start = nfa.new()
    end = _build(nfa, seq, flags, start, frozenset(alphabet))
    return nfa, start, end


def determinize(nfa, start, end, classes):
    def closure(states):
        stack, seen = list(states), set(states)
        while stack:
            s = stack.pop()
            for t in nfa.eps.get(s, ()):
                if t not in seen:
                    seen.add(t)
                    stack.append(t)
        return frozenset(seen)
    s0 = closure({start})
    ids = {s0: 0}
    order = [s0]
    trans = {}
    i = 0
    while i < len(order):
        cur = order[i]
        trans[i] = {}
        for ci, cl in enumerate(classes):
            rep = next(iter(cl))
            tgt = set()
            for s in cur:
                for cs, t in nfa.trans.get(s, ()):
                    if rep in cs:
                        tgt.add(t)
            if not tgt:
                continue
            tc = closure(tgt)
            if tc not in ids:
                ids[tc] = len(order)
                order.append(tc)
                if len(order) > 10000:
                    raise AnalysisError('DFA state bound exceeded')
            trans[i][ci] = ids[tc]
        i += 1
    accept = {ids[s] for s in order if end in s}
    return DFA(classes, trans, accept)


def to_dfa(seq, flags, alphabet):
    nfa, start, end = nfa_of(seq, flags, alphabet)
    sets = [cs for lst in nfa.trans.values() for cs, _t in lst]
    return determinize(nfa, start, end, _partition(sets, alphabet))


def difference_witness(seq_a, flags_a, seq_b, flags_b, alphabet):
    """A shortest string (over *alphabet*) accepted by exactly one of the
    two full-match languages, or None when they are equal.
    Returns (string, in_a, in_b)."""
    alphabet = frozenset(alphabet)
    na, sa, ea = nfa_of(seq_a, flags_a, alphabet)
    nb, sb, eb = nfa_of(seq_b, flags_b, alphabet)
    sets = [cs for n in (na, nb) for lst in n.trans.values()
            for cs, _t in lst]
    classes = _partition(sets, alphabet)
    da = determinize(na, sa, ea, classes)
    db = determinize(nb, sb, eb, classes)
    start = (0, 0)
    seen = {start: ''}
    queue = [start]
    while queue:
        a, b = queue.pop(0)
        ina = a is not None and a in da.accept
        inb = b is not None and b in db.accept
        if ina != inb:
            return seen[(a, b)], ina, inb
        for ci, cl in enumerate(classes):
            xa = da.trans[a].get(ci) if a is not None else None
            xb = db.trans[b].get(ci) if b is not None else None
            if xa is None and xb is None:
                continue
            if (xa, xb) not in seen:
                seen[(xa, xb)] = seen[(a, b)] + chr(min(cl))
                queue.append((xa, xb))
    return None


def describe(node):
    return '%s' % (node,)
