"""E9 - obligations, findings, known findings, evidence files."""
import json
import os
import time

VERIF = os.path.dirname(os.path.dirname(os.path.dirname(
    os.path.abspath(__file__))))
EVIDENCE_DIR = os.path.join(VERIF, 'evidence')
KNOWN_FILE = os.path.join(VERIF, 'known_findings.json')

OK, VIOLATED, UNDECIDED, INFO = 'ok', 'violated', 'undecided', 'info'


class Obligation:
    def __init__(self, rule, key, status, detail, where=None, case=None):
        self.rule = rule
        self.key = key
        self.status = status
        self.detail = detail
        self.where = where
        self.case = case

    def as_dict(self):
        d = {'rule': self.rule, 'construct': self.key,
             'status': self.status, 'detail': self.detail}
        if self.where:
            d['where'] = self.where
        if self.case is not None:
            d['case'] = self.case
        return d


class Report:
    def __init__(self, prop, tier, level, write=True):
        self.prop = prop
        self.tier = tier
        self.level = level
        self.write = write
        self.obligations = []
        self.evaluations = 0
        self.nontrivial = set()
        self.samples = []
        self.functions = set()
        self.rules = {}
        self.instances = {}
        self.assumptions = []
        self.trusted = []
        self.explanation = ''
        self.exhaustive = True
        self.t0 = time.time()
        self.extra = {}

    # -- recording -----------------------------------------------------------
    def rule(self, rid, text):
        self.rules[rid] = text

    def analysed(self, *funcs):
        self.functions.update(funcs)

    def check(self, rule, key, ok, detail='', where=None, case=None,
              exact=True):
        """Record one obligation.  ok: True / False / None(undecided)."""
        if ok is None or (ok is False and not exact):
            status = UNDECIDED
        else:
            status = OK if ok else VIOLATED
        self.obligations.append(Obligation(rule, key, status, detail, where,
                                           case))
        return status == OK

    def undecided(self, rule, key, detail, where=None):
        self.obligations.append(Obligation(rule, key, UNDECIDED, detail,
                                           where))

    def info(self, rule, key, detail):
        self.obligations.append(Obligation(rule, key, INFO, detail))

    def case(self, sample, nontrivial_key=None):
        """Count one enumerated abstract case."""
        self.evaluations += 1
        if nontrivial_key is not None:
            self.nontrivial.add(nontrivial_key)
        if len(self.samples) < 12:
            self.samples.append(sample)

    def count(self, what, n, floor=None):
        self.instances[what] = n
        if floor is not None and n < floor:
            self.undecided('floor', what,
                           'instance count %d fell below the floor %d '
                           'confirmed on the pinned tree' % (n, floor))

    # -- verdict -------------------------------------------------------------
    def finish(self, out=print):
        known = load_known()
        violations = [o for o in self.obligations if o.status == VIOLATED]
        undecided = [o for o in self.obligations if o.status == UNDECIDED]
        new, listed = [], []
        for o in violations:
            kf = match_known(known, self.prop, o)
            if kf is not None:
                listed.append((o, kf))
            else:
                new.append(o)
        seen = set()
        for o, kf in listed:
            tag = (kf.get('rule'), kf.get('construct'))
            if tag in seen:
                continue
            seen.add(tag)
            out('KNOWN-FINDING: property=%s %s [%s %s] input: %s' % (
                self.prop, kf.get('what', o.detail), o.rule, o.key,
                kf.get('input', 'n/a')))
        replay_paths = []
        for i, o in enumerate(new):
            path = os.path.join(EVIDENCE_DIR, 'replay',
                                '%s-%d.json' % (self.prop, i + 1))
            if self.write:
                os.makedirs(os.path.dirname(path), exist_ok=True)
                with open(path, 'w') as f:
                    json.dump({'property': self.prop, 'rule': o.rule,
                               'construct': o.key, 'detail': o.detail,
                               'where': o.where, 'case': o.case,
                               'rule_text': self.rules.get(o.rule, '')},
                              f, indent=1, default=str)
            replay_paths.append(path)
            out('VIOLATION property=%s replay=%s' % (self.prop, path))
            out('  rule %s (%s)' % (o.rule, self.rules.get(o.rule, '')))
            out('  construct: %s%s' % (o.key,
                                       ' @ ' + o.where if o.where else ''))
            out('  %s' % o.detail)
        for o in undecided:
            out('ANALYSIS-ERROR property=%s rule=%s construct=%s: %s' % (
                self.prop, o.rule, o.key, o.detail))
        n_ok = len([o for o in self.obligations if o.status == OK])
        total = len([o for o in self.obligations if o.status != INFO])
        out('%s [%s]: %d obligations, %d discharged, %d known findings, '
            '%d violations, %d undecided; %d abstract cases (%d distinct '
            'non-trivial); functions analysed: %d' % (
                self.prop, self.tier, total, n_ok, len(listed), len(new),
                len(undecided), self.evaluations, len(self.nontrivial),
                len(self.functions)))
        if self.write:
            self.write_evidence(total, n_ok, listed, new, undecided)
        if new:
            return 1
        if undecided:
            return 2
        return 0

    def write_evidence(self, total, n_ok, listed, new, undecided):
        os.makedirs(EVIDENCE_DIR, exist_ok=True)
        samples = list(self.samples)
        for o in self.obligations[:400]:
            if len(samples) >= 40:
                break
            if o.status in (OK, VIOLATED):
                samples.append(o.as_dict())
        cov = {
            'explanation': self.explanation,
            'obligations': total,
            'discharged': n_ok + len(listed) if self.level != 'proof'
            else n_ok,
            'known_findings': [dict(o.as_dict(), known=kf.get('what'))
                               for o, kf in listed],
            'violations': [o.as_dict() for o in new],
            'undecided': [o.as_dict() for o in undecided],
            'evaluations': max(self.evaluations, 1),
            'distinct_nontrivial': len(self.nontrivial),
            'rule': 'abstract cases are enumerated exhaustively over the '
                    'finite abstraction stated per rule; a case is '
                    'non-trivial when its extracted outcome differs from '
                    'the default (plain return of the input / no effect)',
            'samples': samples,
            'exhaustive': self.exhaustive,
            'checker_cmd': '/venv/bin/python -m sa check %s%s' % (
                self.prop, ' --tier thorough' if self.tier == 'thorough'
                else ''),
            'trusted_base': self.trusted or [
                'CPython ast parser', 'Python language semantics as '
                'modelled by sa/core/absint.py', 'oracle tables in '
                'sa/specs'],
            'rules': self.rules,
            'functions_analysed': sorted(self.functions),
            'instances': self.instances,
            'info': [o.as_dict() for o in self.obligations
                     if o.status == INFO][:40],
        }
        cov.update(self.extra)
        ev = {
            'property_id': self.prop,
            'tier': self.tier,
            'seed': int(os.environ.get('VERIF_SEED', '0') or 0),
            'level': self.level,
            'coverage': cov,
            'assumptions': self.assumptions,
            'wall_s': round(time.time() - self.t0, 3),
            'violations': len(new),
        }
        path = os.path.join(EVIDENCE_DIR, '%s.json' % self.prop)
        with open(path, 'w') as f:
            json.dump(ev, f, indent=1, default=str)


def load_known():
    try:
        with open(KNOWN_FILE) as f:
            return json.load(f)
    except FileNotFoundError:
        return {'findings': [], 'fixed': []}


def match_known(known, prop, o):
    for kf in known.get('findings', []):
        if kf.get('property') == prop and kf.get('rule') == o.rule and \
                kf.get('construct') == o.key:
            return kf
    return None
