"""Symbolic model of ``re`` matching for the table extractor.

``pattern.match(s)`` on a constant pattern and a symbolic subject forks into
"no match" (None) and a match object whose ``group(n)`` are symbolic terms;
``hook`` evaluates those terms with the stdlib ``re`` on grid valuations (the
pattern is a constant extracted from the source, the subject a grid value)."""
import re

from .termeval import ev, Raised
from .values import K, T, Obj, AbsFunc, RegexV, TupleV

MODES = {'re.Pattern.match': 'match', 're.Pattern.search': 'search',
         're.Pattern.fullmatch': 'fullmatch', 're.match': 'match',
         're.search': 'search', 're.fullmatch': 'fullmatch'}


def on_call(interp, name, f, args, kwargs):
    if name not in MODES:
        return NotImplemented
    rx = args[0]
    if isinstance(rx, K) and isinstance(rx.v, str):
        flags = args[2].v if len(args) > 2 and isinstance(args[2], K) else 0
        rx = RegexV(rx.v, flags)
    if isinstance(rx, T) and name in ('re.match', 're.search',
                                      're.fullmatch') and len(args) >= 2:
        # a pattern that is itself data: matched or not is one fork, the
        # pattern may also fail to compile
        subject = interp.termify(args[1])
        cond = T('rxdyn', MODES[name], rx, subject)
        interp.effect('call', name, (rx, subject))
        interp.call_raises.setdefault(name, ['re.error'])
        interp.may_raise(name, cond)
        if not interp.truth(cond):
            return K(None)
        return Obj(None, {'__truth__': True}, label='match')
    if not isinstance(rx, RegexV):
        return NotImplemented
    subject = interp.termify(args[1])
    rt = T('regex', rx.pattern, rx.flags)
    cond = T('rxmatch', rt, MODES[name], subject)
    interp.effect('call', name, (rt, subject))
    if isinstance(subject, K):
        try:
            m = getattr(re.compile(rx.pattern, rx.flags),
                        MODES[name])(subject.v)
        except TypeError:
            from .absint import AbsRaise
            raise AbsRaise(T('exc', 'TypeError', 'expected string'))
        if m is None:
            return K(None)
        return _const_match(m, args[1])
    matched = interp.truth(cond)
    if not matched:
        return K(None)
    ngroups = re.compile(rx.pattern, rx.flags).groups
    mo = Obj(None, {'__truth__': True}, label='match')

    def group(interp2, a, kw):
        if len(a) > 1:
            return TupleV([group(interp2, [x], kw) for x in a])
        n = a[0] if a else K(0)
        if not isinstance(n, K):
            interp2.inexact('group() with a non-constant index')
            return T('group', rt, MODES[name], subject, interp2.termify(n))
        if isinstance(n.v, int) and n.v > ngroups:
            from .absint import AbsRaise
            raise AbsRaise(T('exc', 'IndexError', 'no such group'))
        t = T('group', rt, MODES[name], subject, n)
        interp2.types[t] = 'str'
        return t

    def groups(interp2, a, kw):
        ts = [T('group', rt, MODES[name], subject, K(i + 1))
              for i in range(ngroups)]
        for t in ts:
            interp2.types[t] = 'str'
        return TupleV(ts)
    def pos(which):
        def f(interp2, a, kw):
            n = a[0] if a else K(0)
            if not isinstance(n, K):
                interp2.inexact('%s() with a non-constant index' % which)
            if which == 'span':
                lo = T('mpos', rt, MODES[name], subject, 'start', n)
                hi = T('mpos', rt, MODES[name], subject, 'end', n)
                interp2.types[lo] = interp2.types[hi] = 'int'
                return TupleV([lo, hi])
            t = T('mpos', rt, MODES[name], subject, which, n)
            interp2.types[t] = 'int'
            return t
        return f
    mo.fields['group'] = AbsFunc('group', group)
    mo.fields['groups'] = AbsFunc('groups', groups)
    mo.fields['start'] = AbsFunc('start', pos('start'))
    mo.fields['end'] = AbsFunc('end', pos('end'))
    mo.fields['span'] = AbsFunc('span', pos('span'))
    mo.fields['string'] = args[1]
    mo.fields['__getitem__'] = AbsFunc('__getitem__', group)
    return mo


def _const_match(m, subject):
    """Match object of a constant pattern on a constant subject: every
    accessor answers with a constant."""
    from .absint import AbsRaise
    mo = Obj(None, {'__truth__': True}, label='match')

    def wrap(meth):
        def f(interp2, a, kw):
            if not all(isinstance(x, K) for x in a):
                interp2.inexact('match.%s() with a non-constant argument'
                                % meth)
                return T('call', 'match.' + meth,
                         *[interp2.termify(x) for x in a])
            try:
                r = getattr(m, meth)(*[x.v for x in a],
                                     **{k: v.v for k, v in kw.items()})
            except IndexError:
                raise AbsRaise(T('exc', 'IndexError', 'no such group'))
            if isinstance(r, dict):
                from .values import DictV
                return DictV([(K(k), K(v)) for k, v in r.items()])
            return K(r)
        return f
    for meth in ('group', 'groups', 'start', 'end', 'span', 'groupdict',
                 '__getitem__', 'expand'):
        mo.fields[meth] = AbsFunc(meth, wrap(meth))
    mo.fields['string'] = subject
    mo.fields['lastindex'] = K(m.lastindex)
    mo.fields['lastgroup'] = K(m.lastgroup)
    mo.fields['re'] = K(None)
    mo.fields['__closed__'] = True
    return mo


def install(interp, chain=None):
    def hook(i, name, f, args, kwargs):
        r = on_call(i, name, f, args, kwargs)
        if r is NotImplemented and chain is not None:
            return chain(i, name, f, args, kwargs)
        return r
    interp.on_call = hook
    interp.group_optional = True


def hook(v, val, hooks=None):
    hooks = hooks or [hook]
    if isinstance(v, T) and v.op == 'rxdyn':
        p = ev(v.args[1], val, hooks)
        s = ev(v.args[2], val, hooks)
        try:
            return getattr(re, v.args[0])(p, s) is not None
        except re.error:
            raise Raised('re.error')
        except TypeError:
            raise Raised('TypeError')
    if isinstance(v, T) and v.op == 'mpos':
        rt, mode, subject, which, n = v.args
        s = ev(subject, val, hooks)
        try:
            m = getattr(re.compile(rt.args[0], rt.args[1]), mode)(s)
        except TypeError:
            raise Raised('TypeError')
        if m is None:
            raise Raised('AttributeError')
        try:
            return getattr(m, which)(n.v)
        except IndexError:
            raise Raised('IndexError')
    if isinstance(v, T) and v.op in ('rxmatch', 'group'):
        rt, mode, subject = v.args[0], v.args[1], v.args[2]
        s = ev(subject, val, hooks)
        try:
            m = getattr(re.compile(rt.args[0], rt.args[1]), mode)(s)
        except TypeError:
            raise Raised('TypeError')
        if v.op == 'rxmatch':
            return m is not None
        if m is None:
            raise Raised('AttributeError')
        return m.group(v.args[3].v)
    return NotImplemented
