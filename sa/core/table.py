"""Decision-table extraction and comparison with an oracle (E4 front end).

``extract`` explores every path of a function on abstract arguments;
``grid_compare`` evaluates the extracted table and an oracle (a plain Python
function written from the property statement) on a finite grid of valuations
of the symbols and reports the first disagreement as an exact counterexample.
"""
import itertools

from .absint import Interp
from .loader import AnalysisError
from .termeval import ev, path_matches, CannotEval, Raised, NoAnswer
from .values import K, T, Obj, TupleV, ListV, DictV, SetV, show


class _CpuLimit:
    """Bounds the CPU time of one evaluation (a library called by the
    evaluator may loop on an input, as the code under analysis would): when
    the limit is hit the evaluation ends with Raised('did not finish')."""

    def __init__(self, seconds=30):
        self.seconds = seconds

    def __enter__(self):
        import signal
        import threading
        self.active = threading.current_thread() is threading.main_thread()
        if not self.active:
            return self

        def fire(signum, frame):
            raise NoAnswer('no answer within %d s of CPU time' %
                           self.seconds)
        self.old = signal.signal(signal.SIGVTALRM, fire)
        # fires again every second in case a library swallowed the first
        signal.setitimer(signal.ITIMER_VIRTUAL, self.seconds, 1)
        return self

    def __exit__(self, *exc):
        if self.active:
            import signal
            signal.setitimer(signal.ITIMER_VIRTUAL, 0)
            signal.signal(signal.SIGVTALRM, self.old)
        return False


class Outcomes(list):
    """The extracted paths plus the recipe that produced them, so that a
    comparison can fall back to following single inputs (guided mode) where
    the symbolic table is inexact or cannot be evaluated."""
    recipe = None


def extract(world, thunk, types=None, capture=None, depth=5, setup=None,
            max_paths=2048):
    interp = Interp(world, inline_depth=depth)
    if types:
        interp.types.update(types)
    if setup:
        setup(interp)
    try:
        outs = Outcomes(interp.explore(thunk, capture=capture,
                                       max_paths=max_paths))
    except AnalysisError as e:
        if 'path bound' not in str(e) or capture is not None:
            raise
        # too many symbolic paths: leave the table empty and inexact; the
        # comparison follows single inputs instead
        outs = Outcomes()
        outs.overflow = str(e)
    outs.recipe = (world, thunk, types, setup, depth)
    return outs, interp


def guided_outcome(recipe, val, hooks=None):
    """Follow the single path the valuation *val* takes (branches chosen by
    evaluating their condition on it) and evaluate the outcome."""
    world, thunk, types, setup, depth = recipe
    interp = Interp(world, inline_depth=depth + 1)
    if types:
        interp.types.update(types)
    memo = {}

    def guide(t):
        r = memo.get(t, memo)
        if r is memo:
            try:
                r = ev(t, val, hooks)
            except Raised as e:
                memo[t] = e
                raise
            memo[t] = r
        elif isinstance(r, Raised):
            raise r
        return r
    interp.guide = guide
    if setup:
        setup(interp)
    try:
        outs = interp.explore(thunk, max_paths=64)
    except AnalysisError as e:
        raise CannotEval('guided run: %s' % e)
    if len(outs) != 1 or not outs[0].exact:
        raise CannotEval('guided run: %d paths %s' % (
            len(outs), [o.notes for o in outs][:2]))
    return outcome_value(outs[0], val, hooks)


GUIDED_LIMIT = 4000


def inexact_notes(outcomes, allow=()):
    for o in outcomes:
        if not o.exact:
            notes = [n for n in (o.notes or ['path cut'])
                     if not any(n.startswith(a) for a in allow)]
            if notes:
                return notes
    return None


def outcome_at(outcomes, val, hooks=None):
    """The single path whose assumptions hold under *val* (assumption values
    are memoised across paths, which share prefixes)."""
    hits = []
    memo = {}
    for o in outcomes:
        ok = True
        for term, assumed in o.assumptions:
            key = term
            if key not in memo:
                try:
                    if isinstance(term, T) and term.op == 'len':
                        if term in val:
                            memo[key] = ('len', val[term])
                        else:
                            memo[key] = ('len', len(ev(term.args[0], val,
                                                       hooks)))
                    else:
                        memo[key] = ('v', bool(ev(term, val, hooks)))
                except Raised:
                    memo[key] = ('raised', None)
            kind, got = memo[key]
            if kind == 'raised':
                ok = False
                break
            if kind == 'len':
                if got != assumed:
                    ok = False
                    break
            elif got != bool(assumed):
                ok = False
                break
        if ok:
            hits.append(o)
    if len(hits) != 1:
        raise CannotEval('%d paths match %s' % (
            len(hits), {show(k): v for k, v in val.items()}))
    return hits[0]


def grid_compare(rep, rule, key, label, outcomes, grids, oracle,
                 hooks=None, value_eq=None, where=None, skip=None,
                 allow_cut=False, allow=(), derive=None):
    """*grids*: {symbol term: iterable of python values}.
    *oracle(valuation by show(symbol)) -> ('return', v) | ('raise', name) |
    None (input outside the property's domain: skipped)."""
    notes = inexact_notes([o for o in outcomes
                           if not (allow_cut and o.kind == 'cut')], allow)
    recipe = getattr(outcomes, 'recipe', None)
    if getattr(outcomes, 'overflow', None):
        notes = [outcomes.overflow]
    guided_all = False
    n_guided = 0
    if notes:
        size = 1
        for g_ in grids.values():
            size *= max(1, len(list(g_)))
        if recipe is None or size > GUIDED_LIMIT:
            rep.undecided(rule, key, '%s: interpretation inexact: %s' % (
                label, notes), where)
            return False
        # the symbolic table is not exact: every input is followed singly
        guided_all = True
    shared = memo_shared(outcomes)
    if shared:
        rep.check(rule, key + ':memoised', False,
                  '%s: the result is the %s object kept by the cache of %s: '
                  'every later call with equal arguments returns the same '
                  'mutable object, so a caller changing one result changes '
                  'the next' % (label, shared[1], shared[0]), where,
                  case=label)
    syms = list(grids)
    bad = None
    more = []
    n = 0
    sigs = set()
    for vals in itertools.product(*[list(grids[s]) for s in syms]):
        val = dict(zip(syms, vals))
        named = {show(s): v for s, v in val.items()}
        if skip is not None and skip(named):
            continue
        if derive is not None:
            # symbols whose value is a function of the others
            for sym, x in derive(named).items():
                val[sym] = x
                named[show(sym)] = x
        want = oracle(named)
        if want is None:
            continue
        n += 1
        got = None
        if not guided_all:
            try:
                with _CpuLimit():
                    o = outcome_at(outcomes, val, hooks)
                    got = outcome_value(o, val, hooks)
            except NoAnswer as e:
                got = ('raise', str(e))
            except CannotEval as e:
                if recipe is None or n_guided >= GUIDED_LIMIT:
                    rep.undecided(rule, key, '%s: %s' % (label, e), where)
                    return False
                first_error = e
        if got is None:
            n_guided += 1
            try:
                with _CpuLimit():
                    got = guided_outcome(recipe, val, hooks)
            except NoAnswer as e:
                got = ('raise', str(e))
            except CannotEval as e:
                rep.undecided(rule, key, '%s: %s%s' % (
                    label, 'interpretation inexact: %s; ' % notes
                    if guided_all else '', e), where)
                return False
        sigs.add(_sig(got))
        if not same_outcome(got, want, value_eq):
            if bad is None:
                bad = (named, got, want)
            else:
                more.append(named)
            if got[0] == 'raise' and isinstance(got[1], str) and \
                    got[1].startswith('no answer within'):
                break       # every further input may take as long
    for s in sigs:
        rep.case({'case': label, 'outcome': s}, (key, label, s))
    rep.evaluations += max(n - len(sigs), 0)
    if bad is None:
        rep.check(rule, key, True, '%s: extracted table agrees with the '
                  'oracle on %d valuations%s' % (
                      label, n, '' if not n_guided else
                      ' (%d of them followed singly through the code)' %
                      n_guided), where, case=label)
        return True
    rep.check(rule, key, False,
              '%s: for input %s the code yields %s but the property '
              'requires %s%s' % (label, bad[0], _sig(bad[1]), _sig(bad[2]),
                                 '' if not more else
                                 ' (%d further disagreeing valuations, e.g. %s)'
                                 % (len(more), more[:6])),
              where, case={'label': label, 'input': bad[0]})
    return False


MUTABLE_CALLS = ('list', 'dict', 'set', 'sorted', 'bytearray')
MUTABLE_METHODS = ('asList', 'as_list', 'split', 'rsplit', 'splitlines',
                   'copy', 'readlines')


def _mutable_kind(v):
    if isinstance(v, ListV):
        return 'list'
    if isinstance(v, DictV):
        return 'dict'
    if isinstance(v, SetV):
        return 'set'
    if isinstance(v, T):
        if v.op == 'call' and v.args[0] in MUTABLE_CALLS:
            return v.args[0]
        if v.op in ('mcall', 'mret') and len(v.args) > 1 and \
                v.args[1] in MUTABLE_METHODS:
            return 'list'
        if v.op in ('dict', 'list', 'listcomp'):
            return v.op
    return None


def memo_shared(outcomes):
    """(function, kind) when some path returns the very object a memoising
    decorator keeps (and the object is mutable)."""
    for o in outcomes:
        if o.kind != 'return':
            continue
        for e in o.effects:
            if e[0] == 'memo' and (e[2] is o.value or (
                    isinstance(e[2], T) and e[2] == o.value)):
                kind = _mutable_kind(o.value)
                if kind:
                    return (e[1], kind)
    return None


def outcome_value(o, val, hooks=None):
    if o.kind == 'raise':
        return ('raise', o.exc_class)
    if o.kind != 'return':
        raise CannotEval('path cut')
    try:
        return ('return', ev(o.value, val, hooks))
    except Raised as r:
        return ('raise', r.name)


def _sig(x):
    if x[0] == 'raise':
        return 'raise %s' % (' or '.join(x[1]) if isinstance(
            x[1], (tuple, list, set, frozenset)) else x[1],)
    v = x[1]
    if isinstance(v, Obj):
        return 'return <%s>' % v.label
    try:
        return 'return %r' % (v,)
    except Exception as e:      # a library object whose repr() fails
        return 'return <%s whose repr() raises %s>' % (
            type(v).__name__, type(e).__name__)


def same_outcome(got, want, value_eq=None):
    if got[0] != want[0]:
        return False
    if got[0] == 'raise':
        if isinstance(want[1], (tuple, set, frozenset, list)):
            return got[1] in want[1]
        return got[1] == want[1]
    if value_eq is not None:
        return value_eq(got[1], want[1])
    g, w = got[1], want[1]
    if isinstance(w, bool) or w is None:
        return g is w
    if isinstance(g, bool) != isinstance(w, bool):
        return False
    return g == w and type(g) is type(w) or (
        isinstance(g, (int, float)) and isinstance(w, (int, float)) and
        g == w)


def sym(name, interp_types=None, tag=None):
    t = T('sym', name)
    if interp_types is not None and tag:
        interp_types[t] = tag
    return t


def guided_compare(rep, rule, key, label, world, thunk, grids, oracle,
                   hooks=None, value_eq=None, setup=None, depth=6,
                   where=None):
    """Lazy path enumeration: for every grid valuation the interpreter
    follows the one path whose conditions hold on that valuation (the branch
    is chosen by evaluating the condition term), then the outcome term is
    evaluated and compared with the oracle.  Conditions that cannot be
    evaluated are explored both ways (then the valuation is undecided)."""
    syms = list(grids)
    bad = None
    n = 0
    sigs = set()
    for vals in itertools.product(*[list(grids[s]) for s in syms]):
        val = dict(zip(syms, vals))
        named = {show(s): v for s, v in val.items()}
        want = oracle(named)
        if want is None:
            continue
        n += 1
        interp = Interp(world, inline_depth=depth)
        memo = {}

        def guide(t, val=val, memo=memo):
            r = memo.get(t, memo)
            if r is memo:
                try:
                    r = ev(t, val, hooks)
                except Raised as e:
                    memo[t] = e
                    raise
                memo[t] = r
            elif isinstance(r, Raised):
                raise r
            return r
        interp.guide = guide
        if setup:
            setup(interp)
        try:
            with _CpuLimit():
                outs = interp.explore(thunk, max_paths=64)
                if len(outs) != 1 or not outs[0].exact:
                    rep.undecided(rule, key, '%s: input %s: %d paths %s' % (
                        label, named, len(outs),
                        [o.notes for o in outs][:2]), where)
                    return False
                got = outcome_value(outs[0], val, hooks)
        except NoAnswer as e:
            got = ('raise', str(e))
        except AnalysisError as e:
            rep.undecided(rule, key, '%s: input %s: %s' % (label, named, e),
                          where)
            return False
        except CannotEval as e:
            rep.undecided(rule, key, '%s: input %s: %s' % (label, named, e),
                          where)
            return False
        sigs.add(_sig(got)[:80])
        if not same_outcome(got, want, value_eq) and bad is None:
            bad = (named, got, want)
        if got[0] == 'raise' and isinstance(got[1], str) and \
                got[1].startswith('no answer within') and bad is not None:
            break           # every further input may take as long
    for s_ in list(sigs)[:8]:
        rep.case({'case': label, 'outcome': s_}, (key, label, s_))
    rep.evaluations += max(n - min(len(sigs), 8), 0)
    if bad is None:
        rep.check(rule, key, True, '%s: agrees with the oracle on %d '
                  'inputs' % (label, n), where, case=label)
        return True
    rep.check(rule, key, False,
              '%s: for input %s the code yields %s but the property '
              'requires %s' % (label, bad[0], _sig(bad[1]), _sig(bad[2])),
              where, case={'label': label, 'input': bad[0]})
    return False


# --------------------------------------------------------------- history
_RET_ID = None


def _norm_text(v):
    """Rendering of an outcome value in which the serial numbers of opaque
    call results are dropped (they only say how many opaque calls came
    before on the path)."""
    import re as _re
    s = show(v) if not isinstance(v, str) else v
    s = _re.sub(r'ret\(([^,()]+), \d+', r'ret(\1', s)
    s = _re.sub(r'obj\(([^,()]+), \d+\)', r'obj(\1)', s)
    return s


def history_compare(rep, rule, key, world, prepare, earlier, later,
                    setup=None, depth=6, label=None, where=None,
                    effects=None, max_paths=256):
    """What a call answers must not depend on the calls made before it.

    *prepare(interp)* -> the callable under test (a function, or a bound
    method of an object built there); *earlier* / *later* are (args, kwargs)
    of constants.  Two explorations: ``later`` alone, and ``earlier`` (its
    own outcome ignored) followed by ``later`` on the same callable; the
    outcomes of ``later`` must be the same path by path."""
    from .absint import AbsRaise

    def fresh(interp):
        f = prepare(interp)
        return interp.call(f, list(later[0]), dict(later[1]))

    def after(interp):
        f = prepare(interp)
        try:
            interp.call(f, list(earlier[0]), dict(earlier[1]))
        except AbsRaise:
            pass
        interp.effects.append(('history-mark',))
        return interp.call(f, list(later[0]), dict(later[1]))
    label = label or '%s then %s' % (
        ', '.join(show(a) for a in earlier[0]),
        ', '.join(show(a) for a in later[0]))
    try:
        o1, _i = extract(world, fresh, setup=setup, depth=depth,
                         max_paths=max_paths)
        o2, _i = extract(world, after, setup=setup, depth=depth,
                         max_paths=max_paths * max_paths // 16)
    except AnalysisError as e:
        rep.undecided(rule, key, '%s: %s' % (label, e), where)
        return None
    if getattr(o1, 'overflow', None) or getattr(o2, 'overflow', None) or \
            inexact_notes(o1) or inexact_notes(o2):
        rep.undecided(rule, key, '%s: inexact: %s' % (
            label, inexact_notes(o1) or inexact_notes(o2) or 'path bound'),
            where)
        return None

    def res(o):
        seen = ''
        if effects is not None:
            # what the later call does to the outside world (effects after
            # the mark; all of them when it runs alone)
            evs = list(o.effects)
            if ('history-mark',) in evs:
                evs = evs[evs.index(('history-mark',)) + 1:]
            seen = ' after %s' % [_norm_text(T('effect', *[
                x if isinstance(x, (T, K, str)) else str(x)
                for x in e])) for e in evs if effects(e)]
        if o.kind == 'raise':
            return 'raise %s%s' % (o.exc_class, seen)
        return 'return %s%s' % (_norm_text(o.value), seen)
    def facts(o):
        """assumptions of a path as {fact text: polarity}; the outcome of a
        partial call (defined / raises X) is one fact per call whose value
        is the outcome."""
        d = {}
        for t, pol in o.assumptions:
            if isinstance(t, T) and t.op in ('defined', 'raises') and \
                    pol is True:
                d['outcome of ' + _norm_text(t.args[0])] = \
                    'defined' if t.op == 'defined' else str(t.args[1])
            else:
                d[_norm_text(t)] = pol
        return d
    want = [(facts(o), res(o)) for o in o1]
    got = [(facts(o), res(o)) for o in o2]
    rep.case({'case': label, 'outcomes': sorted({r for _a, r in want})[:4]},
             (key, label))
    # both explorations partition the valuations of their facts: wherever
    # a path of the second run and a path of the lone run can hold together
    # (no fact with two values), the answers must agree
    clash = None
    for a2, r2 in got:
        met = False
        for a1, r1 in want:
            if any(k in a2 and a2[k] != v for k, v in a1.items()):
                continue
            met = True
            if r1 != r2:
                clash = (r2, r1, a1)
                break
        if clash:
            break
        if not met:
            clash = (r2, None, a2)
            break
    ok = clash is None
    if not ok and globals().get("_dbg"):
        _dbg(got, want)
    extra = [clash[0]] if clash else []
    rep.check(rule, key, ok,
              '%s: the second call answers %s, alone it answers %s' % (
                  label, extra[:3],
                  ([clash[1]] if clash[1] else
                   sorted({r for _a, r in want})[:3])) if not ok else
              '%s: same answer as without the earlier call' % label,
              where, case=label)
    return ok


def history_family(rep, rule, key, world, funcs, pairs, setup=None,
                   lift=None, depth=6, effects=None, max_paths=256):
    """history_compare over a family of sibling functions: each pair is
    ((name, args, kwargs), (name, args, kwargs)) of plain Python constants;
    both calls go through one dispatcher so that state shared *between* the
    siblings is seen as well.  *funcs*: name -> callable value."""
    from .values import AbsFunc
    lift = lift or K

    def prepare(interp):
        def run(i2, a, kw):
            return i2.call(funcs[a[0].v], list(a[1:]), kw)
        return AbsFunc(key, run)

    def call(c):
        name, args, kw = c
        return ([K(name)] + [lift(x) for x in args],
                {k: lift(v) for k, v in kw.items()})

    def text(c):
        name, args, kw = c
        return '%s(%s)' % (name, ', '.join(
            [repr(x) for x in args] + ['%s=%r' % i for i in kw.items()]))
    done = 0
    for first, second in pairs:
        r = history_compare(rep, rule, key, world, prepare, call(first),
                            call(second), setup=setup, depth=depth,
                            label='%s then %s' % (text(first), text(second)),
                            effects=effects, max_paths=max_paths)
        done += r is not None
    return done
