"""Evaluation of *extracted terms* under a valuation of their symbols.

The decision-table rules extract, per abstract input, the set of paths of a
function (assumptions -> outcome, both as terms over symbols).  To compare the
extracted table with an oracle without demanding a particular syntactic shape
(so that behaviour-preserving rewrites stay silent), both are evaluated on a
finite grid of valuations that realises every ordering of the symbols the code
compares.  Only the extracted terms are evaluated - never repository code.
"""
import math
import operator as _op

from .values import K, T, Obj, ListV, TupleV, SetV, DictV, show
from .loader import AnalysisError


STDLIB_PURE = {
    'math.isclose', 'math.floor', 'math.trunc', 'math.fabs',
    'encodings.normalize_encoding', 'urllib.parse.unquote',
    'urllib.parse.quote', 'unicodedata.normalize', 'codecs.lookup',
    'operator.add', 'operator.mul', 'operator.sub', 'math.log', 'math.log2',
    'math.log10', 'math.sqrt', 'math.ldexp', 'math.frexp', 'math.fsum',
    'math.copysign', 'math.isfinite', 'math.isinf', 'math.isnan',
}


class CannotEval(Exception):
    pass


class NoAnswer(BaseException):
    """An evaluation was stopped by the CPU-time watchdog (a library looping
    on an input, as the code under analysis would)."""


class Raised(Exception):
    """Evaluation of a term raises (e.g. float('x'))."""

    def __init__(self, name):
        Exception.__init__(self, name)
        self.name = name


_BIN = {'+': _op.add, '-': _op.sub, '*': _op.mul, '/': _op.truediv,
        '//': _op.floordiv, '%': _op.mod, '**': _op.pow, '<<': _op.lshift,
        '>>': _op.rshift, '|': _op.or_, '&': _op.and_, '^': _op.xor}
_CMP = {'==': _op.eq, '<': _op.lt, '<=': _op.le, '>': _op.gt, '>=': _op.ge,
        'is': lambda a, b: a is b or (a == b and type(a) is type(b) and
                                      isinstance(a, (int, str))),
        'in': lambda a, b: a in b}


def ev(v, val, hooks=None):
    """Evaluate abstract value *v* under valuation *val* (term -> python)."""
    if isinstance(v, K):
        return v.v
    if isinstance(v, T):
        if v in val:
            return val[v]
        if hooks:
            for h in hooks:
                r = h(v, val)
                if r is not NotImplemented:
                    return r
        op, a = v.op, v.args
        if op in ('rxmatch', 'group', 'rxdyn', 'mpos'):
            from . import rxmodel
            r = rxmodel.hook(v, val, hooks)
            if r is not NotImplemented:
                return r
        if op == 'binop':
            x, y = ev(a[1], val, hooks), ev(a[2], val, hooks)
            try:
                return _BIN[a[0]](x, y)
            except ZeroDivisionError:
                raise Raised('ZeroDivisionError')
            except OverflowError:
                raise Raised('OverflowError')
            except TypeError:
                raise Raised('TypeError')
            except (CannotEval, Raised):
                raise
            except Exception as e:
                # operators of library values (netaddr, datetime, packaging)
                # raise what the library decides
                raise Raised(type(e).__name__)
        if op == 'cmp':
            x, y = ev(a[1], val, hooks), ev(a[2], val, hooks)
            try:
                return _CMP[a[0]](x, y)
            except TypeError:
                raise Raised('TypeError')
            except (CannotEval, Raised):
                raise
            except Exception as e:
                raise Raised(type(e).__name__)
        if op == 'not':
            return not ev(a[0], val, hooks)
        if op == 'regex' and isinstance(a[0], (str, bytes)):
            import re
            return re.compile(a[0], a[1])
        if op in ('vor', 'vand'):
            x = None
            for t in a:
                x = ev(t, val, hooks)
                if bool(x) == (op == 'vor'):
                    return x
            return x
        if op == 'and':
            return all(ev(x, val, hooks) for x in a)
        if op == 'or':
            return any(ev(x, val, hooks) for x in a)
        if op == 'call' and a[0] == 'dict':
            pos = [ev(x, val, hooks) for x in a[1:]
                   if not (isinstance(x, T) and x.op == 'kw')]
            kw = {x.args[0]: ev(x.args[1], val, hooks) for x in a[1:]
                  if isinstance(x, T) and x.op == 'kw'}
            try:
                return dict(*pos, **kw)
            except (TypeError, ValueError) as e:
                raise Raised(type(e).__name__)
        if op == 'call':
            name = a[0]
            args = [ev(x, val, hooks) for x in a[1:]]
            if name == 'max':
                return max(args)
            if name == 'min':
                return min(args)
            if name == 'bool':
                return bool(args[0])
            if name == 'len':
                return len(args[0])
            if name in ('all', 'any', 'sum', 'sorted', 'tuple', 'list',
                        'set', 'frozenset', 'repr') and len(args) == 1:
                import builtins
                try:
                    return getattr(builtins, name)(*args)
                except (TypeError, ValueError) as e:
                    raise Raised(type(e).__name__)
            if name == 'reversed' and len(args) == 1:
                return list(reversed(args[0]))
            if name in ('float', 'int', 'str'):
                try:
                    return {'float': float, 'int': int, 'str': str}[name](
                        *args)
                except ValueError:
                    raise Raised('ValueError')
                except TypeError:
                    raise Raised('TypeError')
            if name == 'ast.literal_eval':
                import ast as _ast
                try:
                    return _ast.literal_eval(args[0])
                except (ValueError, SyntaxError, TypeError) as e:
                    raise Raised(type(e).__name__)
            if name == 'math.ceil':
                return math.ceil(args[0])
            if name == 'pow':
                return pow(*args)
            if name == 'abs':
                return abs(args[0])
            if name == 'format':
                return format(*args)
            if name == 'round':
                return round(*args)
            if name == 'divmod':
                return divmod(args[0], args[1])
        if op == 'call' and a[0] == 'hasattr' and len(a) == 3:
            return hasattr(ev(a[1], val, hooks), ev(a[2], val, hooks))
        if op == 'call' and a[0] == 'int.from_bytes':
            pos, kw = [], {}
            for x in a[1:]:
                if isinstance(x, T) and x.op == 'kw':
                    kw[x.args[0]] = ev(x.args[1], val, hooks)
                else:
                    pos.append(ev(x, val, hooks))
            try:
                return int.from_bytes(*pos, **kw)
            except (TypeError, ValueError) as e:
                raise Raised(type(e).__name__)
        if op == 'call' and a[0] in STDLIB_PURE:
            import importlib
            modname, _, fname = a[0].rpartition('.')
            fn = getattr(importlib.import_module(modname), fname)
            pos, kw = [], {}
            for x in a[1:]:
                if isinstance(x, T) and x.op == 'kw':
                    kw[x.args[0]] = ev(x.args[1], val, hooks)
                else:
                    pos.append(ev(x, val, hooks))
            try:
                return fn(*pos, **kw)
            except (ValueError, TypeError, LookupError, OverflowError) as e:
                raise Raised(type(e).__name__)
        if op == 'mcall':
            base = ev(a[0], val, hooks)
            args = [None if (isinstance(x, T) and x.op == 'kw')
                    else ev(x, val, hooks) for x in a[2:]]
            if isinstance(base, (str, bytes)) and a[1] in ('encode',
                                                           'decode'):
                kw = {}
                pos = []
                for x, raw in zip(args, a[2:]):
                    if isinstance(raw, T) and raw.op == 'kw':
                        kw[raw.args[0]] = ev(raw.args[1], val, hooks)
                    else:
                        pos.append(x)
                try:
                    return getattr(base, a[1])(*pos, **kw)
                except UnicodeError as e:
                    raise Raised(type(e).__name__)
                except LookupError:
                    raise Raised('LookupError')
                except TypeError:
                    raise Raised('TypeError')
            from .models import PURE_STR_METHODS
            if isinstance(base, (str, bytes)) and a[1] in PURE_STR_METHODS:
                try:
                    return getattr(base, a[1])(*args)
                except ValueError:
                    raise Raised('ValueError')
                except TypeError:
                    raise Raised('TypeError')
        if op == 'attr' and len(a) == 2:
            base = ev(a[0], val, hooks)
            if isinstance(base, Obj):
                raise CannotEval('attribute of abstract object')
            try:
                return getattr(base, a[1])
            except AttributeError:
                raise Raised('AttributeError')
        if op == 'format':
            return ev(a[0], val, hooks).format(
                *[ev(x, val, hooks) for x in a[1:]])
        if op == 'fmt':
            try:
                return ev(a[0], val, hooks) % ev(a[1], val, hooks)
            except (TypeError, ValueError) as e:
                raise Raised(type(e).__name__)
        if op == 'slice':
            base = ev(a[0], val, hooks)
            try:
                return base[ev(a[1], val, hooks):ev(a[2], val, hooks):
                            ev(a[3], val, hooks)]
            except TypeError:
                raise Raised('TypeError')
        if op == 'elem':
            seq = ev(a[0], val, hooks)
            try:
                return list(seq)[ev(a[1], val, hooks)] if not isinstance(
                    seq, (str, bytes, list, tuple, range)) else \
                    seq[ev(a[1], val, hooks)]
            except (IndexError, TypeError):
                raise Raised('IndexError')
        if op == 'range':
            return range(*[ev(x, val, hooks) for x in a])
        if op == 'exists':
            seq, ph, test = a
            for item in ev(seq, val, hooks):
                v2 = dict(val)
                v2[ph] = item
                if ev(test, v2, hooks):
                    return True
            return False
        if op == 'splice':
            base = list(ev(a[0], val, hooks))
            lo, hi = ev(a[1], val, hooks), ev(a[2], val, hooks)
            base[lo:hi] = list(ev(a[3], val, hooks))
            return base
        if op == 'comp':
            kind, seq, ph, elt = a[:4]
            out = []
            for item in ev(seq, val, hooks):
                v2 = dict(val)
                v2[ph] = item
                if all(ev(c, v2, hooks) for c in a[4:]):
                    out.append(ev(elt, v2, hooks))
            return set(out) if kind == 'set' else out
        if op == 'ifexp':
            return ev(a[1], val, hooks) if ev(a[0], val, hooks) else \
                ev(a[2], val, hooks)
        if op == 'call' and a[0] == 'map' and len(a) == 3:
            fn = ev(a[1], val, hooks)
            try:
                return [fn(x) for x in ev(a[2], val, hooks)]
            except (ValueError, TypeError) as e:
                raise Raised(type(e).__name__)
        if op == 'fmtval':
            x = ev(a[0], val, hooks)
            spec = ev(a[2], val, hooks)
            try:
                if a[1] == 's':
                    x = str(x)
                elif a[1] == 'r':
                    x = repr(x)
                elif a[1] == 'a':
                    x = ascii(x)
                return format(x, spec)
            except (ValueError, TypeError) as e:
                raise Raised(type(e).__name__)
        if op == 'fstr':
            out = []
            for x in a:
                r = ev(x, val, hooks)
                out.append(r if isinstance(r, str) and not (
                    isinstance(x, T) and x.op not in ('fmtval',) and False)
                    else format(r, ''))
            return ''.join(out)
        if op == 'list':
            return [ev(x, val, hooks) for x in a]
        if op == 'set':
            return set(ev(x, val, hooks) for x in a)
        if op == 'dict' and all(isinstance(x, T) and x.op == 'item' and
                                len(x.args) == 2 for x in a):
            return {ev(x.args[0], val, hooks): ev(x.args[1], val, hooks)
                    for x in a}
        if op == 'raises':
            try:
                ev(a[0], val, hooks)
            except Raised as r:
                return r.name == a[1]
            return False
        if op == 'defined':
            try:
                ev(a[0], val, hooks)
            except Raised:
                return False
            return True
        if op == 'mcall' and not isinstance(ev(a[0], val, hooks),
                                            (str, bytes, Obj)):
            base = ev(a[0], val, hooks)
            pos, kw = [], {}
            for raw in a[2:]:
                if isinstance(raw, T) and raw.op == 'kw':
                    kw[raw.args[0]] = ev(raw.args[1], val, hooks)
                else:
                    pos.append(ev(raw, val, hooks))
            try:
                return getattr(base, a[1])(*pos, **kw)
            except AttributeError:
                raise Raised('AttributeError')
            except TypeError:
                raise Raised('TypeError')
            except (UnicodeError, LookupError, ValueError) as e:
                raise Raised(type(e).__name__)
            except ValueError:
                raise Raised('ValueError')
            except OverflowError:
                raise Raised('OverflowError')
        if op == 'item':
            return ev(a[0], val, hooks)[ev(a[1], val, hooks)]
        if op == 'sub':
            try:
                return ev(a[0], val, hooks)[ev(a[1], val, hooks)]
            except (IndexError, KeyError) as e:
                raise Raised(type(e).__name__)
        if op == 'isinstance':
            from .models import PY_TYPES
            from .values import ExtRef
            x = ev(a[0], val, hooks)
            res = False
            for ty in a[1].args:
                if isinstance(ty, ExtRef) and ty.name in PY_TYPES:
                    res = res or isinstance(x, PY_TYPES[ty.name])
                elif isinstance(ty, ExtRef) and ty.name == \
                        'collections.abc.Mapping':
                    res = res or isinstance(x, dict)
                else:
                    raise CannotEval('isinstance against %r' % (ty,))
            return res
        raise CannotEval('no valuation for %s' % show(v))
    if isinstance(v, TupleV):
        return tuple(ev(x, val, hooks) for x in v.items)
    if isinstance(v, DictV):
        return {ev(k, val, hooks): ev(x, val, hooks)
                for k, x in zip(v.keys, v.vals)}
    from .values import ExtRef
    if isinstance(v, ExtRef) and hooks:
        for h in hooks:
            r = h(v, val)
            if r is not NotImplemented:
                return r
    if isinstance(v, ExtRef) and v.name in ('int', 'str', 'float', 'len',
                                            'bool', 'abs', 'ord', 'chr',
                                            'repr', 'bytes', 'tuple', 'list'):
        import builtins
        return getattr(builtins, v.name)
    if isinstance(v, ListV):
        return [ev(x, val, hooks) for x in v.items]
    if isinstance(v, Obj):
        return v
    raise CannotEval('cannot evaluate %r' % (v,))


def path_matches(outcome, val, hooks=None):
    """True when every assumption of the path holds under *val*."""
    for term, assumed in outcome.assumptions:
        if isinstance(term, T) and term.op == 'len':
            got = ev(term, val, hooks) if term in val else None
            if got is None:
                raise CannotEval('length assumption %s' % show(term))
            if got != assumed:
                return False
            continue
        got = ev(term, val, hooks)
        if bool(got) != bool(assumed):
            return False
    return True


def select(outcomes, val, hooks=None):
    """The outcome whose assumptions hold under *val*.

    The explored paths partition the input space, so exactly one matches;
    anything else means the extraction was not exact -> AnalysisError."""
    hits = []
    for o in outcomes:
        try:
            if path_matches(o, val, hooks):
                hits.append(o)
        except Raised:
            continue
    if len(hits) != 1:
        raise CannotEval('%d paths match valuation %s' % (
            len(hits), {show(k): v for k, v in val.items()}))
    return hits[0]


def symbols(outcomes):
    """All 'sym'/'ret'/'call' leaves occurring in assumptions/values (for
    diagnostics)."""
    out = set()

    def walk(v):
        if isinstance(v, T):
            if v.op in ('sym', 'ret', 'fresh'):
                out.add(v)
            for a in v.args:
                walk(a)
        elif isinstance(v, (TupleV, ListV)):
            for x in v.items:
                walk(x)
    for o in outcomes:
        for t, _b in o.assumptions:
            walk(t)
        walk(o.value)
    return out
