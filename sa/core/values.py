"""Abstract values of the E4/E5 interpreter."""


class K:
    """A concrete constant (int, str, bytes, bool, None, float, tuple...)."""
    __slots__ = ('v',)

    def __init__(self, v):
        self.v = v

    def __eq__(self, other):
        return isinstance(other, K) and type(self.v) is type(other.v) \
            and self.v == other.v

    def __hash__(self):
        return hash(('K', type(self.v).__name__, self.v))

    def __repr__(self):
        return 'K(%r)' % (self.v,)


class T:
    """A symbolic term: operator + hashable arguments."""
    __slots__ = ('op', 'args', '_h', '_s', '__weakref__')
    _intern = {}

    def __new__(cls, op, *args):
        # hash-consing: structurally equal terms are the same object, so
        # equality of deep terms never recurses
        key = (op, args)
        try:
            t = cls._intern.get(key)
        except TypeError:
            t = None
            key = None
        if t is None:
            t = object.__new__(cls)
            t.op = op
            t.args = args
            t._h = hash(('T', op, args)) if key is not None else id(t)
            t._s = None
            if key is not None:
                cls._intern[key] = t
        return t

    def __init__(self, op, *args):
        pass

    def __eq__(self, other):
        if self is other:
            return True
        return isinstance(other, T) and self._h == other._h and \
            self.op == other.op and self.args == other.args

    def __hash__(self):
        return self._h

    def __repr__(self):
        return show(self)


class Obj:
    """A heap object (identity matters): instance of an in-repo class or an
    abstract stand-in built by a rule."""
    _n = 0

    def __init__(self, cls=None, fields=None, label=None):
        Obj._n += 1
        self.id = Obj._n
        self.cls = cls          # ClassRef or None
        self.fields = dict(fields or {})
        self.label = label or (cls.name if cls else 'obj')

    def __repr__(self):
        return '<%s#%d>' % (self.label, self.id)


class ListV:
    """Mutable concrete list of abstract values."""

    def __init__(self, items=()):
        self.items = list(items)

    def __repr__(self):
        return 'ListV(%r)' % (self.items,)


class Poison:
    """Bound to a name whose defining statement (module or class level) the
    interpreter could not follow: reading it is inexact, not a NameError /
    AttributeError the code would never see."""

    def __init__(self, why):
        self.why = why


def bound_names(stmt):
    """Names a module- or class-level statement binds."""
    import ast
    out = []

    def targets(t):
        if isinstance(t, ast.Name):
            out.append(t.id)
        elif isinstance(t, (ast.Tuple, ast.List)):
            for x in t.elts:
                targets(x)
        elif isinstance(t, ast.Starred):
            targets(t.value)
    if isinstance(stmt, ast.Assign):
        for t in stmt.targets:
            targets(t)
    elif isinstance(stmt, (ast.AnnAssign, ast.AugAssign)):
        targets(stmt.target)
    elif isinstance(stmt, (ast.FunctionDef, ast.AsyncFunctionDef,
                           ast.ClassDef)):
        out.append(stmt.name)
    elif isinstance(stmt, (ast.For, ast.With, ast.If, ast.Try, ast.While)):
        for sub in ast.walk(stmt):
            if sub is not stmt and isinstance(
                    sub, (ast.Assign, ast.AnnAssign, ast.AugAssign,
                          ast.FunctionDef, ast.ClassDef)):
                out.extend(bound_names(sub))
    elif isinstance(stmt, (ast.Import, ast.ImportFrom)):
        for a in stmt.names:
            out.append((a.asname or a.name).split('.')[0])
    return out


class IterV(ListV):
    """One-shot iterator over known elements (what map / filter / zip /
    enumerate / reversed / iter return): iterating it, or testing membership,
    uses the elements up."""

    def __repr__(self):
        return 'IterV(%r)' % (self.items,)


class TupleV:
    __slots__ = ('items',)

    def __init__(self, items=()):
        self.items = tuple(items)

    def __eq__(self, other):
        return isinstance(other, TupleV) and self.items == other.items

    def __hash__(self):
        return hash(('TupleV', self.items))

    def __repr__(self):
        return 'TupleV(%r)' % (self.items,)


class NTupleV(TupleV):
    """An instance of a named tuple class: a tuple whose positions also have
    names; *cls* is the NTClass or the repo class derived from it."""
    __slots__ = ('names', 'cls')

    def __init__(self, items, names, cls):
        TupleV.__init__(self, items)
        self.names = tuple(names)
        self.cls = cls

    def __eq__(self, other):
        return TupleV.__eq__(self, other)

    def __hash__(self):
        return TupleV.__hash__(self)


class NTClass:
    """What collections.namedtuple(...) returns."""

    def __init__(self, name, fields, defaults=()):
        self.name = name
        self.fields = tuple(fields)
        self.defaults = tuple(defaults)     # values of the last fields

    def __repr__(self):
        return '<namedtuple %s%r>' % (self.name, self.fields)


class SetV:
    def __init__(self, items=()):
        self.items = []
        for i in items:
            self.add(i)

    def add(self, v):
        if not any(same(v, x) for x in self.items):
            self.items.append(v)

    def __repr__(self):
        return 'SetV(%r)' % (self.items,)


class DictV:
    """Mutable dict with constant keys (K) -> abstract values; insertion
    ordered.  ``unknown`` is set when a non-constant key was stored."""

    def __init__(self, items=()):
        self.keys = []
        self.vals = []
        self.unknown = False
        for k, v in items:
            self.set(k, v)

    def index(self, k):
        for i, kk in enumerate(self.keys):
            if same(kk, k):
                return i
        return -1

    def set(self, k, v):
        i = self.index(k)
        if i >= 0:
            self.vals[i] = v
        else:
            self.keys.append(k)
            self.vals.append(v)

    def get(self, k):
        i = self.index(k)
        return self.vals[i] if i >= 0 else None

    def delete(self, k):
        i = self.index(k)
        if i >= 0:
            del self.keys[i]
            del self.vals[i]
            return True
        return False

    def __repr__(self):
        return 'DictV(%r)' % (list(zip(self.keys, self.vals)),)


class FuncRef:
    """An in-repo function / method / lambda (possibly bound)."""

    def __init__(self, node, module, cls=None, bound=None, closure=None,
                 name=None):
        self.node = node
        self.module = module
        self.cls = cls
        self.bound = bound
        self.closure = closure
        self.name = name or getattr(node, 'name', '<lambda>')

    def bind(self, obj):
        f = FuncRef(self.node, self.module, self.cls, obj, self.closure,
                    self.name)
        if hasattr(self, 'decorators'):
            f.decorators = self.decorators
        return f

    @property
    def qualname(self):
        return (self.cls.name + '.' if self.cls else '') + self.name

    def __repr__(self):
        return '<func %s>' % self.qualname


class ClassRef:
    def __init__(self, node, module, name, bases, attrs):
        self.node = node
        self.module = module
        self.name = name
        self.bases = bases      # list of ClassRef / ExtRef
        self.attrs = attrs      # class-body namespace

    def mro(self):
        out = [self]
        for b in self.bases:
            if isinstance(b, ClassRef):
                for c in b.mro():
                    if c not in out:
                        out.append(c)
        return out

    def lookup(self, name):
        for c in self.mro():
            if name in c.attrs:
                return c.attrs[name], c
        return None, None

    def is_subclass(self, other):
        return other in self.mro()

    def nt_base(self):
        """The named tuple class this class derives from, if any."""
        for c in self.mro():
            for b in c.bases:
                if isinstance(b, NTClass):
                    return b
        return None

    def ext_bases(self):
        out = []
        for c in self.mro():
            for b in c.bases:
                if isinstance(b, ExtRef):
                    out.append(b.name)
        return out

    def __repr__(self):
        return '<class %s>' % self.name


class ExtRef:
    """A name outside the analysed package (stdlib / third-party module,
    function, class, constant) identified by its dotted name."""
    __slots__ = ('name',)

    def __init__(self, name):
        self.name = name

    def __eq__(self, other):
        return isinstance(other, ExtRef) and self.name == other.name

    def __hash__(self):
        return hash(('Ext', self.name))

    def __repr__(self):
        return '<ext %s>' % self.name


class ModRef:
    """An in-repo module."""

    def __init__(self, name):
        self.name = name

    def __repr__(self):
        return '<mod %s>' % self.name


class AbsFunc:
    """A callable supplied by a rule: behaviour(interp, args, kwargs)."""

    def __init__(self, name, behaviour):
        self.name = name
        self.behaviour = behaviour

    def __repr__(self):
        return '<absfunc %s>' % self.name


class PropertyV:
    def __init__(self, fget, fset=None):
        self.fget = fget
        self.fset = fset


class StaticV:
    def __init__(self, func):
        self.func = func


class ClassMethodV:
    def __init__(self, func):
        self.func = func


class RegexV:
    __slots__ = ('pattern', 'flags')

    def __init__(self, pattern, flags):
        self.pattern = pattern
        self.flags = flags

    def __repr__(self):
        return 'RegexV(%r, %d)' % (self.pattern, self.flags)


def same(a, b):
    """Identity/equality used for container membership."""
    if a is b:
        return True
    if isinstance(a, (K, T, TupleV, ExtRef)) and type(a) is type(b):
        return a == b
    return False


def show(v, depth=0):
    """Compact, position-free rendering of a value (used in evidence and in
    finding keys)."""
    if depth > 8:
        return '...'
    d = depth + 1
    if isinstance(v, K):
        return repr(v.v)
    if isinstance(v, T):
        if v._s is not None:
            return v._s
        r = _show_term(v, depth)
        if depth <= 2:
            v._s = r
        return r
    return _show_other(v, depth)


def _show_term(v, depth):
    d = depth + 1
    if True:
        op, a = v.op, v.args
        if op in ('cmp', 'binop') and len(a) == 3:
            return '(%s %s %s)' % (show(a[1], d), a[0], show(a[2], d))
        if op == 'not':
            return 'not %s' % show(a[0], d)
        if op == 'attr':
            return '%s.%s' % (show(a[0], d), a[1])
        if op == 'sym':
            return str(a[0])
        if op == 'call':
            return '%s(%s)' % (a[0] if isinstance(a[0], str) else show(a[0], d),
                               ', '.join(show(x, d) for x in a[1:]))
        if op == 'bytes':
            return 'bytes[%s:%s:%s]' % tuple(show(x, d) for x in a)
        if op == 'int':
            return 'int(%s@%s,%s,%s%s)' % (
                show(a[0], d), show(a[1], d), a[2], a[3],
                ',signed' if a[4] else '')
        return '%s(%s)' % (op, ', '.join(show(x, d) for x in a))


def _show_other(v, depth):
    d = depth + 1
    if isinstance(v, TupleV):
        return '(%s)' % ', '.join(show(x, d) for x in v.items)
    if isinstance(v, ListV):
        return '[%s]' % ', '.join(show(x, d) for x in v.items)
    if isinstance(v, SetV):
        return '{%s}' % ', '.join(show(x, d) for x in v.items)
    if isinstance(v, DictV):
        return '{%s}' % ', '.join('%s: %s' % (show(k, d), show(x, d))
                                  for k, x in zip(v.keys, v.vals))
    if isinstance(v, str):
        return v
    return repr(v)
