"""E2 - module environments: constant folding of module/class bodies, import
resolution inside the analysed package, class model."""
import ast

from .absint import Interp, Frame, AbsRaise, Inexact
from .loader import AnalysisError, PKG
from .values import (K, T, Obj, ListV, TupleV, DictV, SetV, FuncRef, ClassRef,
                     ExtRef, ModRef, PropertyV, StaticV, ClassMethodV,
                     NTClass)

# named tuple classes of the standard library that repo classes derive from
STDLIB_NAMEDTUPLES = {
    'urllib.parse.SplitResult': NTClass(
        'SplitResult', ('scheme', 'netloc', 'path', 'query', 'fragment')),
    'urllib.parse.ParseResult': NTClass(
        'ParseResult', ('scheme', 'netloc', 'path', 'params', 'query',
                        'fragment')),
    'urllib.parse.DefragResult': NTClass('DefragResult', ('url', 'fragment')),
}

BUILTIN_NAMES = {
    'len', 'isinstance', 'issubclass', 'str', 'bytes', 'int', 'float', 'bool',
    'min', 'max', 'range', 'enumerate', 'reversed', 'zip', 'dict', 'list',
    'tuple', 'set', 'frozenset', 'sorted', 'all', 'any', 'getattr', 'hasattr',
    'setattr', 'type', 'iter', 'next', 'print', 'format', 'bin', 'hex', 'ord',
    'chr', 'abs', 'sum', 'map', 'filter', 'repr', 'open', 'pow', 'round',
    'divmod', 'property', 'staticmethod', 'classmethod', 'super', 'object',
    'id', 'callable', 'bytearray', 'memoryview', 'slice', 'hash', 'vars',
    'NotImplemented', 'Ellipsis', '__name__', '__file__',
}


def _unpoison(v):
    from .values import Poison
    if isinstance(v, Poison):
        raise Inexact('the definition of %s was not followed' % v.why)
    return v


class World:
    def __init__(self, repo):
        self.repo = repo
        self.envs = {}          # module name -> env dict
        self.loading = set()
        self.func_attrs = {}    # attributes stored on function objects
        self.loop_bound = 3
        self.unroll_bound = 4096
        self.sym_iter_max = 2
        self.sym_iter_len = {}
        self.sym_iter_hook = None
        self.module_notes = {}

    # -- module evaluation ----------------------------------------------------
    def env(self, modname):
        full = modname if modname.startswith(PKG) else PKG + '.' + modname
        if full in self.envs:
            return self.envs[full]
        if full in self.loading:
            return self.envs.setdefault(full, {})
        mod = self.repo.module(full)
        self.loading.add(full)
        env = self.envs.setdefault(full, {})
        interp = Interp(self, inline_depth=6)
        interp._reset_path([])
        fref = FuncRef(ast.Lambda(args=None, body=None), mod, name='<module>')
        fr = Frame(fref, env, 0)
        fr.func.closure = None
        interp.frames.append(fr)
        notes = []
        from .values import Poison, bound_names
        for stmt in mod.tree.body:
            before = len(notes)
            try:
                interp.exec_stmt(stmt, fr)
            except AbsRaise as e:
                notes.append('%s: raises %r' % (type(stmt).__name__, e.exc))
            except Inexact as e:
                notes.append('%s: %s' % (type(stmt).__name__, e))
            except AnalysisError:
                raise
            except Exception as e:  # statement outside the modelled subset
                notes.append('%s: %s: %s' % (type(stmt).__name__,
                                             type(e).__name__, e))
            if len(notes) > before:
                # what the statement would have bound is unknown, not absent
                for n_ in bound_names(stmt):
                    if n_ not in env:
                        env[n_] = Poison('%s.%s: %s' % (full, n_,
                                                        notes[-1][:120]))
        if interp.choices:
            notes.append('module body forked on an unknown condition')
        self.module_notes[full] = notes + interp.notes
        self.loading.discard(full)
        self._snapshot(env)
        return env

    # -- module-level mutable state --------------------------------------------
    def _snapshot(self, env):
        """Remember the contents of every container reachable from a module
        environment as they are after import: calls that mutate them (caches,
        registries) must not leak from one explored path into the next."""
        seen = self.__dict__.setdefault('_snap_seen', set())
        snaps = self.__dict__.setdefault('_snaps', [])

        def walk(v, depth=0):
            if id(v) in seen or depth > 6:
                return
            if isinstance(v, (ListV, SetV)):
                seen.add(id(v))
                snaps.append((v, 'items', list(v.items)))
                for x in v.items:
                    walk(x, depth + 1)
            elif isinstance(v, DictV):
                seen.add(id(v))
                snaps.append((v, 'dict', (list(v.keys), list(v.vals),
                                          v.unknown)))
                for x in v.vals:
                    walk(x, depth + 1)
            elif isinstance(v, TupleV):
                seen.add(id(v))
                for x in v.items:
                    walk(x, depth + 1)
            elif isinstance(v, ClassRef):
                seen.add(id(v))
                for x in list(v.attrs.values()):
                    walk(x, depth + 1)
        for v in list(env.values()):
            walk(v)

    def restore_mutables(self):
        if self.loading:
            return
        for v, kind, saved in self.__dict__.get('_snaps', ()):
            if kind == 'items':
                if len(v.items) != len(saved) or any(
                        a is not b for a, b in zip(v.items, saved)):
                    v.items[:] = saved
            else:
                ks, vs, unknown = saved
                v.unknown = unknown
                if len(v.keys) != len(ks) or len(v.vals) != len(vs) or any(
                        a is not b for a, b in zip(v.vals, vs)):
                    v.keys[:] = ks
                    v.vals[:] = vs

    def import_name(self, name):
        if name == PKG or name.startswith(PKG + '.'):
            return ModRef(name)
        return ExtRef(name)

    def import_from(self, module, name):
        module = module or ''
        if module == PKG or module.startswith(PKG + '.'):
            sub = module + '.' + name
            if sub in self.repo.modules:
                return ModRef(sub)
            if module in self.repo.modules:
                env = self.env(module)
                if name in env:
                    return env[name]
            return ExtRef(sub)
        return ExtRef(module + '.' + name)

    def module_attr(self, interp, modname, name):
        if modname in self.repo.modules:
            env = self.env(modname)
            if name in env:
                return _unpoison(env[name])
        sub = modname + '.' + name
        if sub in self.repo.modules:
            return ModRef(sub)
        raise AbsRaise(T('exc', 'AttributeError', sub))

    def global_name(self, interp, name, module):
        if module is not None:
            env = self.env(module.name)
            if name in env:
                return _unpoison(env[name])
        if name in ('True', 'False', 'None'):
            return K({'True': True, 'False': False, 'None': None}[name])
        from .absint import BUILTIN_EXC
        if name in BUILTIN_NAMES or name in BUILTIN_EXC:
            return ExtRef(name)
        raise AbsRaise(T('exc', 'NameError', name))

    def make_class(self, interp, node, fr):
        bases = []
        for b in node.bases:
            try:
                bases.append(interp.eval(b, fr))
            except (AbsRaise, Inexact):
                bases.append(ExtRef(ast.unparse(b)))
        # a base that is the result of an unmodelled call is an unknown
        # external class: attribute lookups on instances stay symbolic
        bases = [b if not isinstance(b, T) else
                 ExtRef('<computed base %s>' % ast.unparse(nb))
                 for b, nb in zip(bases, node.bases)]
        bases = [STDLIB_NAMEDTUPLES.get(b.name, b) if isinstance(b, ExtRef)
                 else b for b in bases]
        module = fr.func.module if fr.func else None
        attrs = {}
        cls = ClassRef(node, module, node.name, bases, attrs)
        cfr = Frame(FuncRef(node, module, name=node.name), attrs, fr.depth)
        cfr.func.closure = fr.env
        interp.frames.append(cfr)
        try:
            for stmt in node.body:
                try:
                    interp.exec_stmt(stmt, cfr)
                except (AbsRaise, Inexact) as e:
                    self.module_notes.setdefault('class:' + node.name,
                                                 []).append(str(e))
                    from .values import Poison, bound_names
                    for n_ in bound_names(stmt):
                        if n_ not in attrs:
                            attrs[n_] = Poison('%s.%s: %s' % (
                                node.name, n_, str(e)[:120]))
        finally:
            interp.frames.pop()
        for i_, b_ in enumerate(bases):
            if isinstance(b_, ExtRef) and b_.name == 'typing.NamedTuple':
                # class X(typing.NamedTuple): the annotated names are the
                # fields, in order; class-level values are the defaults
                names, defaults = [], []
                for st in node.body:
                    if isinstance(st, ast.AnnAssign) and isinstance(
                            st.target, ast.Name):
                        names.append(st.target.id)
                        if st.value is not None:
                            defaults.append(attrs.get(st.target.id))
                        elif defaults:
                            attrs['__unmodelled__'] = K(
                                'NamedTuple field order')
                for n_ in names:
                    attrs.pop(n_, None)
                bases[i_] = NTClass(node.name, names, defaults)
                cls.bases = bases
        ext = [b.name for b in bases if isinstance(b, ExtRef)]
        if any(n in ('enum.Enum', 'enum.IntEnum', 'enum.Flag',
                     'enum.IntFlag', 'enum.StrEnum') for n in ext):
            if any(n != 'enum.Enum' for n in ext if n.startswith('enum.')):
                attrs['__unmodelled__'] = K('enum with mixed-in value type')
            members = []
            for st in node.body:
                if isinstance(st, ast.Assign) and len(st.targets) == 1 and \
                        isinstance(st.targets[0], ast.Name) and \
                        not st.targets[0].id.startswith('_'):
                    nm = st.targets[0].id
                    val = attrs.get(nm)
                    if isinstance(val, (FuncRef, PropertyV, StaticV,
                                        ClassMethodV)) or val is None:
                        continue
                    if isinstance(st.value, ast.Call) and ast.unparse(
                            st.value.func).endswith('auto'):
                        val = K(len(members) + 1)
                    dup = [m for m in members
                           if m.fields['value'] == val]
                    if dup:
                        attrs[nm] = dup[0]      # alias
                        continue
                    m = Obj(cls, {'value': val, 'name': K(nm),
                                  '_value_': val, '_name_': K(nm)},
                            label='%s.%s' % (node.name, nm))
                    members.append(m)
                    attrs[nm] = m
            attrs['__enum_members__'] = ListV(members)
        for k, v in list(attrs.items()):
            if isinstance(v, FuncRef) and v.node in node.body:
                v.cls = cls
                v.closure = fr.env
            elif isinstance(v, (StaticV, ClassMethodV)):
                v.func.cls = cls
                if getattr(v.func, 'node', None) in node.body:
                    v.func.closure = fr.env
            elif isinstance(v, PropertyV):
                # accessors written in the class body see the enclosing
                # scope; accessors made elsewhere (a property factory) keep
                # the scope they were made in
                for acc in (v.fget, v.fset):
                    if isinstance(acc, FuncRef):
                        acc.cls = cls
                        if acc.node in node.body:
                            acc.closure = fr.env
        members = attrs.get('__enum_members__')
        init = attrs.get('__init__')
        if isinstance(members, ListV) and isinstance(init, FuncRef):
            # Enum members with an __init__: it receives the member's value,
            # a tuple value spread over the parameters
            for m in members.items:
                val = m.fields['value']
                if isinstance(val, TupleV):
                    args = list(val.items)
                elif isinstance(val, K) and isinstance(val.v, tuple):
                    args = [K(x) for x in val.v]
                else:
                    args = [val]
                interp.call(init.bind(m), args)
        return cls

    def make_dataclass(self, interp, cls, opts, fr):
        """@dataclass: __init__ (and __eq__) synthesised from the annotated
        class attributes, in order, with their defaults."""
        fields = []
        for c in reversed(cls.mro()):
            for st in c.node.body:
                if isinstance(st, ast.AnnAssign) and isinstance(
                        st.target, ast.Name):
                    ann = ast.unparse(st.annotation)
                    if 'ClassVar' in ann or 'InitVar' in ann:
                        continue
                    if isinstance(st.value, ast.Call) and ast.unparse(
                            st.value.func).endswith('field'):
                        cls.attrs['__unmodelled__'] = K(
                            'dataclass field() specification')
                    fields = [f for f in fields if f[0] != st.target.id]
                    fields.append((st.target.id, st.value))
        params = []
        seen_default = False
        for name, default in fields:
            if default is None and seen_default and not (
                    isinstance(opts.get('kw_only'), K) and
                    opts['kw_only'].v):
                cls.attrs['__unmodelled__'] = K('dataclass field order')
            seen_default = seen_default or default is not None
            params.append(name if default is None else '%s=%s' % (
                name, ast.unparse(default)))
        kw_only = isinstance(opts.get('kw_only'), K) and opts['kw_only'].v
        src = 'def __init__(self%s%s):\n' % (
            ', *' if kw_only and params else '',
            ''.join(', ' + p for p in params))
        src += ''.join('    self.%s = %s\n' % (n, n) for n, _d in fields) \
            or '    pass\n'
        if '__post_init__' in cls.attrs:
            src += '    self.__post_init__()\n'
        names = [n for n, _d in fields]
        cls.attrs['__dataclass_fields__'] = K(tuple(names))
        if not (isinstance(opts.get('eq'), K) and opts['eq'].v is False):
            tup = '(%s)' % ''.join('%%s.%s, ' % n for n in names)
            src += ('def __eq__(self, other):\n'
                    '    if other.__class__ is not self.__class__:\n'
                    '        return NotImplemented\n'
                    '    return %s == %s\n') % (
                        tup % tuple(['self'] * len(names)),
                        tup % tuple(['other'] * len(names)))
        tree = ast.parse(src)
        for node_ in ast.walk(tree):
            for child in ast.iter_child_nodes(node_):
                child._parent = node_
        module = fr.func.module if fr.func else None
        for node in tree.body:
            if node.name in cls.attrs and node.name != '__eq__':
                continue
            f = FuncRef(node, module, closure=fr.env, name=node.name)
            f.cls = cls
            cls.attrs[node.name] = f
        # slots=True only forbids attributes other than the fields
        for o in ('order', 'unsafe_hash'):
            if isinstance(opts.get(o), K) and opts[o].v:
                cls.attrs['__unmodelled__'] = K('dataclass(%s=True)' % o)
        if isinstance(opts.get('frozen'), K) and opts['frozen'].v:
            cls.attrs['__frozen__'] = K(True)
        return cls

    def enum_lookup(self, interp, cls, args):
        """EnumClass(value) -> the member with that value."""
        members, _o = cls.lookup('__enum_members__')
        if len(args) != 1:
            raise Inexact('enum call with %d arguments' % len(args))
        from . import models
        for m in members.items:
            if interp.truth(models.compare(interp, ast.Eq(),
                                           m.fields['value'], args[0])):
                return m
        from .absint import AbsRaise
        raise AbsRaise(T('exc', 'ValueError', 'not a valid member'))

    # -- convenience for rules ---------------------------------------------------
    def get(self, modname, name):
        env = self.env(modname)
        if name not in env:
            raise AnalysisError('anchor vanished: %s.%s' % (modname, name))
        return env[name]

    def cls(self, modname, name):
        v = self.get(modname, name)
        if not isinstance(v, ClassRef):
            raise AnalysisError('%s.%s is not a class' % (modname, name))
        return v

    def func(self, modname, qualname):
        parts = qualname.split('.')
        v = self.get(modname, parts[0])
        for p in parts[1:]:
            if not isinstance(v, ClassRef):
                raise AnalysisError('anchor vanished: %s.%s' %
                                    (modname, qualname))
            m, _o = v.lookup(p)
            if m is None:
                raise AnalysisError('anchor vanished: %s.%s' %
                                    (modname, qualname))
            v = m
        if isinstance(v, PropertyV):
            v = v.fget
        if isinstance(v, (StaticV, ClassMethodV)):
            v = v.func
        if not isinstance(v, FuncRef):
            raise AnalysisError('%s.%s is not a function (%r)' %
                                (modname, qualname, v))
        return v

    def const(self, modname, name):
        """Python value of a folded module constant."""
        return to_python(self.get(modname, name), '%s.%s' % (modname, name))


def to_python(v, what='value'):
    from .values import RegexV, SetV
    if isinstance(v, K):
        return v.v
    if isinstance(v, (ListV, TupleV)):
        seq = [to_python(x, what) for x in v.items]
        return seq if isinstance(v, ListV) else tuple(seq)
    if isinstance(v, SetV):
        return set(to_python(x, what) for x in v.items)
    if isinstance(v, DictV):
        if v.unknown:
            raise AnalysisError('%s: dict with non-constant keys' % what)
        return {to_python(k, what): to_python(x, what)
                for k, x in zip(v.keys, v.vals)}
    if isinstance(v, (RegexV, FuncRef, ClassRef, ExtRef)):
        return v
    raise AnalysisError('%s does not fold to a constant (%r)' % (what, v))
