"""Shared driver for the inspector properties (C01, C02, C03, C05, C07):
runs the abstract streaming model (core/inspmodel.py) for a matrix of
(inspector class, image, schedule) on all cores."""
import multiprocessing
import os

from ..core import inspmodel as M
from ..core.loader import AnalysisError
from ..specs import formats, images

CLASSES = {
    'raw': 'RawFileInspector', 'qcow2': 'QcowInspector',
    'qed': 'QEDInspector', 'vhd': 'VHDInspector', 'vhdx': 'VHDXInspector',
    'vmdk': 'VMDKInspector', 'vdi': 'VDIInspector', 'iso': 'ISOInspector',
    'gpt': 'GPTInspector', 'luks': 'LUKSInspector',
}
SCHED = {s.name: s for s in M.SCHEDULES}
_CTX = None
_IMAGES = None
SECOND_RUN = [False]    # C01: a second instance reads the same stream


def registry(ctx):
    """format name -> class name from ALL_FORMATS of the analysed tree."""
    from ..core.values import ClassRef
    table = ctx.world.const(M.MOD, 'ALL_FORMATS')
    out = {}
    for k, v in table.items():
        if not isinstance(v, ClassRef):
            raise AnalysisError('ALL_FORMATS[%r] is not a class' % k)
        out[k] = v.name
    return out


def _work(task):
    fmt_cls, key, sched_name = task
    img = _IMAGES[key]
    try:
        from ..core.loader import Budget
        with Budget(int(os.environ.get('SA_TASK_BUDGET', '240')),
                    'the run of %s on %r under %s' % task):
            model = M.StreamModel(_CTX, fmt_cls)
            queries = sched_name.endswith('+queries')
            outs = model.run(img, SCHED[sched_name.split('+')[0]],
                             second_run=SECOND_RUN[0] and not queries,
                             mid_safety=queries)
    except AnalysisError as e:
        return task, {'failure': 'analysis: %s' % e}
    except Exception as e:    # pragma: no cover - reported as undecided
        import traceback
        return task, {'failure': 'crash: %s' % traceback.format_exc()[-600:]}
    if len(outs) != 1:
        return task, {'failure': '%d paths (a condition could not be '
                      'evaluated on the image): %s' % (
                          len(outs), [o.notes for o in outs][:2])}
    o = outs[0]
    if o.kind != 'return' or not o.exact:
        return task, {'failure': 'path %s %s' % (o.brief()[:120], o.notes)}
    res = dict(o.state)
    res['n_assumptions'] = len(o.assumptions)
    return task, res


def run_matrix(ctx, tasks, imgs):
    """tasks: [(class name, image key, schedule name)], imgs: {key: bytes}
    -> {task: result dict}."""
    global _CTX, _IMAGES
    _CTX, _IMAGES = ctx, imgs
    # make sure the module environment is evaluated before forking
    ctx.world.env(M.MOD)
    n = min(int(os.environ.get('SA_POOL', '16')), os.cpu_count() or 1,
            max(1, len(tasks) // 8))
    if n <= 1 or os.environ.get('SA_SERIAL'):
        return dict(_work(t) for t in tasks)
    mp = multiprocessing.get_context('fork')
    with mp.Pool(n) as pool:
        tasks = sorted(tasks, key=lambda t: -len(imgs[t[1]]))
        return dict(pool.imap_unordered(_work, tasks, chunksize=2))


def family(fmt, thorough):
    return list(images.GENERATORS[fmt](thorough))


def val(x):
    """('value', v) -> v ; anything else -> the marker itself."""
    if isinstance(x, tuple) and len(x) == 2 and x[0] == 'value':
        return x[1]
    return x


def describe(x):
    if isinstance(x, tuple) and len(x) == 2 and x[0] == 'value':
        return repr(x[1])
    return str(x)
