"""C01 - the inspection verdict depends on the bytes only, never on the
chunking."""
import itertools

from ..core import inspmodel as M
from ..core.loader import AnalysisError
from ..core.table import extract, inexact_notes, outcome_at
from ..core.termeval import ev, CannotEval, Raised
from ..core.values import K, T, Obj, DictV, show
from ..specs import formats, images
from . import _insp

MOD = M.MOD
FORMATS = ('qcow2', 'qed', 'vhd', 'vhdx', 'vmdk', 'vdi', 'iso', 'luks',
           'gpt')


def run(ctx):
    rep = ctx.report
    rep.explanation = (
        'Capture engine: one step of FileInspector.eat_chunk on a region '
        'with symbolic offset / length / min_length / data / stream '
        'position is extracted as a table (CaptureRegion and '
        'EndCaptureRegion, with the completeness gating of _capture) and '
        'folded over every stream up to a small length x every chunking '
        '(empty chunks included) x every offset / length / window size; the '
        'retained bytes must equal the stream bytes at the region offsets '
        'after every chunk.  Orchestration: every inspector is run through '
        'its real eat_chunk / post_process / region_complete code under '
        'four chunk schedules on image families (abstract capture model); '
        'final complete / match / size / safety must not depend on the '
        'schedule.  Region geometry: a region defined while streaming must '
        'not start before data already consumed; tail windows must exist '
        'from the start.')
    rep.rule('R1.0', 'capture step table folded over all small streams and '
             'chunkings: retained bytes == stream[offset:offset+length] '
             '(prefix of it for min_length regions); tail window == last N '
             'bytes; offset bookkeeping')
    rep.rule('R1.2', 'final verdict (complete, match, size, safety) is the '
             'same under every chunk schedule')
    rep.rule('R1.5', 'tail windows (EndCaptureRegion) are registered before '
             'streaming starts')
    rep.rule('R1.9', 'a new inspector starts from the same state whatever '
             'was inspected before it (no state shared between instances)')
    rep.rule('R1.8', 'per image and schedule: no region is defined at an '
             'offset lying before the start of the chunk being processed '
             '(its bytes went by in earlier chunks; one big chunk still '
             'delivers them, so the verdict depends on the chunking)')
    rep.rule('R1.6', 'a region defined while streaming does not start '
             'before the end of the regions it was located from')
    rep.rule('R1.7', 'InspectWrapper feeds every inspector the same '
             'unmodified chunk (see also C06)')
    _capture_fold(ctx)
    _schedules(ctx)
    from . import c06
    rep.rule('R6.1', 'R1.7: chunks are delivered unmodified')
    rep.rule('R6.2', 'R1.7: every inspector is fed every chunk, whether or '
             'not format/formats were queried in between')
    rep.rule('R6.4', 'R1.7: EOF handling')
    c06.query_invariance(ctx)


# ------------------------------------------------------------------ R1.0
OFF, LEN, MINL, DATA, POS, CHUNK, NWIN = [T('sym', n) for n in (
    'offset', 'length', 'min_length', 'data', 'position', 'chunk', 'window')]


def _step_table(ctx, kind, with_min):
    """One eat_chunk step of a raw inspector holding one region."""
    world = ctx.world
    insp_cls = world.cls(MOD, 'RawFileInspector')
    reg_cls = world.cls(MOD, 'CaptureRegion' if kind == 'region'
                        else 'EndCaptureRegion')
    holder = {}

    def thunk(interp):
        insp = interp.call(insp_cls, [])
        if kind == 'region':
            args = [OFF, LEN] + ([MINL] if with_min else [])
            r = interp.call(reg_cls, args)
        else:
            r = interp.call(reg_cls, [NWIN])
            r.fields['offset'] = T('sym', 'win_offset')
        interp.call(interp.get_attr(insp, 'new_region'), [K('r'), r])
        r.fields['data'] = DATA
        insp.fields[M.private_names(world)['position']] = POS
        holder['r'], holder['insp'] = r, insp
        interp.effects[:] = []
        interp.call(interp.get_attr(insp, 'eat_chunk'), [CHUNK])
        return K(None)

    def capture(interp):
        r, insp = holder['r'], holder['insp']
        out = {'data': r.fields.get('data'),
               'pos': insp.fields.get(
                   M.private_names(world)['position']),
               'offset': r.fields.get('offset')}
        try:
            out['complete'] = interp.get_attr(r, 'complete')
        except Exception:
            out['complete'] = None
        return out

    def setup(interp):
        for s in (OFF, LEN, MINL, POS, NWIN, T('sym', 'win_offset')):
            interp.types[s] = 'int'
        interp.types[DATA] = 'bytes'
        interp.types[CHUNK] = 'bytes'
        interp.not_none[MINL] = True
    outs, _i = extract(world, thunk, setup=setup, capture=capture, depth=6)
    return outs


def _chunkings(n, with_empty):
    for cuts in itertools.product((0, 1), repeat=max(n - 1, 0)):
        sizes, cur = [], 1
        for c in cuts:
            if c:
                sizes.append(cur)
                cur = 1
            else:
                cur += 1
        if n:
            sizes.append(cur)
        yield sizes
        if with_empty and n:
            yield [0] + sizes
            yield sizes[:1] + [0] + sizes[1:] + [0]


def _capture_fold(ctx):
    rep = ctx.report
    rep.analysed('imageutils.format_inspector.CaptureRegion.capture',
                 'imageutils.format_inspector.EndCaptureRegion.capture',
                 'imageutils.format_inspector.FileInspector._capture',
                 'imageutils.format_inspector.FileInspector.eat_chunk',
                 'imageutils.format_inspector.CaptureRegion.complete')
    nmax = 8 if ctx.thorough else 6
    for kind, with_min in (('region', False), ('region', True),
                           ('tail', False)):
        key = {'region': 'CaptureRegion', 'tail': 'EndCaptureRegion'}[kind] \
            + (' with min_length' if with_min else '')
        outs = _step_table(ctx, kind, with_min)
        notes = inexact_notes(outs)
        if notes:
            rep.undecided('R1.0', key, 'step extraction inexact: %s' % notes)
            continue
        rep.count('paths of one capture step (%s)' % key, len(outs),
                  floor=1)
        bad = None
        n_cases = 0
        try:
            for n in range(0, nmax + 1):
                stream = bytes((0x61 + (i * 7 + i // 3) % 3)
                               for i in range(n))
                for sizes in _chunkings(n, with_empty=n <= 4):
                    if kind == 'region':
                        params = [(o, l, m) for o in range(0, n + 2)
                                  for l in range(0, n + 3)
                                  for m in ((1, 2, l) if with_min
                                            else (None,))
                                  if m is None or 0 < m <= max(l, 1)]
                    else:
                        params = [(None, w, None) for w in range(1, n + 3)]
                    for (o, l, m) in params:
                        n_cases += 1
                        msg = _fold(outs, kind, stream, sizes, o, l, m)
                        if msg and bad is None:
                            bad = (stream, sizes, o, l, m, msg)
        except CannotEval as e:
            rep.undecided('R1.0', key, 'cannot evaluate the step table: %s'
                          % e)
            continue
        rep.evaluations += n_cases
        rep.case({'engine': key, 'streams up to': nmax,
                  'cases folded': n_cases}, ('fold', key))
        rep.check('R1.0', key, bad is None,
                  '%d (stream, chunking, geometry) cases: retained bytes '
                  'equal the stream bytes' % n_cases if bad is None else
                  'stream %r cut as %s, offset=%s length/window=%s '
                  'min_length=%s: %s' % bad,
                  case=None if bad is None else {
                      'stream': bad[0].decode(), 'chunks': bad[1],
                      'offset': bad[2], 'length': bad[3],
                      'min_length': bad[4]})


def _fold(outs, kind, stream, sizes, off, length, minl):
    data, pos = b'', 0
    win_off = length if kind == 'tail' else off
    done = False
    p = 0
    for sz in sizes:
        chunk = stream[p:p + sz]
        p += sz
        val = {DATA: data, POS: pos, CHUNK: chunk}
        if kind == 'region':
            val[OFF], val[LEN] = off, length
            if minl is not None:
                val[MINL] = minl
        else:
            val[NWIN] = length
            val[T('sym', 'win_offset')] = win_off
        o = outcome_at(outs, val)
        if o.kind != 'return':
            return 'the step %s' % o.brief()
        st = o.state
        try:
            data = ev(st['data'], val)
            pos = ev(st['pos'], val)
            if kind == 'tail':
                win_off = ev(st['offset'], val)
        except Raised as r:
            return 'evaluating the step raises %s' % r.name
        if pos != p:
            return 'stream position %r after %d bytes' % (pos, p)
        if kind == 'region':
            ideal = stream[off:off + length][:max(p - off, 0)]
            if minl is None:
                if data != ideal:
                    return 'after %d bytes the region holds %r, the ' \
                           'stream has %r there' % (p, data, ideal)
            else:
                full = stream[off:off + length]
                if not full.startswith(data) or (
                        len(data) < min(minl, len(ideal))):
                    return 'after %d bytes the region holds %r, not a ' \
                           'sufficient prefix of %r' % (p, data, full)
        else:
            want = stream[:p][-length:] if length else b''
            if data != want:
                return 'after %d bytes the tail window holds %r, the last ' \
                       '%d bytes are %r' % (p, data, length, want)
            if win_off != p - len(data):
                return 'window offset %r, required %d' % (win_off,
                                                          p - len(data))
    return None


# ------------------------------------------------------------------ R1.2 ...
def _schedules(ctx):
    rep = ctx.report
    reg = _insp.registry(ctx)
    tasks, imgs, meta = [], {}, {}
    for fmt in FORMATS:
        if fmt not in reg:
            raise AnalysisError('format %s vanished from ALL_FORMATS' % fmt)
        rep.analysed('imageutils.format_inspector.%s.post_process' %
                     reg[fmt])
        fam = _insp.family(fmt, ctx.thorough)
        if fmt == 'vmdk':
            fam = fam + [('text: ' + l, d) for l, d in
                         _insp.family('text', ctx.thorough)]
            fam.append(('text: non-text byte after the first 64',
                        b'#' * 100 + b'\xff' + b'#' * 800))
        if fmt == 'vhdx':
            fam.append(('hostile: metadata pointer into the header area',
                        images.vhdx(meta_off=64 * 1024,
                                    length=512 * 1024)))
            fam.append(('hostile: size item inside the metadata table',
                        images.vhdx(item_off=2048, meta_pads=100,
                                    size=777)))
        for label, data in fam:
            key = '%s|%s' % (fmt, label)
            imgs[key] = data
            meta[key] = (fmt, label)
            for s in M.SCHEDULES:
                tasks.append((reg[fmt], key, s.name))
            # the same stream with safety_check() asked after every chunk
            for s in ('giant+queries', 'two-step+queries'):
                tasks.append((reg[fmt], key, s))
    _insp.SECOND_RUN[0] = True
    try:
        results = _insp.run_matrix(ctx, tasks, imgs)
    finally:
        _insp.SECOND_RUN[0] = False
    rep.count('inspector x image x schedule runs', len(results), floor=1000)
    groups = {}
    for (cls, key, sched), res in results.items():
        groups.setdefault(key, {})[sched] = res
    diffs, und, n_ok = {}, {}, {}
    seen_classes = set()
    geometry, tails, behind, stale, shared = {}, {}, {}, {}, {}
    for key, by in sorted(groups.items()):
        fmt, label = meta[key]
        cls_key = _class_of(fmt, label)
        verdicts = {}
        for sched, res in by.items():
            if 'failure' in res:
                und.setdefault(cls_key, (label, sched, res['failure']))
                continue
            f = res['final']
            if any(isinstance(f[k], tuple) and f[k][0] == 'unevaluable'
                   for k in ('complete', 'format_match', 'virtual_size')):
                und.setdefault(cls_key, (label, sched, 'an observation is '
                                         'a term the model cannot '
                                         'evaluate'))
                continue
            verdicts[sched] = (f['complete'], f['format_match'],
                               f['virtual_size'], f.get('safety'),
                               res.get('error') and res['error'][1])
            # geometry of regions defined while streaming
            for name, g in (res.get('regions') or {}).items():
                if g and g[0] == 'unevaluable':
                    continue
            _geometry(fmt, label, res, geometry, tails, behind, sched)
            fb, fa = res.get('fresh_before'), res.get('fresh_after')
            if fb is not None and fa is not None and fb != fa:
                stale.setdefault(fmt, (label, sched, fb, fa))
            if res.get('shared'):
                shared.setdefault(fmt, (label, sched, res['shared']))
        errs = set(v[4] for v in verdicts.values())
        if errs == {'ImageFormatError'}:
            # the inspector itself refused the stream, in every schedule
            cls_key = cls_key + ' refused stream'
        n_ok[cls_key] = n_ok.get(cls_key, 0) + 1
        seen_classes.add(cls_key)
        rep.evaluations += len(verdicts)
        if len(set(verdicts.values())) > 1:
            ref = verdicts.get('giant')
            other = next((s, v) for s, v in sorted(verdicts.items())
                         if v != ref)
            diffs.setdefault(cls_key, (label, 'giant', ref) + other)
        rep.nontrivial.add((cls_key, str(sorted(set(map(str,
                                                        verdicts.values()
                                                        )))))[:300])
    for cls_key in sorted(seen_classes | set(und)):
        if cls_key in und:
            rep.undecided('R1.2', 'schedule-independence[%s]' % cls_key,
                          'image %r, schedule %s: %s' % und[cls_key])
            continue
        d = diffs.get(cls_key)
        rep.check('R1.2', 'schedule-independence[%s]' % cls_key, d is None,
                  '%d images give the same verdict under all %d schedules'
                  % (n_ok.get(cls_key, 0), len(M.SCHEDULES)) if d is None
                  else 'image %r: schedule %s gives (complete, match, size, '
                  'safety, stream error)=%s but schedule %s gives %s' % (
                      d[0], d[1], _show(d[2]), d[3], _show(d[4])),
                  case=None if d is None else {'image': d[0],
                                               'schedules': [d[1], d[3]]})
    for k, (label, detail) in sorted(geometry.items()):
        rep.check('R1.6', k, False, 'image %r: %s' % (label, detail),
                  case={'image': label})
    if not geometry:
        rep.check('R1.6', 'region geometry', True, 'every region defined '
                  'while streaming starts at or after the end of the '
                  'regions present when it was defined')
    for fmt in FORMATS:
        d = shared.get(fmt)
        rep.check('R1.9', 'instances share no state[%s]' % fmt, d is None,
                  'two inspectors that read the same stream have no mutable '
                  'object in common' if d is None else
                  'after image %r (schedule %s) was read by two inspector '
                  'instances, both hold the same %s (first: %s, second: %s'
                  '%s): what one of them parses changes what the other '
                  'reports' % (d[0], d[1], d[2][0][2], d[2][0][0],
                               d[2][0][1], '; it is ' + d[2][0][3]
                               if d[2][0][3] else ''))
        d = stale.get(fmt)
        rep.check('R1.9', 'fresh inspector[%s]' % fmt, d is None,
                  'a new inspector reports the same initial state before '
                  'and after another stream was inspected' if d is None else
                  'after image %r (schedule %s) a NEW inspector reports %s '
                  'instead of %s before seeing any data: state is shared '
                  'between instances' % (d[0], d[1], str(d[3])[:200],
                                         str(d[2])[:200]))
    for k, (label, detail) in sorted(behind.items()):
        rep.check('R1.8', k, False, 'image %r: %s' % (label, detail),
                  case={'image': label})
    if not behind:
        rep.check('R1.8', 'regions behind the stream', True, 'in no image x '
                  'schedule run is a region defined at an offset that '
                  'earlier chunks have already passed')
    for k, (label, detail) in sorted(tails.items()):
        rep.check('R1.5', k, False, 'image %r: %s' % (label, detail),
                  case={'image': label})
    if not tails:
        rep.check('R1.5', 'tail windows', True, 'no tail window is created '
                  'while streaming')


def _class_of(fmt, label):
    if fmt == 'vmdk' and label.startswith('text: '):
        if 'non-text byte after the first 64' in label:
            return 'vmdk text header'
        return 'vmdk text descriptor'
    return fmt


def _show(v):
    if v is None:
        return 'n/a'
    return '(%s)' % ', '.join(_insp.describe(x) for x in v)


def _geometry(fmt, label, res, geometry, tails, behind=None, sched=None):
    if behind is None:
        behind = {}
    regs = res.get('regions') or {}
    static = set(res.get('static_regions') or ())
    ends = {}
    for name, g in regs.items():
        if not g or g[0] == 'unevaluable':
            continue
    for name, info in (res.get('born') or {}).items():
        kind, off, floor, chunk_floor = info
        if kind != 'tail' and off is not None and chunk_floor is not None \
                and off < chunk_floor and sched is not None:
            behind.setdefault(
                'region %s[%s] behind the stream: image %r, schedule %s' % (
                    fmt, name, label, sched),
                (label, 'region %r is defined at offset %d while chunks '
                 'that ended at %d or later have already been consumed: '
                 'bytes %d..%d of the region are gone, yet a single chunk '
                 'delivers them' % (name, off, chunk_floor, off,
                                    chunk_floor - 1)))
        if kind == 'tail':
            tails.setdefault('tail window %s[%s]' % (fmt, name), (
                label, 'the last-N-bytes window %r is created while '
                'streaming, so bytes that went by before it existed are '
                'missing from it on short streams' % name))
        elif off is not None and floor is not None and off < floor:
            geometry.setdefault('region %s[%s] offset' % (fmt, name), (
                label, 'region %r is defined at offset %d, before the end '
                '(%d) of the data it was located from: those bytes may '
                'already have gone by, and later bytes are then captured '
                'as if they were the region' % (name, off, floor)))
