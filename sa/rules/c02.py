"""C02 - the safety check is fail-closed."""
import itertools

from ..core import inspmodel as M
from ..core.absint import AbsRaise
from ..core.loader import AnalysisError
from ..core.table import extract, inexact_notes
from ..core.values import K, T, Obj, DictV, ListV, AbsFunc, ExtRef, show
from ..specs import formats, images
from . import _insp

FORMATS = ('qcow2', 'qed', 'vhd', 'vhdx', 'vmdk', 'vdi', 'iso', 'luks',
           'gpt')
REFERENCE_CHECKS = {
    'qcow2': {'backing_file', 'data_file', 'unknown_features'},
    'vmdk': {'descriptor'}, 'qed': {'banned'}, 'gpt': {'mbr'},
    'luks': {'version'},
}
NULL_OK = ('raw', 'vhd', 'vhdx', 'vdi', 'iso')


def run(ctx):
    rep = ctx.report
    rep.explanation = (
        'Aggregator: FileInspector.safety_check and SafetyCheck.__call__ '
        'are extracted for every combination of complete x format_match x '
        'per-check outcome (passes, returns a value, SafetyViolation, '
        'other exception) for 0..3 registered checks.  Byte-level checks: '
        'every inspector is driven through its real streaming code by the '
        'abstract interpreter (capture arithmetic abstracted, region data '
        'symbolic) and its safety verdict is evaluated for a family of '
        'images with every safe / unsafe trait of the property (feature '
        'bits, versions, backing offsets, descriptor line classes and '
        'createType spellings, MBR tables, footer perturbations, '
        'truncations) under four chunk schedules, against a reference '
        'decoder written from the format specifications.  Registered check '
        'sets are compared with the reference sets; cli.main is extracted '
        'over the outcomes of detection and of the check.')
    rep.rule('R2.1', 'safety_check returns normally iff complete, matching '
             'and every check passed; an error inside a check is a failure '
             'of that check; every check runs')
    rep.rule('R2.3', 'each format registers at least its reference checks; '
             'only raw/vhd/vhdx/vdi/iso may rely on the null check')
    rep.rule('R2.4', 'safety verdict of every image equals the verdict the '
             'property prescribes (reference decoder), under every schedule')
    rep.rule('R2.7', 'the command-line checker exits 0 only when detection '
             'and the safety check both succeeded')
    _aggregator(ctx)
    _images(ctx)
    _cli(ctx)
    # detection as used by the command-line checker must not forget an
    # inspector that matched and then refused the stream: the image would be
    # classified raw and accepted
    from . import c03
    rep.rule('R2.8', 'detection keeps counting a format whose inspector '
             'matched and then failed (otherwise an image the inspector '
             'refused is classified raw and passes)')
    wcls = ctx.world.cls(M.MOD, 'InspectWrapper')
    c03._table_case(ctx, wcls, None, ((False, True), (False, False),
                                      (False, False)), True,
                    faults={'qcow2': {0: 'ImageFormatError'}}, reads=1,
                    rule='R2.8')
    c03._table_case(ctx, wcls, None, ((True, True), (False, True),
                                      (False, False)), True,
                    faults={'vhd': {0: 'ValueError'}}, reads=1, rule='R2.8')


# ------------------------------------------------------------------ R2.1
OUTCOMES = ('pass', 'violation', 'error', 'base')


def _aggregator(ctx):
    rep, world = ctx.report, ctx.world
    cls = world.cls(M.MOD, 'RawFileInspector')
    check_cls = world.cls(M.MOD, 'SafetyCheck')
    viol = world.cls(M.MOD, 'SafetyViolation')
    rep.analysed('imageutils.format_inspector.FileInspector.safety_check',
                 'imageutils.format_inspector.SafetyCheck.__call__',
                 'imageutils.format_inspector.FileInspector.add_safety_check')
    n = 0
    for complete in (True, False):
        for match in (True, False):
            for k in (0, 1, 2, 3):
                for combo in itertools.product(OUTCOMES, repeat=k):
                    n += 1
                    _agg_case(ctx, cls, check_cls, viol, complete, match,
                              combo)
    rep.count('aggregator cases', n, floor=300)


def _agg_case(ctx, cls, check_cls, viol, complete, match, combo):
    rep, world = ctx.report, ctx.world
    label = 'complete=%s match=%s checks=%s' % (complete, match,
                                                list(combo))

    def target(i, outcome):
        def beh(interp, a, kw):
            interp.effect('check-ran', K(i))
            if outcome == 'pass':
                return K(None)
            if outcome == 'value':
                return K('reason')
            if outcome == 'violation':
                raise AbsRaise(interp.call(viol, [K('unsafe')]))
            if outcome == 'base':
                raise AbsRaise(T('exc', 'KeyboardInterrupt'))
            raise AbsRaise(T('exc', 'KeyError', 'boom'))
        return AbsFunc('check%d' % i, beh)

    def thunk(interp):
        insp = interp.call(cls, [])
        insp.fields[M.private_names(world)['checks']] = DictV()
        for i, oc in enumerate(combo):
            chk = interp.call(check_cls, [K('c%d' % i), target(i, oc)])
            interp.call(interp.get_attr(insp, 'add_safety_check'), [chk])
        insp.fields['complete'] = K(complete)
        insp.fields['format_match'] = K(match)
        interp.effects[:] = []
        return interp.call(interp.get_attr(insp, 'safety_check'), [])
    outcomes, _i = extract(world, thunk, depth=6)
    key = 'safety_check[%s checks]' % len(combo)
    notes = inexact_notes(outcomes)
    if notes or len(outcomes) != 1:
        rep.undecided('R2.1', key, '%s: %d paths %s' % (label,
                                                        len(outcomes),
                                                        notes))
        return
    o = outcomes[0]
    ran = [e[1].v for e in o.effects if e[0] == 'check-ran']
    rep.case({'case': label, 'outcome': o.brief()[:80], 'ran': ran},
             (complete, match, combo, o.kind, o.exc_class))
    if not complete or not match:
        ok = o.kind == 'raise' and o.exc_class == 'ImageFormatError' and \
            not ran
        want = 'ImageFormatError before any check runs'
    elif 'base' in combo:
        # a BaseException (KeyboardInterrupt) is not a check failure: it
        # must propagate - in any case there is no normal return
        ok = o.kind == 'raise'
        want = 'an exception (no normal return)'
    else:
        failing = {'c%d' % i for i, oc in enumerate(combo)
                   if oc in ('violation', 'error')}
        if failing:
            got = None
            if o.kind == 'raise' and o.exc_class == 'SafetyCheckFailed' \
                    and isinstance(o.value, Obj):
                f = o.value.fields.get('failures')
                if isinstance(f, DictV):
                    got = {k.v for k in f.keys}
            ok = got == failing and ran == list(range(len(combo)))
            want = 'SafetyCheckFailed naming %s after running every ' \
                   'check' % sorted(failing)
        else:
            ok = o.kind == 'return' and ran == list(range(len(combo)))
            want = 'a normal return after running every check'
    rep.check('R2.1', key, ok, '%s: %s, checks run %s; required %s' % (
        label, o.brief()[:100], ran, want), case=label)


# ------------------------------------------------------------------ R2.3/4
def _images(ctx):
    rep = ctx.report
    reg = _insp.registry(ctx)
    tasks, imgs, meta = [], {}, {}
    for fmt in FORMATS:
        if fmt not in reg:
            raise AnalysisError('format %s vanished from ALL_FORMATS' % fmt)
        rep.analysed('imageutils.format_inspector.%s' % reg[fmt])
        for label, data in _insp.family(fmt, ctx.thorough):
            key = '%s|%s' % (fmt, label)
            imgs[key] = data
            meta[key] = (fmt, label)
            for s in M.SCHEDULES:
                tasks.append((reg[fmt], key, s.name))
    results = _insp.run_matrix(ctx, tasks, imgs)
    rep.count('inspector x image x schedule runs', len(results), floor=1000)
    bad, undecided, n_ok, checks = {}, {}, {}, {}
    for (cls, key, sched), res in sorted(results.items()):
        fmt, label = meta[key]
        if 'failure' in res:
            undecided.setdefault(fmt, (label, sched, res['failure']))
            continue
        want = formats.SPECS[fmt](imgs[key]).safety
        got = res['final'].get('safety')
        n_ok[fmt] = n_ok.get(fmt, 0) + 1
        if res.get('checks') is not None and 'clean' in label or \
                'footer consistent' in label:
            checks.setdefault(fmt, set()).update(res['checks'] or ())
        if len(rep.samples) < 12 and sched == 'giant' and \
                got not in ('ok', 'refused'):
            rep.case({'format': fmt, 'image': label, 'verdict': str(got)},
                     (fmt, label, str(got)))
        else:
            rep.evaluations += 1
            rep.nontrivial.add((fmt, str(got)))
        if want is None or want == 'refused-or-error':
            # outside the layouts the property specifies: must at least
            # not be accepted when the reference says refused-or-error
            if want == 'refused-or-error' and got == 'ok':
                bad.setdefault(fmt, (label, sched, got, 'not accepted'))
            continue
        if _verdict_class(got) != _verdict_class(want):
            bad.setdefault(fmt, (label, sched, got, want))
    for fmt in FORMATS:
        if fmt in undecided:
            rep.undecided('R2.4', 'safety[%s]' % fmt,
                          'image %r, schedule %s: %s' % undecided[fmt])
            continue
        b = bad.get(fmt)
        rep.check('R2.4', 'safety[%s]' % fmt, b is None,
                  '%d runs agree with the reference verdict' % n_ok.get(
                      fmt, 0) if b is None else
                  'image %r under schedule %s: safety_check gives %s, the '
                  'property requires %s' % (b[0], b[1], _fmt(b[2]),
                                            _fmt(b[3])),
                  case=None if b is None else {'image': b[0],
                                               'schedule': b[1]})
    _registration(rep, results, meta)


def _verdict_class(v):
    """accepted / rejected: which checks object, and whether the rejection
    is a SafetyCheckFailed or an ImageFormatError, is not part of the
    property (a refactor may merge or rename checks)."""
    if v == 'ok':
        return 'accepted'
    if v == 'refused' or (isinstance(v, tuple) and v and v[0] == 'fail'):
        return 'rejected'
    return v


def _registration(rep, results, meta):
    # registration (from the clean-image runs, which carry the check names)
    regs = {}
    for (cls, key, sched), res in results.items():
        fmt, label = meta[key]
        if 'failure' not in res and res.get('checks') is not None:
            s = regs.setdefault(fmt, None)
            cur = set(res['checks'])
            regs[fmt] = cur if s is None else (s & cur if 'footer' not in
                                               label else s)
    for fmt in FORMATS:
        have = regs.get(fmt)
        if have is None:
            continue
        need = REFERENCE_CHECKS.get(fmt, set())
        # the names are the implementation's business (checks may be
        # merged or renamed; what they reject is decided by R2.4): only an
        # inspector without any real check is a defect here
        rep.check('R2.3', 'checks[%s]' % fmt, bool(
            have - {'null'} or fmt in NULL_OK) and bool(have),
            'registered on every path: %s (the reference names %s)' % (
                sorted(have), sorted(need) or 'none: null allowed'))
        if not need <= have:
            rep.info('R2.3', 'checks[%s]:names' % fmt, 'check names differ '
                     'from the reference list %s: %s' % (sorted(need),
                                                         sorted(have)))
    # the VMDK footer check is registered together with the footer region
    foot = [res for (cls, key, sched), res in results.items()
            if meta[key][0] == 'vmdk' and 'footer consistent' in
            meta[key][1] and 'failure' not in res]
    if not foot:
        rep.info('R2.3', 'checks[vmdk footer]', 'no evaluable run of an '
                 'image with a footer')
        return
    named = all('footer' in (r.get('checks') or ()) and
                'footer' in r['regions'] for r in foot)
    rep.info('R2.3', 'checks[vmdk footer]', 'an image announcing a footer '
             'gets a region and a check named "footer": %s (what the check '
             'rejects is decided by R2.4 on the footer images)' % named)


def _fmt(v):
    if isinstance(v, tuple) and len(v) == 2 and v[0] == 'fail':
        return 'failure of %s' % sorted(v[1])
    return str(v)


# ------------------------------------------------------------------ R2.7
def _cli(ctx):
    rep, world = ctx.report, ctx.world
    f = world.func('imageutils.cli', 'main')
    rep.analysed('imageutils.cli.main')
    failed_cls = world.cls(M.MOD, 'SafetyCheckFailed')
    fmt_err = world.cls(M.MOD, 'ImageFormatError')
    cases = []
    for exists in (True, False):
        for detect in ('returns', 'ImageFormatError', 'OSError'):
            for safety in ('returns', 'SafetyCheckFailed',
                           'ImageFormatError', 'RuntimeError'):
                for verbose in (False, True):
                    cases.append((exists, detect, safety, verbose))
    for exists, detect, safety, verbose in cases:
        label = 'file %s, detection %s, safety_check %s, verbose=%s' % (
            'exists' if exists else 'missing', detect, safety, verbose)

        def thunk(interp):
            def exc(kind):
                if kind == 'SafetyCheckFailed':
                    return interp.call(failed_cls, [DictV([(K('c'),
                                                            K('why'))])])
                if kind == 'ImageFormatError':
                    return interp.call(fmt_err, [K('bad')])
                return T('exc', kind, 'boom')

            def safety_check(i, a, kw):
                i.effect('safety_check')
                if safety != 'returns':
                    raise AbsRaise(exc(safety))
                return K(None)
            insp = Obj(None, {'safety_check': AbsFunc('safety_check',
                                                      safety_check),
                              'virtual_size': K(1), 'actual_size': K(1),
                              '__str__': AbsFunc('__str__',
                                                 lambda i, a, k: K('raw'))},
                       label='inspector')

            def detect_fn(i, a, kw):
                i.effect('detect')
                if detect != 'returns':
                    raise AbsRaise(exc(detect))
                return insp
            interp.stubs['detect_file_format'] = detect_fn

            def on_call(i, name, fv, args, kwargs):
                if name in ('os.path.exists', 'os.path.isfile'):
                    return K(exists)
                if name == 'sys.exit':
                    i.effect('exit', i.termify(args[0]) if args else K(0))
                    raise AbsRaise(T('exc', 'SystemExit',
                                     i.termify(args[0]) if args else K(0)))
                if name == '.parse_args':
                    return Obj(None, {'image': T('sym', 'path'),
                                      'verbose': K(verbose)}, label='args')
                return NotImplemented
            interp.on_call = on_call
            return interp.call(f, [])
        outcomes, _i = extract(world, thunk, depth=5)
        notes = inexact_notes(outcomes)
        if notes:
            rep.undecided('R2.7', 'cli.main', '%s: %s' % (label, notes))
            continue
        for o in outcomes:
            code = None
            if o.kind == 'raise' and o.exc_class == 'SystemExit':
                code = o.value.args[1]
            rep.case({'case': label, 'outcome': o.brief()[:60]},
                     (label, o.brief()[:60]))
            good = exists and detect == 'returns' and safety == 'returns'
            exit0 = code == K(0) or o.kind == 'return'
            if good:
                ok = code == K(0)
                want = 'exit status 0'
            else:
                ok = not exit0
                want = 'a non-zero exit status or an exception'
            rep.check('R2.7', 'cli.main', ok,
                      '%s: %s; required %s' % (label, o.brief()[:80], want),
                      case=label)
