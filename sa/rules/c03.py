"""C03 - format detection is exclusive, conservative about raw, total."""
import itertools

from ..core import inspmodel as M
from ..core.absint import AbsRaise
from ..core.loader import AnalysisError
from ..core.table import extract, inexact_notes
from ..core.termeval import ev, CannotEval, Raised
from ..core.values import (K, T, Obj, DictV, ListV, SetV, TupleV, AbsFunc,
                           ClassRef, show)
from ..specs import formats, images
from . import _insp
from .c06 import install, source

MOD = M.MOD


def run(ctx):
    rep = ctx.report
    rep.explanation = (
        'InspectWrapper.formats / .format are extracted through the public '
        'constructor with ALL_FORMATS replaced by abstract inspectors, for '
        'every combination of (complete, match) flags of three non-raw '
        'inspectors x raw allowed or not x stream finished or not x '
        'allowed_formats subsets, and compared with the decision table of '
        'the property; decisions sampled after each read must not be '
        'revised.  Every real inspector is run (abstract streaming model, '
        'lazy path enumeration) on the images of every format, on overlays '
        'of signatures, text and binary files and truncations: its '
        'format_match must equal the reference signature test and neither '
        'format_match nor complete may raise in any intermediate state.  '
        'Registry and allow-list; detect_file_format closes the wrapper on '
        'every path.')
    rep.rule('R3.1', 'formats/format decision table (undecided iff '
             'incomplete and not finished; 0 matches -> raw if allowed else '
             'ImageFormatError; 1 -> it; >=2 -> ImageFormatError; raw never '
             'with another)')
    rep.rule('R3.2', 'format_match / complete of every inspector never '
             'raise, in any capture state, on any content')
    rep.rule('R3.3', 'every inspector class is registered under its NAME; '
             'allowed_formats limits the inspectors considered')
    rep.rule('R3.4', 'format_match equals the reference signature test on '
             'every image, overlay and truncation')
    rep.rule('R3.5', 'a decision reported before the end of the stream is '
             'not revised')
    rep.rule('R3.6', 'detect_file_format: wrapper closed on every path; '
             'result is the decided format')
    _table(ctx)
    _registry(ctx)
    _signatures(ctx)
    _detect(ctx)


# ------------------------------------------------------------------ R3.1
NAMES = ('raw', 'qcow2', 'vhd', 'iso')


def _table(ctx):
    rep, world = ctx.report, ctx.world
    cls = world.cls(MOD, 'InspectWrapper')
    rep.analysed('imageutils.format_inspector.InspectWrapper.formats',
                 'imageutils.format_inspector.InspectWrapper.format',
                 'imageutils.format_inspector.InspectWrapper.__init__')
    flags = [(c, m) for c in (False, True) for m in (False, True)]
    allowed_sets = [None, ('raw', 'qcow2', 'vhd', 'iso'), ('qcow2', 'vhd'),
                    ('raw', 'qcow2'), ('iso',), ('raw',), ()]
    n = 0
    for allowed in allowed_sets:
        for combo in itertools.product(flags, repeat=3):
            for finished in (False, True):
                n += 1
                _table_case(ctx, cls, allowed, combo, finished)
    rep.count('formats/format table cases', n, floor=800)
    # formats outside allowed_formats are never considered, whatever the
    # expected format is
    for expected in ('iso', 'raw', 'qcow2', 'zz'):
        for allowed in (('qcow2', 'vhd'), ('raw', 'qcow2'), ('iso',)):
            for combo in (((True, True), (True, False), (True, True)),
                          ((True, False), (True, False), (True, True)),
                          ((True, False), (True, False), (True, False))):
                n += 1
                _table_case(ctx, cls, allowed, combo, True,
                            expected=expected)
    # an empty chunk in the middle is not the end of the stream: what is
    # read after it still counts
    for combo in (((True, True), (True, False), (True, False)),
                  ((True, False), (True, False), (True, True)),
                  ((True, True), (True, False), (True, True))):
        for empties in ({0}, {1}):
            n += 1
            _table_case(ctx, cls, None, combo, True, reads=3,
                        empties=empties, late=True)
    # a source without close(): close() still finishes the inspectors
    for combo in (((False, True), (False, False), (False, False)),
                  ((False, False), (False, False), (False, False)),
                  ((False, True), (False, False), (False, True))):
        n += 1
        _table_case(ctx, cls, None, combo, True, reads=1, closable=False)
    # fault then decision: an inspector that failed still counts as a match
    for finished in (True,):
        _table_case(ctx, cls, None, ((True, True), (False, True),
                                     (False, False)), finished,
                    faults={'vhd': {0: 'ValueError'}}, reads=1)
        _table_case(ctx, cls, None, ((False, True), (False, False),
                                     (False, False)), finished,
                    faults={'qcow2': {0: 'ValueError'}}, reads=1)


def _table_case(ctx, cls, allowed, combo, finished, faults=None, reads=0,
                expected=None, rule='R3.1', empties=(), closable=True,
                late=False):
    rep, world = ctx.report, ctx.world
    plans = {'raw': {'complete': (True,), 'match': (True,)}}
    for name, (c, m) in zip(NAMES[1:], combo):
        plans[name] = {'complete': (c,), 'match': (m,)}
        if late:
            # the flags are reached only once every chunk has been fed
            plans[name] = {'complete': (False,) * (reads - 1) + (c,),
                           'match': (False,) * (reads - 1) + (m,)}
        if faults and name in faults:
            plans[name]['fault'] = faults[name]
    label = 'allowed=%s flags=%s finished=%s%s%s%s%s' % (
        allowed, dict(zip(NAMES[1:], combo)), finished,
        ' faults=%s' % faults if faults else '',
        ' expected_format=%s' % expected if expected else '',
        ' empty chunk(s) at %s of %d reads' % (sorted(empties), reads)
        if empties else '',
        ' source without close()' if not closable else '')
    holder = {}

    def thunk(interp):
        restore, made = install(world, interp, plans)
        try:
            src = source(max(reads, 1), 'file', empties=empties,
                         closable=closable)
            kw = {}
            if allowed is not None:
                kw['allowed_formats'] = ListV([K(a) for a in allowed])
            if expected is not None:
                kw['expected_format'] = K(expected)
            w = interp.call(cls, [src], kw)
            for _ in range(reads):
                interp.call(interp.get_attr(w, 'read'), [K(512)])
            if finished:
                interp.call(interp.get_attr(w, 'close'), [])
            out = []
            for attr in ('formats', 'format'):
                try:
                    out.append(interp.get_attr(w, attr))
                except AbsRaise as r:
                    cn = interp.exc_class_of(r.exc)
                    out.append(K('raise:' + getattr(cn, 'name', '?')))
            return TupleV(out)
        finally:
            restore()
    outcomes, _i = extract(world, thunk, depth=6)
    key = 'InspectWrapper.formats/format'
    notes = inexact_notes(outcomes)
    if notes or not outcomes or any(o.kind != 'return' for o in outcomes):
        rep.undecided(rule, key, '%s: %s %s' % (label, [
            o.brief()[:80] for o in outcomes][:2], notes))
        return
    # several paths (e.g. a branch on the emptiness of the chunk read from
    # the source) are all held to the same table entry
    for o in outcomes:
        _table_entry(rep, rule, key, label, o.value, plans, allowed, combo,
                     finished)


def _table_entry(rep, rule, key, label, v, plans, allowed, combo, finished):
    got_formats, got_format = v.items
    # reference
    considered = [nm for nm in NAMES if allowed is None or not allowed or
                  nm in allowed]
    non_raw = [nm for nm in considered if nm != 'raw']
    complete = all(plans[nm]['complete'][-1] for nm in non_raw)
    matches = [nm for nm in non_raw if plans[nm]['match'][-1]]
    if not complete and not finished:
        want_formats, want_format = None, None
    else:
        if matches:
            want_formats = set(matches)
        else:
            want_formats = {'raw'} if 'raw' in considered else set()
        if len(matches) > 1:
            want_format = 'raise:ImageFormatError'
        elif len(matches) == 1:
            want_format = matches[0]
        else:
            want_format = 'raw' if 'raw' in considered else \
                'raise:ImageFormatError'

    def names(x):
        if isinstance(x, K) and x.v is None:
            return None
        if isinstance(x, K) and isinstance(x.v, str):
            return x.v
        if isinstance(x, (ListV, SetV, TupleV)):
            return {names(i) for i in x.items}
        if isinstance(x, Obj):
            return x.label.replace('insp-', '')
        return show(x)
    gf, g1 = names(got_formats), names(got_format)
    rep.case({'case': label, 'formats': str(gf), 'format': str(g1)},
             (str(allowed), combo, finished, str(gf), str(g1)))
    ok = gf == want_formats and g1 == want_format
    rep.check(rule, key, ok,
              '%s: formats=%s format=%s; the property requires formats=%s '
              'format=%s' % (label, gf, g1, want_formats, want_format),
              case=label)


# ------------------------------------------------------------------ R3.3
def _registry(ctx):
    rep, world = ctx.report, ctx.world
    env = world.env(MOD)
    table = world.const(MOD, 'ALL_FORMATS')
    base = world.cls(MOD, 'FileInspector')
    # the inspectors proper: classes that give themselves a format NAME
    # (private helper bases shared by several inspectors do not)
    classes = [v for v in env.values() if isinstance(v, ClassRef) and
               v is not base and v.is_subclass(base) and
               isinstance(v.attrs.get('NAME'), K) and v.attrs['NAME'].v]
    rep.count('inspector classes', len(classes), floor=10)
    for c in classes:
        name, _o = c.lookup('NAME')
        registered = [k for k, v in table.items() if v is c]
        rep.check('R3.3', 'ALL_FORMATS[%s]' % c.name,
                  isinstance(name, K) and registered == [name.v],
                  'class %s (NAME %s) is registered as %s' % (
                      c.name, show(name), registered))
    for k, v in table.items():
        rep.check('R3.3', 'ALL_FORMATS key %s' % k,
                  isinstance(v, ClassRef) and v.is_subclass(base),
                  'entry %r is an inspector class' % k)


# ------------------------------------------------------------------ R3.2/4/5
def _signatures(ctx):
    rep = ctx.report
    reg = _insp.registry(ctx)
    imgs, meta = {}, {}
    for fmt in ('qcow2', 'qed', 'vhd', 'vdi', 'iso', 'luks', 'gpt', 'vhdx',
                'vmdk', 'text'):
        fam = _insp.family(fmt, ctx.thorough)
        # one clean image, the truncations and the odd ones
        keep = [x for x in fam if any(w in x[0] for w in (
            'clean', 'truncated', 'wrong', 'swapped', 'fat', 'size 1',
            'text', 'zeros', 'pattern', 'empty', 'byte', 'protective mbr',
            'payload 8 length 4096', 'udf', '1000 blocks of 2048',
            'version', 'header only', 'ident', 'qed', 'plain',
            'compact', 'entry first', 'item first'))]
        for label, data in keep:
            imgs['%s|%s' % (fmt, label)] = data
    for label, data in images.polyglots():
        imgs['poly|%s' % label] = data
    tasks = []
    for key in imgs:
        for fmt, cls in sorted(reg.items()):
            for s in ('giant', 'trickle', 'birth-partial', 'two-step',
                      'small-then-giant'):
                tasks.append((cls, key, s))
    results = _insp.run_matrix(ctx, tasks, imgs)
    rep.count('inspector x image x schedule runs', len(results), floor=2000)
    by_cls = {v: k for k, v in reg.items()}
    bad_match, bad_raise, bad_rev, und, n_ok = {}, {}, {}, {}, {}
    for (cls, key, sched), res in sorted(results.items()):
        fmt = by_cls[cls]
        rep.analysed('imageutils.format_inspector.%s.format_match' % cls)
        if 'failure' in res:
            und.setdefault(fmt, (key, sched, res['failure']))
            continue
        n_ok[fmt] = n_ok.get(fmt, 0) + 1
        data = imgs[key]
        obs = list(res['chunks']) + [res['final']]
        skip = False
        for i, o in enumerate(obs):
            for acc in ('format_match', 'complete'):
                if o[acc][0] == 'unevaluable':
                    und.setdefault(fmt, (key, sched, '%s is a term the '
                                         'model cannot evaluate' % acc))
                    skip = True
                elif o[acc][0] != 'value':
                    bad_raise.setdefault(fmt, (key, sched, i, acc, o[acc]))
        if skip:
            continue
        # reference signature test
        if fmt == 'raw':
            want = True
        elif fmt == 'vmdk' and not data[:4] == b'KDMV':
            want = None     # text descriptors: classified by content
            if 'NUL, then the createType line' in key:
                want = False        # the descriptor text ends at the NUL
            if 'text descriptor of ' in key:
                n_ = int(key.split('text descriptor of ')[1].split()[0])
                if n_ < 64:
                    want = False    # fewer bytes than the header minimum
                elif sched == 'giant':
                    want = True     # all text, createType present
        else:
            want = formats.SPECS[fmt](data).match
        got = res['final']['format_match']
        rep.evaluations += 1
        rep.nontrivial.add((fmt, key.split('|')[0], str(got)))
        if want is not None and got != ('value', want) and \
                res.get('error') is None:
            bad_match.setdefault(fmt, (key, sched, got, want))
        # decided (complete and matching) stays decided
        decided = False
        for i, o in enumerate(obs):
            d = o['complete'] == ('value', True) and \
                o['format_match'] == ('value', True)
            if decided and not d and res.get('error') is None:
                bad_rev.setdefault(fmt, (key, sched, i))
            decided = decided or d
    for fmt in sorted(reg):
        if fmt in und:
            rep.undecided('R3.4', 'format_match[%s]' % fmt,
                          'image %r, schedule %s: %s' % und[fmt])
            continue
        b = bad_match.get(fmt)
        rep.check('R3.4', 'format_match[%s]' % fmt, b is None,
                  '%d runs agree with the reference signature test' %
                  n_ok.get(fmt, 0) if b is None else
                  'image %r under schedule %s: format_match is %s, the '
                  'signature test gives %s' % (b[0], b[1],
                                               _insp.describe(b[2]), b[3]),
                  case=None if b is None else {'image': b[0]})
        b = bad_raise.get(fmt)
        rep.check('R3.2', 'format_match/complete[%s] never raise' % fmt,
                  b is None, 'no accessor raises in any observed state'
                  if b is None else
                  'image %r under schedule %s: after chunk %d %s is %s' % (
                      b[0], b[1], b[2], b[3], b[4]),
                  case=None if b is None else {'image': b[0],
                                               'schedule': b[1]})
        b = bad_rev.get(fmt)
        rep.check('R3.5', 'decision[%s] not revised' % fmt, b is None,
                  'complete-and-matching is monotone along every run'
                  if b is None else
                  'image %r under schedule %s: decided before chunk %d, '
                  'undecided after it' % b,
                  case=None if b is None else {'image': b[0],
                                               'schedule': b[1]})
    # exclusivity on the overlays: number of non-raw matches per image
    multi = 0
    for key in imgs:
        if not key.startswith('poly|'):
            continue
        m = [by_cls[c] for (c, k, s), r in results.items()
             if k == key and s == 'giant' and 'failure' not in r and
             by_cls[c] != 'raw' and
             r['final']['format_match'] == ('value', True)]
        want = [f for f in formats.SPECS if f != 'raw' and f != 'vmdk' and
                formats.SPECS[f](imgs[key]).match]
        if imgs[key][:4] == b'KDMV':
            want.append('vmdk')     # the sparse-extent magic
        else:
            m = [x for x in m if x != 'vmdk']   # text descriptors: by content
        if len(want) >= 2:
            multi += 1
        unknown = [(by_cls[c], r.get('failure') or
                    _insp.describe(r['final']['format_match']))
                   for (c, k, s), r in sorted(results.items())
                   if k == key and s == 'giant' and by_cls[c] != 'raw' and (
                       'failure' in r or
                       r['final']['format_match'][0] != 'value')]
        if unknown:
            rep.undecided('R3.4', 'overlay %s' % key[5:], 'the model has no '
                          'answer for %s: %s' % unknown[0])
            continue
        rep.check('R3.4', 'overlay %s' % key[5:], sorted(m) == sorted(want),
                  'matching inspectors %s, signatures present %s' % (
                      sorted(m), sorted(want)))
    rep.count('overlays with two or more signatures', multi, floor=10)


# ------------------------------------------------------------------ R3.6
def _detect(ctx):
    rep, world = ctx.report, ctx.world
    f = world.func(MOD, 'detect_file_format')
    rep.analysed('imageutils.format_inspector.detect_file_format')
    scenarios = [
        ('decided after first read', {'qcow2': {'complete': (True,),
                                                'match': (True,)},
                                      'vhd': {'complete': (True,),
                                              'match': (False,)}}, 'qcow2'),
        ('decided at EOF', {'qcow2': {'complete': (False,),
                                      'match': (True,)},
                            'vhd': {'complete': (False,),
                                    'match': (False,)}}, 'qcow2'),
        ('nothing matches', {'qcow2': {'complete': (True,),
                                       'match': (False,)},
                             'vhd': {'complete': (True,),
                                     'match': (False,)}}, 'raw'),
        ('two match', {'qcow2': {'complete': (True,), 'match': (True,)},
                       'vhd': {'complete': (True,), 'match': (True,)}},
         'raise:ImageFormatError'),
        ('late second match', {'qcow2': {'complete': (True, True, True),
                                         'match': (True, True, True)},
                               'vhd': {'complete': (False, False, True),
                                       'match': (False, False, True)}},
         'raise:ImageFormatError'),
    ]
    old = world.loop_bound
    world.loop_bound = 6
    try:
        for label, plans, want in scenarios:
            plans = dict(plans)
            plans['raw'] = {'complete': (True,), 'match': (True,)}

            def thunk(interp):
                restore, made = install(world, interp, plans)
                src = source(3, 'file')

                def on_call(i, name, fv, args, kwargs):
                    if name == 'open':
                        return src
                    return NotImplemented
                interp.on_call = on_call
                def len_hook(v, val):
                    # every read but the last returns as many bytes as were
                    # asked for (4096); the last one is shorter
                    if isinstance(v, T) and v.op == 'call' and \
                            v.args[0] == 'len' and len(v.args) == 2 and \
                            isinstance(v.args[1], T) and \
                            v.args[1].op == 'sym' and str(
                                v.args[1].args[0]).startswith('chunk'):
                        return 100 if str(v.args[1].args[0]) == 'chunk2' \
                            else 4096
                    return NotImplemented

                def decide(i, t):
                    if isinstance(t, T) and t.op == 'sym' and \
                            str(t.args[0]).startswith('chunk'):
                        return True
                    if isinstance(t, T) and t.op == 'cmp' and \
                            'len(chunk' in show(t):
                        try:
                            return bool(ev(t, {}, [len_hook]))
                        except (CannotEval, Raised):
                            return None
                    return None
                interp.decide = decide
                src.fields['__enter__'] = AbsFunc(
                    '__enter__', lambda i, a, k: src)
                src.fields['__exit__'] = AbsFunc(
                    '__exit__', lambda i, a, k: (i.effect('file.exit'),
                                                 K(None))[1])
                try:
                    return interp.call(f, [T('sym', 'filename')])
                finally:
                    restore()
            outcomes, _i = extract(world, thunk, depth=7)
            key = 'detect_file_format[%s]' % label
            notes = inexact_notes(outcomes)
            if notes or len(outcomes) != 1:
                rep.undecided('R3.6', key, '%d paths %s' % (len(outcomes),
                                                            notes))
                continue
            o = outcomes[0]
            if o.kind == 'raise':
                got = 'raise:%s' % o.exc_class
            else:
                got = o.value.label.replace('insp-', '') if isinstance(
                    o.value, Obj) else show(o.value)
            fin = [e for e in o.effects if e[0] == 'finish']
            closed = [e for e in o.effects if e[0] == 'source.close']
            rep.case({'case': label, 'result': got}, (label, got))
            rep.check('R3.6', key, got == want and len(closed) >= 1 and
                      len(fin) >= 3,
                      '%s: result %s (required %s); source closed %d '
                      'time(s), %d inspectors finished' % (
                          label, got, want, len(closed), len(fin)))
    finally:
        world.loop_bound = old
