"""C04 - mask_password hides every supported secret and changes nothing
else."""
import re

from ..core import regex as R
from ..core.loader import AnalysisError
from ..core.table import extract, inexact_notes
from ..core.termeval import ev, Raised, CannotEval
from ..core.values import K, T, RegexV, DictV, ListV, show
from ..specs.sanitize import REFERENCE_KEYS

MOD = 'strutils'
MSG = T('sym', 'message')
SECRET = T('sym', 'secret')
QUOTES = frozenset(map(ord, '\'"'))
WS = None


def _hook(v, val):
    if isinstance(v, T) and v.op == 'call' and v.args[0] in (
            're.sub', 're.subn', 're.Pattern.sub', 're.Pattern.subn'):
        hooks = [_hook]
        rx = v.args[1]
        repl = ev(v.args[2], val, hooks)
        s = ev(v.args[3], val, hooks)
        if isinstance(rx, T) and rx.op == 'regex':
            c = re.compile(rx.args[0], rx.args[1])
        else:
            c = re.compile(ev(rx, val, hooks))
        extra, kw = [], {}
        for x in v.args[4:]:
            if isinstance(x, T) and x.op == 'kw':
                kw[x.args[0]] = ev(x.args[1], val, hooks)
            else:
                extra.append(ev(x, val, hooks))
        if extra or kw:
            # re.sub(pattern, repl, string, count=0, flags=0)
            fn = getattr(re, v.args[0].rsplit('.', 1)[1]) if \
                v.args[0].startswith('re.s') else None
            try:
                if fn is not None:
                    return fn(c, repl, s, *extra, **kw)
                return getattr(c, v.args[0].rsplit('.', 1)[1])(
                    repl, s, *extra, **kw)
            except (re.error, ValueError):
                raise Raised('re.error')
            except TypeError:
                raise Raised('TypeError')
        try:
            return getattr(c, v.args[0].rsplit('.', 1)[1])(repl, s)
        except re.error:
            raise Raised('re.error')
        except TypeError:
            raise Raised('TypeError')
    if isinstance(v, T) and v.op == 'call' and v.args[0] in (
            're.Pattern.findall', 're.findall', 're.Pattern.search',
            're.search', 're.Pattern.finditer'):
        hooks = [_hook]
        rx = v.args[1]
        c = re.compile(rx.args[0], rx.args[1]) if isinstance(rx, T) and \
            rx.op == 'regex' else re.compile(ev(rx, val, hooks))
        s = ev(v.args[2], val, hooks)
        name = v.args[0].rsplit('.', 1)[1]
        try:
            r = getattr(c, name)(s)
        except TypeError:
            raise Raised('TypeError')
        if name == 'finditer':
            return [m.group(0) for m in r]
        if name == 'search':
            return r is not None
        return r
    return NotImplemented


class Pipeline:
    """mask_password extracted per set of sanitize keys present in the
    lower-cased message (the presence tests are decided from that set)."""

    def __init__(self, ctx, keys):
        self.ctx = ctx
        self.keys = keys
        self.f = ctx.world.func(MOD, 'mask_password')
        self.cache = {}
        self.guided = False

    def outcomes_for(self, present):
        present = frozenset(present)
        if present in self.cache:
            return self.cache[present]
        world = self.ctx.world
        f = self.f

        def decide(interp, t):
            # key in message.lower()
            if isinstance(t, T) and t.op == 'cmp' and t.args[0] == 'in' \
                    and isinstance(t.args[1], K) and \
                    isinstance(t.args[1].v, str):
                hay = t.args[2]
                if isinstance(hay, T) and hay.op == 'mcall' and \
                        hay.args[1] == 'lower' and _is_message(hay.args[0]):
                    return t.args[1].v in present
            return None

        def thunk(interp):
            return interp.call(f, [MSG, SECRET])

        def setup(interp):
            interp.decide = decide
            interp.pure_calls.update({'re.sub', 're.subn', 're.Pattern.sub',
                                      're.Pattern.subn'})
            interp.ret_types['re.subn'] = 'tuple'
            interp.ret_types['re.Pattern.subn'] = 'tuple'
            interp.types[MSG] = 'str'
            interp.types[SECRET] = 'str'
        outs, _i = extract(world, thunk, setup=setup, max_paths=512)
        self.cache[present] = outs
        return outs

    def run_guided(self, message, secret):
        """Lazy enumeration: the one path this message takes (every
        condition is evaluated on the message); used when the key tests are
        not of the form ``key in message.lower()`` and the full table would
        have 2^35 rows."""
        from ..core.absint import Interp
        from ..core.table import outcome_value
        val = {MSG: message, SECRET: secret}
        memo = {}

        def guide(t):
            r = memo.get(t, memo)
            if r is memo:
                try:
                    r = ev(t, val, [_hook])
                except Raised as e:
                    memo[t] = e
                    raise
                memo[t] = r
            elif isinstance(r, Raised):
                raise r
            return r
        interp = Interp(self.ctx.world, inline_depth=6)
        interp.guide = guide
        interp.pure_calls.update({'re.sub', 're.subn', 're.Pattern.sub',
                                  're.Pattern.subn', 're.Pattern.findall',
                                  're.findall', 're.Pattern.search',
                                  're.search', 're.Pattern.finditer'})
        interp.pure_methods.update({'lower', 'casefold', 'upper'})
        interp.ret_types['re.subn'] = 'tuple'
        interp.ret_types['re.Pattern.subn'] = 'tuple'
        interp.types[MSG] = 'str'
        interp.types[SECRET] = 'str'
        f = self.f
        outs = interp.explore(lambda i: i.call(f, [MSG, SECRET]),
                              max_paths=8)
        notes = inexact_notes(outs)
        if notes or len(outs) != 1:
            raise CannotEval('mask_password: %d guided paths, %s' % (
                len(outs), notes))
        r = outcome_value(outs[0], val, [_hook])
        if r[0] != 'return':
            raise CannotEval('mask_password raises %s' % (r[1],))
        return r[1]

    def run(self, message, secret='***'):
        if self.guided:
            return self.run_guided(message, secret)
        present = [k for k in self.keys if k in message.lower()]
        try:
            outs = self.outcomes_for(present)
        except AnalysisError as e:
            if 'path bound' not in str(e):
                raise
            self.guided = True
            return self.run_guided(message, secret)
        if getattr(outs, 'overflow', None) or inexact_notes(outs):
            # the key tests are not decided by the set of keys present (or
            # the table is inexact): every message is followed by itself
            self.guided = True
            return self.run_guided(message, secret)
        from ..core.table import outcome_at, outcome_value
        val = {MSG: message, SECRET: secret}
        try:
            o = outcome_at(outs, val, [_hook])
            r = outcome_value(o, val, [_hook])
        except CannotEval:
            return self.run_guided(message, secret)
        if r[0] != 'return':
            raise CannotEval('mask_password raises %s' % (r[1],))
        return r[1]


def _is_message(t):
    """message or a rebinding of it (str(message), re.sub(..., message))."""
    if t == MSG:
        return True
    if isinstance(t, T) and t.op == 'call' and t.args[0] in (
            're.sub', 're.subn', 're.Pattern.sub', 're.Pattern.subn',
            'str'):
        if t.args[0] == 'str':
            return _is_message(t.args[1])
        return len(t.args) > 3 and _is_message(t.args[3])
    if isinstance(t, T) and t.op == 'item':
        return _is_message(t.args[0])
    return False


def renderings(key, secret, mask):
    """(rendering name, message, expected) for one key spelling; the
    supported renderings listed in the property statement."""
    k, s, m = key, secret, mask
    quoted_ok = True
    out = [
        ('key=value', '%s=%s' % (k, s), '%s=%s' % (k, m)),
        ('key = value', 'run %s = %s now' % (k, s), 'run %s = %s now' % (k, m)),
        ('key="value"', 'x %s="%s" y' % (k, s), 'x %s="%s" y' % (k, m)),
        ("key='value'", "x %s='%s' y" % (k, s), "x %s='%s' y" % (k, m)),
        ("'key': 'value'", "{'%s': '%s'}" % (k, s), "{'%s': '%s'}" % (k, m)),
        ('"key": "value"', '{"%s": "%s"}' % (k, s), '{"%s": "%s"}' % (k, m)),
        ("u'key': u'value'", "{u'%s': u'%s'}" % (k, s),
         "{u'%s': u'%s'}" % (k, m)),
        ('<key>value</key>', 'a <%s>%s</%s> b' % (k, s, k),
         'a <%s>%s</%s> b' % (k, m, k)),
        ('--key value', 'cmd --%s %s next' % (k, s),
         'cmd --%s %s next' % (k, m)),
        ("key 'value'", "set %s '%s' ok" % (k, s), "set %s '%s' ok" % (k, m)),
        ('key "value"', 'set %s "%s" ok' % (k, s), 'set %s "%s" ok' % (k, m)),
        ("'key', '--flag', 'value'", "['%s', '--opt', '%s']" % (k, s),
         "['%s', '--opt', '%s']" % (k, m)),
        ('key --flag value', 'tool %s --opt %s end' % (k, s),
         'tool %s --opt %s end' % (k, m)),
        # flag names with an underscore / mixed case
        ("'key', '--flag', 'value'", "['%s', '--new_Value', '%s']" % (k, s),
         "['%s', '--new_Value', '%s']" % (k, m)),
        ('key --flag value', 'tool %s --new_Value %s end' % (k, s),
         'tool %s --new_Value %s end' % (k, m)),
    ]
    return out


BARE = ('key=value', 'key = value', '--key value', 'key --flag value')


def run(ctx):
    rep, world = ctx.report, ctx.world
    rep.explanation = (
        'Key table compared with the 35 reference keys; the compiled '
        'pattern tables must hold every template for every key with '
        'IGNORECASE; each template is analysed on its regex tree (group '
        'shape, [0-9]* after the key, value character class by set algebra: '
        'any excluded character other than the rendering\'s delimiter '
        'truncates the masked value).  mask_password itself is extracted as '
        'a term (ordered re.sub applications guarded by the presence tests) '
        'and that term is evaluated with the extracted patterns on generated '
        'messages: every key x spelling (lower, UPPER, Capitalised, digit '
        'suffixes) x supported rendering x secrets over metacharacters and '
        'non-ASCII, two secrets per message in different renderings, '
        'no-key messages, idempotence.  Interactions of arbitrary long '
        'messages are not decided.')
    rep.rule('R4.1', '_SANITIZE_KEYS contains the 35 reference keys, all '
             'lower case')
    rep.rule('R4.2', 'every template of the three families is compiled for '
             'every key with IGNORECASE')
    rep.rule('R4.4', 'template shape: group1 . value . [group2]; key followed '
             'by [0-9]*; substitution re-emits every group')
    rep.rule('R4.5', 'value class excludes nothing but the delimiter of its '
             'rendering (quoted: quotes; XML: <; bare: white space, quotes)')
    rep.rule('R4.6', 'extracted substitution pipeline on generated messages: '
             'exactly the secret is replaced by the mask; no key -> '
             'unchanged; idempotent')
    try:
        keys = world.const(MOD, '_SANITIZE_KEYS')
    except AnalysisError:
        # the list is not kept under its pinned private name: the keys the
        # property names (reference list) are what R4.6 is run with
        keys = list(REFERENCE_KEYS)
        rep.case({'_SANITIZE_KEYS': 'not found under that name; the '
                  'reference key list is used'}, ('keys', 'reference'))
    rep.count('sanitize keys', len(keys), floor=35)
    missing = [k for k in REFERENCE_KEYS if k not in keys]
    rep.check('R4.1', '_SANITIZE_KEYS', not missing,
              'reference keys missing from the sanitize list: %s' % missing,
              case={'message': '<%s>secret</%s>' % (missing[0], missing[0])}
              if missing else None)
    notlower = [k for k in keys if k != k.lower()]
    rep.check('R4.1', '_SANITIZE_KEYS:lowercase', not notlower,
              'keys that can never be found in message.lower(): %s' %
              notlower)
    for k in keys:
        if k not in REFERENCE_KEYS:
            rep.info('R4.1', '_SANITIZE_KEYS[%s]' % k, 'key without a '
                     'reference row (open world)')
    _tables(ctx, keys)
    _shapes(ctx)
    _pipeline(ctx, keys)
    _history(ctx)


def _history(ctx):
    """The mask depends on the message and the secret of this call only."""
    from ..core.table import history_compare
    rep, world = ctx.report, ctx.world
    rep.rule('R4.7', 'mask_password keeps no state: a call answers the same '
             'whatever was masked before (with whatever mask)')
    f = world.func(MOD, 'mask_password')
    for (m1, s1), (m2, s2) in (
            (('password=***', '***'), ('password=***', '#')),
            (('nothing to see here', '***'), ('nothing to see here', '#')),
            (('token=abc', '***'), ('token=abc', '***')),
            (('x token="abc" y', '#'), ('x token="abc" y', '***')),
            (('password=#', '#'), ('password=#', '')),
            (('a' * 40, '***'), ("{'password': 'x'}", '***'))):
        history_compare(
            rep, 'R4.7', 'mask_password[after an earlier call]', world,
            lambda i: f, ([K(m1)], {'secret': K(s1)}),
            ([K(m2)], {'secret': K(s2)}),
            label='%r masked with %r, then %r with %r' % (m1, s1, m2, s2))


def _tables(ctx, keys):
    rep, world = ctx.report, ctx.world
    fam = {}
    for name, tmpl in (('_SANITIZE_PATTERNS_1', '_FORMAT_PATTERNS_1'),
                       ('_SANITIZE_PATTERNS_2', '_FORMAT_PATTERNS_2'),
                       ('_SANITIZE_PATTERNS_WILDCARD',
                        '_FORMAT_PATTERNS_WILDCARD')):
        try:
            table = world.get(MOD, name)
            templates = world.const(MOD, tmpl)
        except AnalysisError:
            # the module no longer keeps this table under this name: its
            # shape was an implementation choice; R4.6 decides behaviour
            rep.info('R4.2', name, 'no such table; the pipeline rule R4.6 '
                     'decides every key x rendering')
            continue
        fam[name] = (table, templates)
        if not isinstance(table, DictV) or table.unknown:
            rep.info('R4.2', name, 'table does not fold to a constant; the '
                     'pipeline rule R4.6 decides every key x rendering')
            continue
        n_ok = 0
        for k in keys:
            lst = table.get(K(k))
            ok = isinstance(lst, ListV) and len(lst.items) == len(templates)
            if ok:
                for rx, t in zip(lst.items, templates):
                    ok = ok and isinstance(rx, RegexV) and \
                        rx.pattern == t % {'key': k} and \
                        bool(rx.flags & re.IGNORECASE)
            n_ok += bool(ok)
        # the shape of the table is an implementation choice (eager, lazy,
        # merged ...): a table that is not in the eager per-key form is
        # only noted; what it must *do* is decided by R4.6 for every key,
        # spelling and rendering
        if n_ok == len(keys):
            rep.check('R4.2', name, True,
                      '%d of %d keys have every %s template compiled' % (
                          n_ok, len(keys), tmpl))
        else:
            rep.info('R4.2', name, '%d of %d keys have every %s template '
                     'compiled at import time; R4.6 decides the rest' % (
                         n_ok, len(keys), tmpl))
    if '_SANITIZE_PATTERNS_1' in fam and '_SANITIZE_PATTERNS_2' in fam:
        n1 = len(fam['_SANITIZE_PATTERNS_1'][1])
        n2 = len(fam['_SANITIZE_PATTERNS_2'][1])
        rep.count('templates (1- and 2-group)', n1 + n2, floor=1)


def _value_node(tree):
    """Top-level shape group1 . value-repeat . [group2] -> (g1, value,
    g2|None) or raise AnalysisError."""
    seq = [n for n in tree]
    if not seq or R.group_index(seq[0]) != 1:
        raise AnalysisError('pattern does not start with group 1')
    rest = seq[1:]
    if not rest:
        raise AnalysisError('no value element after group 1')
    value = rest[0]
    if value[0] not in (R.C.MAX_REPEAT, R.C.MIN_REPEAT) or \
            len(value[1][2]) != 1 or not R.is_char(value[1][2][0]):
        raise AnalysisError('value element is not a repeated character '
                            'class')
    g2 = None
    if len(rest) == 2 and R.group_index(rest[1]) == 2:
        g2 = rest[1]
    elif len(rest) != 1:
        raise AnalysisError('unexpected elements after the value')
    return seq[0], value, g2


def _last_char_sets(body, flags):
    """Character sets of the last mandatory single-char element of a
    group body (to classify the rendering)."""
    for node in reversed(list(body)):
        if R.is_char(node):
            return R.charset(node, flags)
        if node[0] in (R.C.MAX_REPEAT, R.C.MIN_REPEAT):
            if node[1][0] == 0:
                continue
            inner = node[1][2]
            if len(inner) == 1 and R.is_char(inner[0]):
                return R.charset(inner[0], flags)
            return None
        return None
    return None


def _shapes(ctx):
    rep, world = ctx.report, ctx.world
    flags = re.DOTALL | re.IGNORECASE
    ws = R.category(R.C.CATEGORY_SPACE, False)
    for tmpl_name, family in (('_FORMAT_PATTERNS_1', 1),
                              ('_FORMAT_PATTERNS_2', 2),
                              ('_FORMAT_PATTERNS_WILDCARD', 'w')):
        try:
            templates = world.const(MOD, tmpl_name)
        except AnalysisError:
            rep.info('R4.4', tmpl_name, 'no such template list; R4.6 '
                     'decides behaviour')
            continue
        for i, tmpl in enumerate(templates):
            if not isinstance(tmpl, str) or '%(key)s' not in tmpl:
                continue
            pattern = tmpl % {'key': 'password'}
            key = 'template for %s' % (
                'dict/JSON values containing quotes (wildcard family)'
                if family == 'w' else template_id(pattern, flags))
            tree = R.parse(pattern, flags)
            try:
                g1, value, g2 = _value_node(tree)
            except AnalysisError as e:
                rep.undecided('R4.4', key, str(e))
                continue
            # group count vs family
            want_groups = 1 if family == 1 else 2
            rep.check('R4.4', key + ' :groups',
                      (g2 is not None) == (want_groups == 2),
                      'template has %d group(s); its family substitutes '
                      '%d' % (2 if g2 is not None else 1, want_groups))
            # key followed by [0-9]*
            body = R.group_body(g1)
            rep.check('R4.4', key + ' :digits',
                      _key_then_digits(body, 'password', flags),
                      'the key is followed by [0-9]* (digit-suffixed keys)')
            # the wildcard family re-emits only group 1
            if family == 'w':
                unanchored = _has_dotstar(body)
                rep.check('R4.4', key + ' :wildcard', not (
                    g2 is not None and unanchored) and g2 is None,
                    'the wildcard template consumes a second group that '
                    'its substitution (\\g<1>) does not re-emit, and group '
                    '1 contains an unanchored ".*": everything between the '
                    'first value and the last quote of the message is '
                    'swallowed or shifted',
                    case={'message': "{'password': 'x', 'user': 'admin'}",
                          'result': "{'password': '***', 'user': '}"})
                continue
            # value class
            vset = R.charset(value[1][2][0], flags)
            excluded = frozenset(R.UNIVERSE) - vset
            last = _last_char_sets(body, flags)
            if last is not None and last <= QUOTES:
                kind, allowed = 'quoted', QUOTES
            elif last is not None and last == frozenset({ord('>')}):
                kind, allowed = 'XML', frozenset({ord('<')})
            else:
                kind, allowed = 'bare', ws | QUOTES
            extra = sorted(excluded - allowed)
            rep.check('R4.5', key + ' :value-class', not extra,
                      '%s value class stops at %r: a secret containing '
                      'such a character is masked only up to it' % (
                          kind, ''.join(chr(c) for c in extra)),
                      case={'rendering': kind,
                            'stops_at': ''.join(chr(c) for c in extra)})
            rep.case({'template': tmpl, 'kind': kind,
                      'excluded': ''.join(chr(c) for c in sorted(excluded)
                                          if c < 128)}, ('shape', tmpl))


def template_id(pattern, flags):
    """Position- and syntax-independent name of a template: the supported
    renderings (section of the property statement) it matches."""
    try:
        rx = re.compile(pattern, flags)
    except re.error:
        return 'uncompilable %r' % pattern
    hits = []
    for rname, msg, _want in renderings('password', 'abc', '***'):
        m = rx.search(msg)
        if m and 'abc' in m.group(0):
            hits.append(rname)
    if not hits:
        return 'no supported rendering (%s)' % pattern
    return ' | '.join(hits)


def _key_then_digits(body, key, flags):
    seq = list(body)
    lits = ''
    for i, node in enumerate(seq):
        if node[0] is R.C.LITERAL:
            lits += chr(node[1])
            if lits.lower().endswith(key):
                nxt = seq[i + 1] if i + 1 < len(seq) else None
                if nxt is None or nxt[0] not in (R.C.MAX_REPEAT,
                                                 R.C.MIN_REPEAT):
                    return False
                lo, hi, inner = nxt[1]
                if lo != 0 or hi is not R.C.MAXREPEAT:
                    return False
                if len(inner) != 1 or not R.is_char(inner[0]):
                    return False
                cs = R.charset(inner[0], flags)
                return frozenset(map(ord, '0123456789')) <= cs
        else:
            lits = ''
    return False


def _has_dotstar(body):
    for node in body:
        if node[0] in (R.C.MAX_REPEAT, R.C.MIN_REPEAT):
            inner = node[1][2]
            if len(inner) == 1 and inner[0][0] is R.C.ANY and \
                    node[1][1] is R.C.MAXREPEAT:
                return True
    return False


SECRETS = ('abc', 'p@ss^w0rd$', 'x', 'S3cr3t!', 'a.b*c+d?', '(x)[y]{z}',
           'back\\slash', 'ünï', 'tab|pipe&amp;', '%s%d', 'a:b;c,d', '-abc',
           '--x', 'abc\\', '-')
THOROUGH_SECRETS = (
    '!#$%&()*+,-./:;<=>?@[\\]^_`{|}~'.replace('<', '').replace('=', ''),
    'A' * 40, '0123456789' * 4, 'pa$$w0rd-with_a_very/long+tail~of.40chars',
    '\u00fc\u00f1\u00ef\u00e7\u00f8d\u00e9', '\u5bc6\u7801', '***', '*',
    '\\', '.', '$', '^', 'a|b', '{}', '[', ')', '\\1', '\\g<1>', '%(key)s')
SPACED = ('two words', ' lead', 'trail ')


def _pipeline(ctx, keys):
    rep, world = ctx.report, ctx.world
    pipe = Pipeline(ctx, keys)
    rep.analysed('strutils.mask_password')
    mask = '***'
    failures = {}
    n = 0

    def check(kind, construct, message, want, secret=mask):
        nonlocal n
        n += 1
        got = pipe.run(message, secret)
        if n <= 6:
            rep.case({'message': message, 'masked': got}, ('msg', message))
        if got != want:
            failures.setdefault((kind, construct), (message, got, want))
        return got
    try:
        # unknown-key messages are returned unchanged
        for m in ('nothing to see here', 'user=admin', '', 'pass word=x',
                  '--user bob', "{'a': 'b'}", 'tok en=1'):
            check('no-key', 'message without a sanitize key', m, m)
        for key in keys:
            spellings = (key, key.upper(), key.capitalize(), key + '1',
                         key + '12', key.upper() + '7')
            for sp in spellings:
                secs = SECRETS if sp == key else SECRETS[:3]
                if ctx.thorough:
                    secs = SECRETS + THOROUGH_SECRETS
                for s in secs:
                    for rname, msg, want in renderings(sp, s, mask):
                        if rname == '--key value' and '=' in s:
                            continue
                        if rname == '<key>value</key>' and '<' in s:
                            continue    # XML text cannot carry a '<'
                        cons = rname
                        if rname == '--key value' and s.startswith('-') \
                                and any(k2 != key and k2 in key
                                        for k2 in keys):
                            # its own construct: see known finding D8
                            cons = rname + ' (dash-leading secret under ' \
                                'a key that contains a shorter key)'
                        got = check('rendering', cons, msg, want)
                        # idempotence
                        again = pipe.run(got, mask)
                        if again != got:
                            failures.setdefault(
                                ('idempotence', rname),
                                (msg, again, got))
            # spaces inside quoted / XML renderings
            for s in SPACED:
                for rname, msg, want in renderings(key, s, mask):
                    if rname in BARE or rname in ("key 'value'",
                                                  'key "value"'):
                        continue
                    check('rendering', rname + ' (spaces in value)', msg,
                          want)
        # other mask strings, the empty one included
        for mk in ('<hidden>', '', ' ', 'x'):
            for rname, msg, want in renderings('password', 'abc', mk):
                check('mask', rname, msg, want, secret=mk)
        # a command line that is itself quoted: the closing quote follows
        # the secret directly
        for key in ('password', 'auth_token', 'secret'):
            for msg, want in (
                    ("cmd='mysqld --%s s3cret'", "cmd='mysqld --%s ***'"),
                    ('["sh", "-c", "tool --%s s3cret"]',
                     '["sh", "-c", "tool --%s ***"]'),
                    ('run "tool --%s s3cret" now', 'run "tool --%s ***" now'),
                    ("x --%s s3cret'", "x --%s ***'")):
                check('rendering', '--key value inside a quoted command',
                      msg % key, want % key)
        # two secrets for one key in different renderings
        for key in ('password', 'auth_token', 'secret'):
            rs = renderings(key, 'abc', mask)
            for i, (r1, m1, w1) in enumerate(rs):
                for r2, m2, w2 in rs[i + 1:]:
                    if "'key': 'value'" in (r1, r2) or '"key"' in r1 + r2 \
                            or "u'key'" in r1 + r2 or "'--flag'" in r1 + r2:
                        continue
                    for a, b in (((m1, w1), (m2, w2)), ((m2, w2),
                                                        (m1, w1))):
                        check('two secrets', '%s + %s' % tuple(sorted(
                            (r1, r2))), a[0] + ' ; ' + b[0],
                            a[1] + ' ; ' + b[1])
        # two different keys in one message, in both orders of the key
        # list, with secrets longer and shorter than the mask (what one
        # substitution does to the positions of the rest of the message)
        long_s, short_s = 'a-much-longer-value-than-the-mask-is', 'z'
        pairs = [(keys[0], keys[-1]), (keys[-1], keys[0]),
                 ('password', 'token'), ('token', 'password'),
                 ('auth_token', 'secret_uuid')]
        for k1, k2 in pairs:
            if k1 in k2 or k2 in k1:
                continue
            for s1, s2 in ((long_s, short_s), (short_s, long_s),
                           (long_s, long_s)):
                r1s = renderings(k1, s1, mask)
                r2s = renderings(k2, s2, mask)
                for (n1, m1, w1) in r1s:
                    for (n2, m2, w2) in r2s:
                        if any(q in n1 + n2 for q in (
                                "'key': 'value'", '"key"', "u'key'",
                                "'--flag'")):
                            continue
                        if n1 != 'key=value' and n2 != 'key=value' and \
                                n1 != n2:
                            continue
                        check('two keys', '%s + %s' % (n1, n2),
                              m1 + ' ; ' + m2, w1 + ' ; ' + w2)
        # two keys of which one contains the other (auth_token / token,
        # secret_uuid / secret, admin_password / password ...): each secret
        # in its own place of the message, in both orders
        nested = [(k1, k2) for k1 in keys for k2 in keys
                  if k1 != k2 and k2 in k1]
        if not ctx.thorough:
            short = {}
            for k1, k2 in nested:
                short.setdefault(k2, []).append(k1)
            nested = [(v[0], k2) for k2, v in sorted(short.items())] + \
                [(v[-1], k2) for k2, v in sorted(short.items())
                 if len(v) > 1]
        for k1, k2 in nested:
            r1s = renderings(k1, 'AAAsecret1', mask)
            r2s = renderings(k2, 'BBBsecret2', mask)
            for (n1, m1, w1) in r1s:
                for (n2, m2, w2) in r2s:
                    if any(q in n1 + n2 for q in (
                            "'key': 'value'", '"key"', "u'key'",
                            "'--flag'")):
                        continue
                    if n1 != n2:
                        continue
                    for a, b in (((m1, w1), (m2, w2)), ((m2, w2), (m1, w1))):
                        check('nested keys', n1,
                              a[0] + ' retry=3 ' + b[0],
                              a[1] + ' retry=3 ' + b[1])
        # three and four secrets for one key in the same rendering
        for key in ('password', 'sslkey', 'secret'):
            for rname, _m, _w in renderings(key, 'x', mask):
                if rname in ("'key': 'value'", '"key": "value"',
                             "u'key': u'value'", "'key', '--flag', 'value'"):
                    continue
                for count in (3, 4):
                    parts = [renderings(key + str(i), 'v%d' % i, mask)
                             for i in range(1, count + 1)]
                    pick = [[p for p in ps if p[0] == rname][0]
                            for ps in parts]
                    check('many secrets', rname,
                          ' ; '.join(p[1] for p in pick),
                          ' ; '.join(p[2] for p in pick))
        # a key glued to preceding text (which may itself start like another
        # key: new_password, adminpassword)
        for key in keys:
            for pre in ('new_', 'admin', 'x', 'my_'):
                k = pre + key
                for rname, msg, want in renderings(k, 'abc', mask)[:4]:
                    check('glued prefix', rname, msg, want)
        # the same key several times in a row, nothing in between
        for key in ('password', 'auth_token', 'sslkey'):
            k = key
            dense = (
                ('key=value', '%s=a1 %s=b2 %s=c3' % (k, k, k),
                 '%s=*** %s=*** %s=***' % (k, k, k)),
                ('--key value', 'x --%s a1 --%s b2 --%s c3 y' % (k, k, k),
                 'x --%s *** --%s *** --%s *** y' % (k, k, k)),
                ('--key value', '--%s a1 --%s b2' % (k, k),
                 '--%s *** --%s ***' % (k, k)),
                ('key "value"', '%s "a1" %s "b2" %s "c3"' % (k, k, k),
                 '%s "***" %s "***" %s "***"' % (k, k, k)),
                ("key='value'", "%s='a1' %s='b2'" % (k, k),
                 "%s='***' %s='***'" % (k, k)),
                ('<key>value</key>', '<%s>a1</%s><%s>b2</%s>' % (k, k, k, k),
                 '<%s>***</%s><%s>***</%s>' % (k, k, k, k)),
                ('<key>value</key>', '<%s>a>1</%s> <%s>-</%s>' % (k, k, k, k),
                 '<%s>***</%s> <%s>***</%s>' % (k, k, k, k)),
                ('key --flag value', '%s --opt a1 %s --opt b2' % (k, k),
                 '%s --opt *** %s --opt ***' % (k, k)),
            )
            for rname, msg, want in dense:
                check('repeated key', rname, msg, want)
        # known-finding probes (recorded under their own constructs)
        check('probe', 'dict rendering followed by more quoted text',
              "{'password': 'x', 'user': 'admin'}",
              "{'password': '***', 'user': 'admin'}")
        check('probe', 'quoted secret containing a key word and a dash',
              'x token="my secret-word" y', 'x token="***" y')
        check('probe', "--key value with '=' in the value",
              'cmd --password ab=cd next', 'cmd --password *** next')
    except CannotEval as e:
        rep.undecided('R4.6', 'mask_password', str(e))
        return
    rep.evaluations += n
    seen = set()
    for (kind, construct), (msg, got, want) in sorted(failures.items()):
        seen.add((kind, construct))
        rep.check('R4.6', '%s: %s' % (kind, construct), False,
                  'mask_password(%r) yields %r, required %r' % (msg, got,
                                                                want),
                  case={'message': msg})
    for rname, _m, _w in renderings('password', 'x', mask):
        if ('rendering', rname) not in seen:
            rep.check('R4.6', 'rendering: %s' % rname, True,
                      'every key / spelling / secret in this rendering is '
                      'masked exactly')
    rep.check('R4.6', 'no-key: message without a sanitize key',
              ('no-key', 'message without a sanitize key') not in seen,
              'messages without a key are returned unchanged')
    rep.extra['messages_evaluated'] = n
