"""C05 - inspector memory is bounded by a constant, whatever the stream
claims (proof obligations + concrete witnesses)."""
import ast

from ..core import inspmodel as M
from ..core.loader import AnalysisError, enclosing_function
from ..core.table import inexact_notes
from ..core.values import K, T, Obj, DictV, TupleV, show
from ..specs import images
from . import _insp
from .c01 import _step_table, DATA, LEN, NWIN, CHUNK

MOD = M.MOD
KiB = 1024
BUDGET = {'vmdk': 1536 * KiB}
DEFAULT_BUDGET = 512 * KiB
INF = float('inf')
UNPROVED = {}


def budget(fmt):
    return BUDGET.get(fmt, DEFAULT_BUDGET)


def facts_of(assumptions):
    """Upper bounds implied by the comparisons a path assumed."""
    facts = {}

    def note(term, bound):
        if isinstance(bound, K) and isinstance(bound.v, int):
            facts[term] = min(facts.get(term, INF), bound.v)
    for t, val in assumptions:
        neg = False
        while isinstance(t, T) and t.op == 'not':
            t, neg = t.args[0], not neg
        if not (isinstance(t, T) and t.op == 'cmp'):
            continue
        op, a, b = t.args
        holds = bool(val) != neg
        if op in ('<=', '<') and holds:
            note(a, b if op == '<=' else K(b.v - 1) if isinstance(b, K)
                 and isinstance(b.v, int) else b)
        if op in ('>', '>=') and not holds:
            note(a, b if op == '>' else K(b.v - 1) if isinstance(b, K)
                 and isinstance(b.v, int) else b)
        if op in ('>=', '>') and holds:
            note(b, a if op == '>=' else K(a.v - 1) if isinstance(a, K)
                 and isinstance(a.v, int) else a)
        if op in ('<', '<=') and not holds:
            note(b, a if op == '<' else K(a.v - 1) if isinstance(a, K)
                 and isinstance(a.v, int) else a)
        if op == '==' and holds:
            note(a, b)
            note(b, a)
    return facts


def may_be_negative(t):
    """True when the term is built from a signed field without a clamp
    from below."""
    if isinstance(t, K):
        return isinstance(t.v, int) and t.v < 0
    if not isinstance(t, T):
        return False
    if t.op == 'int':
        return bool(t.args[4])
    if t.op == 'call' and t.args[0] == 'max':
        return all(may_be_negative(a) for a in t.args[1:])
    if t.op == 'call' and t.args[0] == 'min':
        return any(may_be_negative(a) for a in t.args[1:])
    if t.op == 'binop':
        if t.args[0] == '-':
            return True
        return any(may_be_negative(a) for a in t.args[1:])
    return False


def upper(t, facts=None):
    """Upper bound of a non-negative integer term (interval analysis,
    sharpened by the comparisons assumed on the path)."""
    if facts and t in facts:
        return min(facts[t], _upper(t, facts))
    return _upper(t, facts)


def _upper(t, facts=None):
    if isinstance(t, K):
        return t.v if isinstance(t.v, int) else INF
    if not isinstance(t, T):
        return INF
    if t.op == 'int':
        w, signed = t.args[2], t.args[4]
        return (1 << (8 * w - (1 if signed else 0))) - 1
    if t.op == 'call' and t.args[0] == 'min':
        return min(upper(a, facts) for a in t.args[1:])
    if t.op == 'call' and t.args[0] == 'max':
        return max(upper(a, facts) for a in t.args[1:])
    if t.op == 'call' and t.args[0] == 'len' and \
            isinstance(t.args[1], T) and t.args[1].op == 'bytes':
        return upper(t.args[1].args[2], facts)
    if t.op == 'binop':
        op, a, b = t.args
        if op == '+':
            return upper(a, facts) + upper(b, facts)
        if op == '*':
            return upper(a, facts) * upper(b, facts)
        if op == '-':
            return upper(a, facts)
        if op == '<<' and isinstance(b, K) and isinstance(b.v, int) and \
                0 <= b.v < 64:
            return upper(a, facts) << b.v
        if op == '|':
            ua, ub = upper(a, facts), upper(b, facts)
            if ua == INF or ub == INF:
                return INF
            return (1 << max(ua.bit_length(), ub.bit_length())) - 1
        if op in ('//', '>>', '&', '%'):
            return upper(a, facts) if op != '&' else min(upper(a, facts),
                                                         upper(b, facts))
    return INF


def run(ctx):
    rep = ctx.report
    rep.level = 'proof'
    rep.explanation = (
        'Proof obligations, discharged on the syntax tree and on the '
        'symbolically extracted paths: O1 region data is stored only by the '
        'CaptureRegion classes; O2 every path of each capture step leaves '
        'data unchanged or truncated to the region length (extracted step '
        'table); O3 region lengths are written only by constructors and by '
        'shrinking to the captured size; O4 every region constructed on any '
        'symbolic path of any inspector has a length with a finite upper '
        'bound (interval analysis: constants, min() clamps, width of the '
        'unpacked field); O5 regions are held by name in one dict written '
        'only by new_region / delete_region; O6 the per-path sum of bounds '
        'is within 1.5 MiB (VMDK) / 512 KiB; O7 context_info reports '
        'len(data) of every region.  Hostile images (every length / count '
        '/ offset field at boundary and maximal values) additionally give '
        'concrete witnesses after every chunk under five schedules.')
    rep.rule('O1', 'region data is stored only inside the CaptureRegion '
             'class hierarchy')
    rep.rule('O2', 'every capture step truncates to the region length')
    rep.rule('O3', 'region length is written only by constructors or '
             'shrunk to the captured size')
    rep.rule('O4', 'every constructed region has a finite length bound')
    rep.rule('O5', 'regions live in one dict keyed by constant names, '
             'written only by new_region / delete_region')
    rep.rule('O6', 'sum of length bounds per inspector <= budget; observed '
             'retention on hostile images <= budget after every chunk')
    rep.rule('O7', 'context_info reports len(data) of every region')
    rep.trusted = ['CPython ast parser', 'Python slice semantics '
                   '(len(x[:n]) <= n, len(x[-n:]) <= n for n > 0)',
                   'abstract interpreter sa/core/absint.py',
                   'no code outside the package touches private attributes']
    _writers(ctx)
    _truncation(ctx)
    _bounds(ctx)
    _witnesses(ctx)
    _context_info(ctx)


# ------------------------------------------------------------------ O1/O3/O5
REGIONS_ATTR = ['_capture_regions']


def _table_owner(ctx, fn, methods):
    """*fn* ('Class.method') is one of *methods* of FileInspector or of a
    class FileInspector derives from (the table's owner)."""
    parts = fn.split('.')
    if len(parts) != 2 or parts[1] not in methods:
        return False
    base = ctx.world.cls(M.MOD, 'FileInspector')
    return parts[0] in [c.name for c in base.mro()]


def _writers(ctx):
    rep = ctx.report
    REGIONS_ATTR[0] = M.private_names(ctx.world)['regions']
    region_classes = ('CaptureRegion', 'EndCaptureRegion')
    n_data = n_len = n_regs = 0
    for mod in ctx.repo.modules.values():
        for node in ast.walk(mod.tree):
            targets = []
            if isinstance(node, ast.Assign):
                targets = node.targets
            elif isinstance(node, (ast.AugAssign, ast.AnnAssign)):
                targets = [node.target]
            for t in targets:
                for sub in ast.walk(t):
                    if not isinstance(sub, ast.Attribute):
                        continue
                    fn = enclosing_function(node)
                    where = '%s:%s' % (mod.relpath, fn)
                    if sub.attr == 'data' and \
                            mod.name.endswith('format_inspector'):
                        n_data += 1
                        rep.check('O1', 'store to .data in %s' % fn,
                                  fn.split('.')[0] in region_classes or
                                  None,
                                  'region data is written in %s' % where,
                                  where=where)
                    if sub.attr == 'length' and \
                            mod.name.endswith('format_inspector'):
                        n_len += 1
                        ok = fn.split('.')[0] in region_classes and \
                            fn.endswith('__init__')
                        shrink = isinstance(node, ast.Assign) and \
                            isinstance(node.value, ast.Call) and \
                            ast.unparse(node.value.func) == 'len'
                        rep.check('O3', 'store to .length in %s' % fn,
                                  (ok or shrink) or None,
                                  'region length written in %s as %s' % (
                                      where, ast.unparse(node)[:80]),
                                  where=where)
                    if sub.attr == REGIONS_ATTR[0]:
                        n_regs += 1
                        rep.check('O5', 'store to the region table in %s'
                                  % fn, _table_owner(ctx, fn, (
                                      '__init__', 'new_region',
                                      'delete_region')) or None,
                                  'region table written in %s' % where,
                                  where=where)
            if isinstance(node, ast.Delete):
                for t in node.targets:
                    for sub in ast.walk(t):
                        if isinstance(sub, ast.Attribute) and \
                                sub.attr == REGIONS_ATTR[0]:
                            fn = enclosing_function(node)
                            n_regs += 1
                            rep.check('O5', 'delete from the region table '
                                      'in %s' % fn,
                                      _table_owner(ctx, fn,
                                                   ('delete_region',))
                                      or None,
                                      'region removed in %s' % fn)
    rep.count('stores to region data', n_data, floor=1)
    rep.count('stores to region length', n_len, floor=1)
    rep.count('writers of the region table', n_regs, floor=1)


# ------------------------------------------------------------------ O2
def _truncated(t, bound):
    """data' is DATA itself or a slice of something cut to *bound*."""
    if t == DATA:
        return True
    if isinstance(t, T) and t.op == 'slice':
        base, lo, hi, step = t.args
        if step != K(None):
            return False
        if lo == K(None) or lo == K(0):
            return hi == bound
        # x[-n:] / x[0 - n:]
        if hi == K(None) and isinstance(lo, T) and lo.op == 'binop' and \
                lo.args[0] == '-' and lo.args[1] == K(0) and \
                lo.args[2] == bound:
            return True
        from ..core.models import lin
        l = lin(lo)
        if hi == K(None) and l == (0, {bound: -1}):
            return True
    return False


def _truncation(ctx):
    rep = ctx.report
    for kind, with_min, bound in (('region', False, LEN),
                                  ('region', True, LEN),
                                  ('tail', False, NWIN)):
        key = {'region': 'CaptureRegion', 'tail': 'EndCaptureRegion'}[kind] \
            + ('.capture with min_length' if with_min else '.capture')
        outs = _step_table(ctx, kind, with_min)
        notes = inexact_notes(outs)
        if notes:
            rep.undecided('O2', key, 'step extraction inexact: %s' % notes)
            continue
        bad = [o for o in outs if o.kind == 'return' and
               not _truncated(o.state['data'], bound)]
        rep.case({'step': key, 'paths': len(outs)}, ('O2', key))
        if not bad:
            rep.check('O2', key, True, 'all %d paths leave the data '
                      'unchanged or cut to the region length' % len(outs))
            continue
        o = bad[0]
        rep.check('O2', key, False,
                  'a path under %s stores %s: the retained bytes grow with '
                  'the chunk instead of being cut to the region length' % (
                      [(show(t), b) for t, b in o.assumptions][:4],
                      show(o.state['data'])[:200]))


# ------------------------------------------------------------------ O4/O6
def _bounds(ctx):
    rep = ctx.report
    UNPROVED.clear()
    reg = _insp.registry(ctx)
    world = ctx.world
    old_loop = world.loop_bound
    world.loop_bound = 8
    try:
        for fmt, cls_name in sorted(reg.items()):
            model = M.StreamModel(ctx, cls_name, sym_iter_max=1)
            rep.analysed('imageutils.format_inspector.%s (all symbolic '
                         'paths)' % cls_name)
            worst, worst_detail = 0, None
            n_paths = 0
            for sched in (M.SCHED_BY_NAME['giant'],
                          M.SCHED_BY_NAME['two-step']):
                try:
                    outs = model.explore(sched, max_paths=6000)
                except AnalysisError as e:
                    rep.undecided('O4', 'regions[%s]' % fmt, str(e))
                    outs = []
                for o in outs:
                    n_paths += 1
                    insp = o.state.get('insp') if o.state else None
                    if o.kind == 'cut' or insp is None:
                        continue
                    regs = insp.fields.get(
                        M.private_names(world)['regions'])
                    if not isinstance(regs, DictV):
                        rep.undecided('O5', 'regions[%s]' % fmt,
                                      'region table is %s' % show(regs))
                        continue
                    total = 0
                    parts = []
                    for k, r in zip(regs.keys, regs.vals):
                        if not isinstance(k, K):
                            rep.check('O5', 'region names[%s]' % fmt, False,
                                      'non-constant region name %s' %
                                      show(k))
                        b = upper(r.fields.get('length'),
                                  facts_of(o.assumptions))
                        if may_be_negative(r.fields.get('length')):
                            # a negative length defeats data[:length]
                            b = INF
                        parts.append('%s<=%s' % (
                            k.v if isinstance(k, K) else '?',
                            b if b != INF else 'unbounded: ' + show(
                                r.fields.get('length'))[:80]))
                        total += b
                    if total > worst:
                        worst, worst_detail = total, parts
            rep.count('symbolic paths explored for %s' % fmt, n_paths,
                      floor=1)
            lim = budget(fmt)
            rep.case({'format': fmt, 'bound': str(worst), 'budget': lim,
                      'regions': worst_detail}, ('bound', fmt, str(worst)))
            # a failed proof obligation is "cannot prove" (exit 2); the
            # hostile-image witnesses below turn it into a violation when
            # the retention really exceeds the budget
            if worst == INF or worst > lim:
                UNPROVED[fmt] = 'sum of region length bounds %s (%s); ' \
                    'budget %d' % (worst, worst_detail, lim)
            else:
                rep.check('O4', 'region lengths[%s]' % fmt, True,
                          'every region length has a finite bound: %s' %
                          worst_detail)
                rep.check('O6', 'budget[%s]' % fmt, True,
                          'sum of region length bounds %s (%s); budget %d'
                          % (worst, worst_detail, lim))
    finally:
        world.loop_bound = old_loop


# ------------------------------------------------------------------ witnesses
def hostile(thorough):
    big = 3 * 1024 * KiB
    out = []
    for dn in (3072, 4096, 32768, 2 ** 20 - 1, 2 ** 20, 2 ** 32 - 1,
               2 ** 63, 2 ** 64 - 1, 2047, 2048):
        out.append(('vmdk', 'vmdk descriptor of %d sectors' % dn,
                    images.vmdk(desc_num=dn, length=big, fill=b'a')))
    # combinations of two features: the footer flag and a huge descriptor
    for dn in (8192, 2 ** 32 - 1, 2 ** 64 - 1):
        out.append(('vmdk', 'vmdk with footer flag, descriptor of %d sectors'
                    % dn, images.vmdk(desc_num=dn, gd=images.GD_AT_END,
                                      length=big, fill=b'a',
                                      footer=images.vmdk_footer(
                                          desc_num=dn))))
        out.append(('vmdk', 'vmdk version 3, descriptor of %d sectors' % dn,
                    images.vmdk(desc_num=dn, ver=3, length=big, fill=b'a')))
    # fields no length is normally derived from, at their maxima
    for dn in (0, 1):
        for rgd in (2 ** 32, 2 ** 64 - 1):
            out.append(('vmdk', 'vmdk descriptor of %d sectors, rgdOffset '
                        '%d' % (dn, rgd), images.vmdk(
                            desc_num=dn, rgd=rgd, length=big, fill=b'a')))
    out.append(('vmdk', 'pure text 3MiB', b'some text line\n' * (big // 15)))
    out.append(('vmdk', 'zeros 3MiB', b'\x00' * big))
    import struct
    import uuid
    for ln in (2 ** 32 - 1, 1024 * KiB, 600 * KiB):
        img = bytearray(images.vhdx(length=big // 2, fill=b'\x00'))
        hdr = 192 * KiB
        img[hdr + 16 + 24:hdr + 16 + 28] = struct.pack('<I', ln)
        out.append(('vhdx', 'vhdx metadata region announcing %d bytes' % ln,
                    bytes(img)))
    for il in (2 ** 32 - 1, 65537, 65536):
        out.append(('vhdx', 'vhdx size item of %d bytes' % il,
                    images.vhdx(item_len=il, length=big // 2)))
    for io in (600 * KiB, 1024 * KiB, 0x7fffffff, 0xfffffff8, 65537):
        out.append(('vhdx', 'vhdx size item at offset %d' % io,
                    images.vhdx(item_off=io, length=big // 2)))
    for cnt in (2047, 2048, 65535):
        img = bytearray(images.vhdx(length=big // 2))
        mo = 320 * KiB
        img[mo + 10:mo + 12] = struct.pack('<H', cnt)
        out.append(('vhdx', 'vhdx metadata count %d' % cnt, bytes(img)))
        img = bytearray(images.vhdx(length=big // 2))
        img[192 * KiB + 8:192 * KiB + 12] = struct.pack('<I', cnt)
        out.append(('vhdx', 'vhdx region count %d' % cnt, bytes(img)))
    for fmt in ('qcow2', 'qed', 'vhd', 'vdi', 'iso', 'luks', 'gpt', 'raw'):
        out.append((fmt, 'random-like 1MiB', bytes(range(256)) * 4096))
        out.append((fmt, 'text 1MiB', b'x' * (1024 * KiB)))
    return out


def _witnesses(ctx):
    rep = ctx.report
    reg = _insp.registry(ctx)
    tasks, imgs, meta = [], {}, {}
    for fmt, label, data in hostile(ctx.thorough):
        key = '%s|%s' % (fmt, label)
        imgs[key] = data
        meta[key] = (fmt, label)
        for s in M.SCHEDULES:
            tasks.append((reg[fmt], key, s.name))
    for fmt in ('vmdk', 'vhdx'):
        for label, data in _insp.family(fmt, ctx.thorough):
            key = '%s|%s' % (fmt, label)
            imgs[key] = data
            meta[key] = (fmt, label)
            tasks.append((reg[fmt], key, 'giant'))
            tasks.append((reg[fmt], key, 'trickle'))
    results = _insp.run_matrix(ctx, tasks, imgs)
    rep.count('hostile image runs', len(results), floor=150)
    worst, und = {}, {}
    for (cls, key, sched), res in sorted(results.items()):
        fmt, label = meta[key]
        if 'failure' in res:
            und.setdefault(fmt, (label, sched, res['failure']))
            continue
        obs = list(res['chunks']) + [res['final']]
        for i, o in enumerate(obs):
            ci = o.get('context_info')
            if not ci or ci[0] != 'value':
                und.setdefault(fmt, (label, sched, 'context_info %s' % (
                    ci,)))
                continue
            total = sum(ci[1].values())
            rep.evaluations += 1
            if total > worst.get(fmt, (0,))[0]:
                worst[fmt] = (total, label, sched, i, ci[1])
    for fmt in sorted(set(m[0] for m in meta.values())):
        if fmt in und:
            rep.undecided('O6', 'retention[%s]' % fmt,
                          'image %r, schedule %s: %s' % und[fmt])
            continue
        w = worst.get(fmt, (0, '-', '-', 0, {}))
        rep.nontrivial.add((fmt, w[0]))
        if fmt in UNPROVED and w[0] <= budget(fmt):
            rep.undecided('O6', 'budget[%s]' % fmt, 'cannot prove the '
                          'bound (%s) and no hostile image exceeds it' %
                          UNPROVED[fmt])
        rep.check('O6', 'retention[%s]' % fmt, w[0] <= budget(fmt),
                  'largest retention observed %d bytes (image %r, schedule '
                  '%s, after chunk %d: %s); budget %d' % (
                      w[0], w[1], w[2], w[3], w[4], budget(fmt)),
                  case={'image': w[1], 'schedule': w[2]})


# ------------------------------------------------------------------ O7
def _context_info(ctx):
    rep, world = ctx.report, ctx.world
    from ..core.table import extract
    cls = world.cls(MOD, 'RawFileInspector')
    reg_cls = world.cls(MOD, 'CaptureRegion')
    d1, d2 = T('sym', 'data1'), T('sym', 'data2')

    def thunk(interp):
        insp = interp.call(cls, [])
        for name, d in (('a', d1), ('b', d2)):
            r = interp.call(reg_cls, [K(0), K(10)])
            r.fields['data'] = d
            interp.call(interp.get_attr(insp, 'new_region'), [K(name), r])
        return interp.get_attr(insp, 'context_info')

    def setup(interp):
        interp.types[d1] = 'bytes'
        interp.types[d2] = 'bytes'
    outs, _i = extract(world, thunk, setup=setup)
    ok = len(outs) == 1 and outs[0].kind == 'return' and outs[0].exact
    v = outs[0].value if ok else None
    good = isinstance(v, DictV) and [k.v for k in v.keys] == ['a', 'b'] and \
        v.vals == [T('call', 'len', d1), T('call', 'len', d2)]
    rep.check('O7', 'FileInspector.context_info', bool(good),
              'context_info reports len(region.data) for every region; '
              'found %s' % show(v))
