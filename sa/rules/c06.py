"""C06 - InspectWrapper is a transparent pipe that isolates inspector
faults."""
import itertools

from ..core.absint import AbsRaise
from ..core.loader import AnalysisError
from ..core.table import extract, inexact_notes
from ..core.values import (K, T, Obj, TupleV, ListV, DictV, SetV, AbsFunc,
                           show)

MOD = 'imageutils.format_inspector'
NAMES = ('raw', 'vhd', 'vhdx', 'qcow2')


def standin(name, plan, log):
    """Abstract inspector: eat_chunk follows *plan* (chunk index ->
    'ok' | 'raise'), completeness / match flags per chunk index."""
    o = Obj(None, {'NAME': K(name)}, label='insp-' + name)
    state = {'n': 0}

    def eat(interp, a, kw):
        if state.get('finished'):
            # like FileInspector.eat_chunk after finish()
            interp.effect('eat-after-finish', name)
            raise AbsRaise(Obj(None, {'__class_name__': 'RuntimeError'},
                               label='marked-finished-%s' % name))
        i = state['n']
        state['n'] += 1
        interp.effect('eat', name, interp.termify(a[0]) if a else None)
        if plan.get('fault', {}).get(i):
            cname = plan['fault'][i]
            if cname == 'ImageFormatError':
                exc = interp.call(interp.world.cls(MOD, cname), [K('bad')])
                exc.label = 'fault-%s-%d' % (name, i)
            else:
                # raised without arguments, like ``raise ValueError``
                exc = Obj(None, {'__class_name__': cname,
                                 'args': TupleV([])},
                          label='fault-%s-%d' % (name, i))
            raise AbsRaise(exc)
        return K(None)

    def flag(which):
        def get():
            seq = plan.get(which, ())
            i = max(state['n'] - 1, 0)
            ff = plan.get('flag_fault', {})
            if i in ff:
                # reading complete / format_match of this inspector fails
                raise AbsRaise(Obj(None, {'__class_name__': ff[i]},
                                   label='flagfault-%s-%d' % (name, i)))
            return K(bool(seq[min(i, len(seq) - 1)])) if seq else K(False)
        return get
    o.fields['eat_chunk'] = AbsFunc('eat_chunk', eat)
    def finish(i, a, k):
        i.effect('finish', name)
        state['finished'] = True
        return K(None)
    o.fields['finish'] = AbsFunc('finish', finish)
    o.fields['__str__'] = AbsFunc('__str__', lambda i, a, k: K(name))
    o.dyn = {'complete': flag('complete'), 'format_match': flag('match')}
    return o


def install(world, interp, plans, log=None):
    """Replace ALL_FORMATS by factories of stand-ins for one path; returns
    a restore function."""
    env = world.env(MOD)
    saved = env['ALL_FORMATS']
    made = {}

    def factory(name):
        def make(interp2, a, kw):
            o = standin(name, plans.get(name, {}), log)
            made[name] = o
            return o
        return AbsFunc('make-' + name, make)
    env['ALL_FORMATS'] = DictV([(K(n), factory(n)) for n in plans])

    def on_attr(i, base, name):
        if isinstance(base, Obj) and hasattr(base, 'dyn') and \
                name in base.dyn:
            return base.dyn[name]()
        return None
    interp.on_attr = on_attr

    def restore():
        env['ALL_FORMATS'] = saved
    return restore, made


def source(n_chunks, kind, empties=(), closable=True):
    src = Obj(None, {}, label='source')
    st = {'i': 0}

    def read(interp, a, kw):
        i = st['i']
        st['i'] += 1
        interp.effect('source.read', K(i))
        if i >= n_chunks or i in empties:
            return K(b'')
        t = T('sym', 'chunk%d' % i)
        interp.types[t] = 'bytes'
        return t

    def nxt(interp, a, kw):
        i = st['i']
        st['i'] += 1
        interp.effect('source.next', K(i))
        if i >= n_chunks:
            raise AbsRaise(T('exc', 'StopIteration'))
        if i in empties:
            return K(b'')
        t = T('sym', 'chunk%d' % i)
        interp.types[t] = 'bytes'
        return t
    if kind == 'file':
        src.fields['read'] = AbsFunc('read', read)
    else:
        src.fields['__next__'] = AbsFunc('__next__', nxt)
    if closable:
        src.fields['close'] = AbsFunc('close', lambda i, a, k: (
            i.effect('source.close'), K(None))[1])
    src.fields['__hasattr__'] = {'close': closable}
    return src


def reference(plans, expected, n_chunks, allowed=None):
    """Expected trace per the property: -> (reads delivered, per-inspector
    chunks fed, final outcome).  A non-empty allow-list leaves only the
    listed formats (an expected format outside it has no inspector: the
    wrapper is a plain pipe for it)."""
    fed = {n: [] for n in plans}
    errored = set()
    delivered = 0
    for i in range(n_chunks):
        outcome = None
        for n in plans:
            if n in errored or (allowed and n not in allowed):
                continue
            fed[n].append(i)
            fault = plans[n].get('fault', {}).get(i)
            if fault:
                if n == expected:
                    outcome = ('raise', 'fault-%s-%d' % (n, i))
                    break_all = True
                else:
                    errored.add(n)
                continue
            if n == expected:
                comp = plans[n].get('complete', ())
                mat = plans[n].get('match', ())
                c = comp[min(i, len(comp) - 1)] if comp else False
                m = mat[min(i, len(mat) - 1)] if mat else False
                if c and not m:
                    outcome = ('raise', 'ImageFormatError')
        if outcome:
            return delivered, fed, outcome, i
        delivered += 1
    return delivered, fed, ('done',), n_chunks


def run(ctx):
    rep, world = ctx.report, ctx.world
    rep.explanation = (
        'InspectWrapper is constructed through its public constructor with '
        'ALL_FORMATS replaced by abstract inspectors whose eat_chunk follows '
        'a fault plan; read() / iteration are extracted for every single '
        'fault placement (inspector x chunk index, exhaustively), pairs of '
        'faults in different inspectors and chunks, every expected_format '
        '(each name, none, unknown) and completeness / match flags of the '
        'expected inspector.  Returned chunks are compared by identity with '
        'what the source produced; the per-inspector feeding trace and the '
        'cut-off point are compared with the trace the property prescribes.')
    rep.rule('R6.1', 'read()/iteration return the object obtained from the '
             'source, unmodified, in order')
    rep.rule('R6.2', 'fault table: a failing non-expected inspector is '
             'dropped silently and never fed again; a failing expected '
             'inspector propagates the same exception; expected complete '
             'without match -> ImageFormatError; no further source reads')
    rep.rule('R6.4', 'EOF: iteration finishes every inspector and re-raises '
             'StopIteration; close() closes the source and finishes')
    cls = world.cls(MOD, 'InspectWrapper')
    rep.analysed('imageutils.format_inspector.InspectWrapper.read',
                 'imageutils.format_inspector.InspectWrapper.__next__',
                 'imageutils.format_inspector.InspectWrapper._process_chunk',
                 'imageutils.format_inspector.InspectWrapper.close')
    n_chunks = 3
    scenarios = []
    names = NAMES
    # single faults, exhaustively
    for n in names:
        for i in range(n_chunks):
            for exc in ('ValueError', 'ImageFormatError'):
                scenarios.append({n: {'fault': {i: exc}}})
    # "any exception": classes a handler might be tempted to let through
    for n in names[:2]:
        for i in (0, 2):
            for exc in ('MemoryError', 'RecursionError', 'StopIteration',
                        'AssertionError', 'OSError', 'struct.error'):
                scenarios.append({n: {'fault': {i: exc}}})
    # pairs of faults in different inspectors / chunks
    for (n1, i1), (n2, i2) in itertools.combinations(
            [(n, i) for n in names for i in range(n_chunks)], 2):
        if n1 != n2:
            scenarios.append({n1: {'fault': {i1: 'ValueError'}},
                              n2: {'fault': {i2: 'KeyError'}}})
    # the same inspector failing twice must not be fed twice
    scenarios.append({'vhd': {'fault': {0: 'ValueError', 1: 'ValueError'}}})
    scenarios.append({})
    flagsets = [((False, False, False), (False, False, False)),
                ((False, True, True), (False, False, False)),
                ((False, True, True), (False, True, True)),
                ((True, True, True), (False, False, True)),
                ((False, False, True), (True, True, False))]
    n_cases = 0
    for kind in ('file', 'iter'):
        for expected in (None, 'vhdx', 'vhd', 'raw', 'zz'):
            for sc in scenarios:
                for comp, mat in (flagsets if expected in names
                                  and len(sc) <= 1 else flagsets[:1]):
                    plans = {n: dict(sc.get(n, {})) for n in names}
                    if expected in plans:
                        plans[expected]['complete'] = comp
                        plans[expected]['match'] = mat
                    n_cases += 1
                    _scenario(ctx, cls, kind, expected, plans, n_chunks)
    # empty chunks in the middle of the stream are data like any other
    for kind in ('file', 'iter'):
        for empties in ({1}, {0}, {0, 1}):
            for sc in ({}, {'vhd': {'fault': {2: 'ValueError'}}}):
                plans = {n: dict(sc.get(n, {})) for n in names}
                n_cases += 1
                _scenario(ctx, cls, kind, None, plans, n_chunks,
                          empties=empties)
    # complete / format_match of a non-expected inspector may raise too:
    # that is a failure inside an inspector and must not reach the reader
    for kind in ('file', 'iter'):
        for expected in (None, 'vhdx'):
            for who, at in (('qcow2', 0), ('vhd', 1), ('raw', 2)):
                plans = {n: {} for n in names}
                plans[who]['flag_fault'] = {at: 'struct.error'}
                if expected:
                    plans[expected]['complete'] = (False, False, False)
                    plans[expected]['match'] = (False, False, False)
                n_cases += 1
                _scenario(ctx, cls, kind, expected, plans, n_chunks)
    # read sizes are the caller's business: None / -1 / 0 go to the source
    n_cases += _read_sizes(ctx, cls)
    # an empty allowed_formats means "all formats"
    for kind in ('file', 'iter'):
        for allowed in ([], ()):
            for sc in ({'vhdx': {'fault': {1: 'ValueError'}}},
                       {'vhd': {'fault': {0: 'ValueError'}}}, {}):
                plans = {n: dict(sc.get(n, {})) for n in names}
                plans['vhdx'].setdefault('complete', (False, False, True))
                plans['vhdx'].setdefault('match', (False, False, False))
                n_cases += 1
                _scenario(ctx, cls, kind, 'vhdx', plans, n_chunks,
                          allowed=allowed)
    # a non-empty allow-list: the formats outside it have no inspector,
    # whether or not one of them is the expected format
    for kind in ('file', 'iter'):
        for allowed, expected in ((['qcow2', 'raw'], 'vhdx'),
                                  (['qcow2', 'raw'], 'qcow2'),
                                  (['raw'], 'vhd'), (['vhd', 'vhdx'], 'vhd'),
                                  (('raw', 'vhdx'), None)):
            for sc in ({expected: {'fault': {0: 'ValueError'}}},
                       {expected: {'complete': (False, True, True),
                                   'match': (False, False, False)}},
                       {'vhdx': {'fault': {1: 'KeyError'}}}, {}):
                if None in sc and len(sc) == 1:
                    continue
                plans = {n: dict(sc.get(n, {})) for n in names}
                n_cases += 1
                _scenario(ctx, cls, kind, expected, plans, n_chunks,
                          allowed=allowed)
    n_cases += query_invariance(ctx)
    _finish_never_raises(ctx)
    rep.count('fault scenarios', n_cases, floor=300)


def _read_sizes(ctx, cls):
    rep, world = ctx.report, ctx.world
    n = 0
    for sizes in ((None,), (512, None), (-1,), (0, 7), (1, -1, None)):
        n += 1
        holder = {}

        def thunk(interp, sizes=sizes):
            plans = {nm: {} for nm in NAMES}
            restore, made = install(world, interp, plans)
            try:
                src = Obj(None, {}, label='source')
                st = {'i': 0}

                def read(i2, a, kw):
                    i = st['i']
                    st['i'] += 1
                    i2.effect('source.read', K(i), tuple(
                        i2.termify(x) for x in a))
                    t = T('sym', 'chunk%d' % i)
                    i2.types[t] = 'bytes'
                    return t
                src.fields['read'] = AbsFunc('read', read)
                src.fields['__hasattr__'] = {'close': False}
                w = interp.call(cls, [src])
                interp.effects[:] = []
                out = []
                for sz in sizes:
                    out.append(interp.call(interp.get_attr(w, 'read'),
                                           [K(sz)]))
                return TupleV(out)
            finally:
                restore()
        outcomes, _i = extract(world, thunk, depth=6)
        key = 'InspectWrapper.read[sizes %s]' % (sizes,)
        notes = inexact_notes(outcomes)
        if notes or not outcomes:
            rep.undecided('R6.1', key, 'inexact: %s' % notes)
            continue
        for o in outcomes:
            reads = [e for e in o.effects if e[0] == 'source.read']
            ok = o.kind == 'return' and isinstance(o.value, TupleV) and \
                [x for x in o.value.items] == [
                    T('sym', 'chunk%d' % i) for i in range(len(sizes))] and \
                [e[2] for e in reads] == [(K(sz),) for sz in sizes]
            fed = {}
            for e in o.effects:
                if e[0] == 'eat':
                    fed.setdefault(e[1], []).append(e[2])
            ok = ok and all(fed.get(nm) == [
                T('sym', 'chunk%d' % i) for i in range(len(sizes))]
                for nm in NAMES)
            rep.check('R6.1', key, ok,
                      'every read(size) asks the source for exactly that '
                      'size, returns what it got and feeds it to every '
                      'inspector; found %s, source asked %s, fed %s' % (
                          o.brief()[:80], [show(T('c', *e[2])) for e in
                                           reads], {k: len(v) for k, v in
                                                    fed.items()}))
    return n


def query_invariance(ctx):
    """format / formats queried after every read must not change what the
    inspectors are fed (also part of C01: queries made in between)."""
    world = ctx.world
    cls = world.cls(MOD, 'InspectWrapper')
    names, n_chunks, n_cases = NAMES, 3, 0
    decided = {n: {'complete': (True, True, True),
                   'match': (n == 'qcow2',) * 3} for n in names}
    undecided = {n: {'complete': (False, False, True),
                     'match': (n == 'qcow2',) * 3} for n in names}
    for kind in ('file', 'iter'):
        for plans in (decided, undecided):
            for extra in ({}, {'vhd': {0: 'ValueError'}}):
                p = {n: dict(v) for n, v in plans.items()}
                for n, f in extra.items():
                    p[n]['fault'] = f
                n_cases += 1
                _scenario(ctx, cls, kind, None, p, n_chunks, query=True)
    return n_cases


def _scenario(ctx, cls, kind, expected, plans, n_chunks, query=False,
              empties=(), allowed=None):
    rep, world = ctx.report, ctx.world
    faults = {n: p['fault'] for n, p in plans.items() if p.get('fault')}
    label = '%s%s%s%s source, expected=%s, faults=%s, flags=%s' % (
        'format queried after every read, ' if query else '',
        'empty chunk(s) at %s, ' % sorted(empties) if empties else '',
        'allowed_formats=%r, ' % (allowed,) if allowed is not None else '',
        kind, expected, faults or '-',
        (plans.get(expected, {}).get('complete'),
         plans.get(expected, {}).get('match')) if expected in plans else '-')
    key = 'InspectWrapper[%s, expected %s]' % (
        kind, 'given' if expected in plans else expected)
    holder = {}

    def thunk(interp):
        restore, made = install(world, interp, plans)
        try:
            src = source(n_chunks, kind, empties)
            kw = {'expected_format': K(expected)}
            if allowed is not None:
                kw['allowed_formats'] = ListV([K(a) for a in allowed])
            interp.decide = lambda i, t: True if (
                isinstance(t, T) and t.op == 'sym' and
                str(t.args[0]).startswith('chunk')) else None
            w = interp.call(cls, [src], kw)
            interp.effects[:] = []
            got = []
            holder['got'] = got
            holder['made'] = made
            for i in range(n_chunks):
                if kind == 'file':
                    c = interp.call(interp.get_attr(w, 'read'), [K(4096)])
                else:
                    c = interp.call(interp.get_attr(w, '__next__'), [])
                got.append(c)
                interp.effect('delivered', K(i), interp.termify(c))
                if query:
                    for attr in ('formats', 'format'):
                        try:
                            interp.get_attr(w, attr)
                        except AbsRaise:
                            pass
            if kind == 'iter':
                try:
                    interp.call(interp.get_attr(w, '__next__'), [])
                    interp.effect('no-stop')
                except AbsRaise as r:
                    interp.effect('stop', interp.termify(r.exc))
            interp.call(interp.get_attr(w, 'close'), [])
            return K(None)
        finally:
            restore()
    outcomes, _i = extract(world, thunk, depth=6)
    notes = inexact_notes(outcomes)
    if notes or not outcomes:
        rep.undecided('R6.2', key, '%s: %d paths, notes %s' % (
            label, len(outcomes), notes))
        return

    def judge(o):
        want_delivered, want_fed, want_out, at = reference(
            plans, expected, n_chunks, allowed)
        delivered = [e for e in o.effects if e[0] == 'delivered']
        # R6.1 identity of delivered chunks
        ok = all(e[2] == (K(b'') if e[1].v in empties else
                          T('sym', 'chunk%d' % e[1].v)) for e in delivered)
        rep.check('R6.1', key + ':identity', ok,
                  '%s: delivered %s' % (label, [show(e[2]) for e in delivered]),
                  case=label)
        fed = {}
        for e in o.effects:
            if e[0] == 'eat':
                fed.setdefault(e[1], []).append(e[2])
        def idx(x, pos, seq):
            if isinstance(x, T) and x.op == 'sym' and \
                    str(x.args[0]).startswith('chunk') and \
                    str(x.args[0])[5:].isdigit():
                return int(x.args[0][5:])
            if x == K(b'') and empties:
                # the k-th empty chunk this inspector saw
                seen = [j for j in range(n_chunks)
                        if j in empties or True]
                before = [idx(y, 0, ()) for y in seq[:pos]]
                cand = [j for j in sorted(empties)
                        if j not in before and all(
                            isinstance(b, int) and b < j or b in empties
                            for b in before)]
                return cand[0] if cand else show(x)
            return show(x)
        got_fed = {}
        for n in plans:
            seq = fed.get(n, [])
            out = []
            for pos, x in enumerate(seq):
                out.append(idx(x, pos, seq))
            got_fed[n] = out
        rep.case({'case': label, 'outcome': o.brief(),
                  'fed': {k: v for k, v in got_fed.items()}},
                 (key, o.kind, tuple(sorted((k, tuple(v)) for k, v in
                                            got_fed.items()))))
        if want_out[0] == 'done':
            good = o.kind == 'return' and len(delivered) == n_chunks and \
                got_fed == want_fed
            rep.check('R6.2', key, good,
                      '%s: required every chunk delivered and inspectors fed '
                      '%s; found %s, %d delivered, fed %s' % (
                          label, want_fed, o.brief(), len(delivered), got_fed),
                      case=label)
            if kind == 'iter':
                stops = [e for e in o.effects if e[0] == 'stop']
                fin = [e[1] for e in o.effects if e[0] == 'finish']
                alive = set(n for n in plans if not plans[n].get('fault')
                            and (not allowed or n in allowed))
                rep.check('R6.4', key + ':eof', len(stops) == 1 and
                          stops[0][1] == T('exc', 'StopIteration') and
                          set(fin) >= alive,
                          '%s: at EOF StopIteration is re-raised after every '
                          'inspector was finished (finished: %s)' % (label, fin))
            closes = [e for e in o.effects if e[0] == 'source.close']
            rep.check('R6.4', key + ':close', len(closes) == 1,
                      '%s: close() closes the source' % label)
        else:
            reads = [e for e in o.effects if e[0] in ('source.read',
                                                      'source.next')]
            if want_out[1] == 'ImageFormatError':
                exc_ok = o.kind == 'raise' and o.exc_class == 'ImageFormatError'
            else:
                exc_ok = o.kind == 'raise' and isinstance(o.value, Obj) and \
                    o.value.label == want_out[1]
            good = exc_ok and len(delivered) == want_delivered and \
                len(reads) == at + 1
            # inspectors visited before the expected one in the same chunk are
            # fed, the others may or may not be (set iteration order)
            for n in plans:
                g, w = got_fed[n], want_fed[n]
                if not (g == w or (n != expected and g == w[:-1]) or
                        (n != expected and w == g[:-1])):
                    good = False
            rep.check('R6.2', key, good,
                      '%s: required %s at chunk %d after %d delivered chunks '
                      'and no further source read; found %s, %d delivered, %d '
                      'source reads, fed %s' % (
                          label, want_out, at, want_delivered, o.brief(),
                          len(delivered), len(reads), got_fed), case=label)

    # every path (e.g. both answers of an identity test on equal strings)
    # is held to the same expectations
    for o_ in outcomes:
        judge(o_)


def _finish_never_raises(ctx):
    """_finish()/close() call finish() of every inspector unguarded: no real
    inspector's finish() may raise, in any capture state."""
    from ..specs import images
    from . import _insp
    rep = ctx.report
    reg = _insp.registry(ctx)
    imgs = {
        'empty': b'', 'one byte': b'x', 'zeros 4K': b'\x00' * 4096,
        'vmdk clean': images.vmdk(),
        'vmdk announcing a footer, 1000 bytes': images.vmdk(
            gd=images.GD_AT_END, length=4096)[:1000],
        'vmdk announcing a footer, 600 bytes': images.vmdk(
            gd=images.GD_AT_END, length=4096)[:600],
        'vmdk footer consistent': images.vmdk(
            gd=images.GD_AT_END, footer=images.vmdk_footer()),
        'vhdx header only': images.vhdx()[:256 * 1024],
    }
    tasks = [(cls, key, s) for cls in sorted(reg.values()) for key in imgs
             for s in ('giant', 'small-then-giant')]
    results = _insp.run_matrix(ctx, tasks, imgs)
    bad = None
    for (cls, key, sched), res in sorted(results.items()):
        if 'failure' in res:
            rep.undecided('R6.4', 'finish[%s]' % cls, 'image %r: %s' % (
                key, res['failure']))
            continue
        if res.get('finish_error'):
            bad = bad or (cls, key, sched, res['finish_error'])
    rep.evaluations += len(results)
    rep.check('R6.4', 'finish() of every inspector', bad is None,
              'finish() returns normally on %d (inspector, stream, '
              'schedule) runs' % len(results) if bad is None else
              '%s.finish() raises on stream %r (schedule %s): %s - the '
              'error escapes from InspectWrapper.__next__ / close() to the '
              'reader' % bad)
