"""C07 - virtual_size equals the disk size the image declares."""
from ..core import inspmodel as M
from ..core.loader import AnalysisError
from ..specs import formats, images
from . import _insp

ZERO_WHILE_UNKNOWN = ('qcow2', 'vhd', 'vhdx', 'vmdk', 'vdi', 'iso')
FORMATS = ('qcow2', 'vhd', 'vhdx', 'vmdk', 'vdi', 'iso', 'luks', 'gpt')


def run(ctx):
    rep = ctx.report
    rep.explanation = (
        'Every inspector class is instantiated through its constructor and '
        'driven through its real eat_chunk / post_process / region_complete '
        '/ finish code by the abstract interpreter, with only the capture '
        'arithmetic replaced by an abstract capture model (a schedule says '
        'how far each region is filled per chunk; region data is the '
        'symbolic byte string stream[offset:offset+n]).  The parsing code '
        'thus runs on symbolic bytes; paths are enumerated lazily for a '
        'family of images built from the format layouts (declared sizes '
        'over each field\'s range, layout variation, truncations) under '
        'four schedules, and the extracted virtual_size term is evaluated '
        'on the image and compared with a reference decoder written from '
        'the format specifications.  After every chunk the size must be 0 '
        'or the final size and the accessor must not raise (qcow2, VHD, '
        'VHDX, VMDK, VDI, ISO).  The capture arithmetic itself is not '
        'decided here (C01).')
    rep.rule('R7.1', 'final virtual_size equals the size the layout '
             'declares (reference decoder in sa/specs/formats.py)')
    rep.rule('R7.2', 'while the structure carrying the size has not been '
             'captured virtual_size is 0 and never raises')
    rep.rule('R7.3', 'from_file presents every chunk it reads (a final '
             'short one included) until the inspector is complete, then '
             'finishes it')
    _from_file(ctx)
    reg = _insp.registry(ctx)
    tasks, imgs, meta = [], {}, {}
    for fmt in FORMATS + ('raw',):
        if fmt not in reg:
            raise AnalysisError('format %s vanished from ALL_FORMATS' % fmt)
        fam = _insp.family(fmt if fmt != 'raw' else 'text', ctx.thorough)
        if fmt == 'vmdk':
            fam += _insp.family('text', ctx.thorough)[:4]
        for label, data in fam:
            key = '%s|%s' % (fmt, label)
            imgs[key] = data
            meta[key] = (fmt, label)
            for s in M.SCHEDULES:
                tasks.append((reg[fmt], key, s.name))
        rep.analysed('imageutils.format_inspector.%s.virtual_size' %
                     reg[fmt])
    results = _insp.run_matrix(ctx, tasks, imgs)
    rep.count('inspector x image x schedule runs', len(results), floor=1000)
    bad_final, bad_prefix, undecided = {}, {}, {}
    n_ok = {}
    for (cls, key, sched), res in sorted(results.items()):
        fmt, label = meta[key]
        if 'failure' in res:
            undecided.setdefault(fmt, (label, sched, res['failure']))
            continue
        data = imgs[key]
        if fmt == 'raw':
            want = len(data)
        elif fmt == 'vmdk' and label.startswith(('text', 'plain')):
            want = 0
        else:
            want = formats.SPECS[fmt](data).size
        final = res['final']['virtual_size']
        if final[0] == 'unevaluable' or any(
                ch['virtual_size'][0] == 'unevaluable'
                for ch in res['chunks']):
            undecided.setdefault(fmt, (label, sched, 'virtual_size is a '
                                       'term the model cannot evaluate: %s'
                                       % (final,)))
            continue
        n_ok[fmt] = n_ok.get(fmt, 0) + 1
        if len(rep.samples) < 10 and sched == 'giant':
            rep.case({'format': fmt, 'image': label, 'schedule': sched,
                      'virtual_size': _insp.describe(final)},
                     (fmt, label, _insp.describe(final)))
        else:
            rep.evaluations += 1
            rep.nontrivial.add((fmt, _insp.describe(final)))
        if want is not None and final != ('value', want):
            bad_final.setdefault(fmt, (label, sched, final, want))
        # a region located behind the stream position cannot be captured in
        # a real stream cut like this schedule: the size it carries is lost
        # (the capture model would still hand it over)
        if want:
            for name, info in (res.get('born') or {}).items():
                kind, off, _floor, chunk_floor = info
                if kind != 'tail' and off is not None and \
                        chunk_floor is not None and off < chunk_floor:
                    bad_final.setdefault(fmt, (
                        label, sched, ('value', 0), '%r (region %r is '
                        'defined at offset %d after %d bytes have gone by)'
                        % (want, name, off, chunk_floor)))
        if fmt in ZERO_WHILE_UNKNOWN:
            fin = _insp.val(final)
            for i, ch in enumerate(res['chunks']):
                v = ch['virtual_size']
                if v[0] != 'value' or v[1] not in (0, fin):
                    bad_prefix.setdefault(fmt, (label, sched, i, v))
    for fmt in FORMATS + ('raw',):
        if fmt in undecided:
            rep.undecided('R7.1', 'virtual_size[%s]' % fmt,
                          'image %r, schedule %s: %s' % undecided[fmt])
            continue
        b = bad_final.get(fmt)
        rep.check('R7.1', 'virtual_size[%s]' % fmt, b is None,
                  '%d runs agree with the reference decoder' % n_ok.get(
                      fmt, 0) if b is None else
                  'image %r under schedule %s: virtual_size is %s, the '
                  'layout declares %s' % (b[0], b[1], _insp.describe(b[2]),
                                          b[3]),
                  case=None if b is None else {'image': b[0],
                                               'schedule': b[1]})
        if fmt in ZERO_WHILE_UNKNOWN:
            b = bad_prefix.get(fmt)
            rep.check('R7.2', 'virtual_size[%s] while unknown' % fmt,
                      b is None, 'size is 0 (or already final) after every '
                      'chunk' if b is None else
                      'image %r under schedule %s: after chunk %d '
                      'virtual_size is %s' % (b[0], b[1], b[2],
                                              _insp.describe(b[3])),
                      case=None if b is None else {'image': b[0],
                                                   'schedule': b[1],
                                                   'chunk': b[2]})


def _from_file(ctx):
    """FileInspector.from_file on a scripted file: reads of 512, 512 and
    100 bytes, then the empty read; the inspector (a stand-in) becomes
    complete with the k-th chunk."""
    from ..core.absint import AbsRaise
    from ..core.table import extract, inexact_notes
    from ..core.termeval import ev, CannotEval, Raised
    from ..core.values import K, T, Obj, AbsFunc, show
    from .c06 import standin, source
    rep, world = ctx.report, ctx.world
    f = world.func(M.MOD, 'FileInspector.from_file')
    rep.analysed('imageutils.format_inspector.FileInspector.from_file',
                 'imageutils.format_inspector._chunked_reader')

    def len_hook(v, val):
        if isinstance(v, T) and v.op == 'call' and v.args[0] == 'len' and \
                len(v.args) == 2 and isinstance(v.args[1], T) and \
                v.args[1].op == 'sym' and str(
                    v.args[1].args[0]).startswith('chunk'):
            return 100 if str(v.args[1].args[0]) == 'chunk2' else 512
        return NotImplemented
    for complete_at, match in ((0, True), (1, True), (2, True), (2, False),
                               (None, True)):
        flags = tuple(complete_at is not None and i >= complete_at
                      for i in range(3))
        plan = {'complete': flags, 'match': (match,)}
        label = 'complete with chunk %s, match %s' % (complete_at, match)
        holder = {}

        def thunk(interp):
            insp = standin('x', plan, None)
            holder['insp'] = insp
            src = source(3, 'file')
            src.fields['__enter__'] = AbsFunc('__enter__',
                                              lambda i, a, k: src)
            src.fields['__exit__'] = AbsFunc(
                '__exit__', lambda i, a, k: (i.effect('file.exit'),
                                             K(None))[1])

            def on_call(i, name, fv, args, kwargs):
                if name == 'open':
                    return src
                return NotImplemented
            interp.on_call = on_call

            def on_attr(i, base, name):
                if isinstance(base, Obj) and hasattr(base, 'dyn') and \
                        name in base.dyn:
                    return base.dyn[name]()
                return None
            interp.on_attr = on_attr

            def decide(i, t):
                if isinstance(t, T) and t.op == 'sym' and \
                        str(t.args[0]).startswith('chunk'):
                    return True
                if isinstance(t, T) and t.op in ('cmp', 'not') and \
                        'len(chunk' in show(t):
                    try:
                        return bool(ev(t, {}, [len_hook]))
                    except (CannotEval, Raised):
                        return None
                return None
            interp.decide = decide
            factory = AbsFunc('inspector class', lambda i, a, k: insp)
            return interp.call(f.bind(factory), [T('sym', 'filename')])
        old = world.loop_bound
        world.loop_bound = 6
        try:
            outcomes, _i = extract(world, thunk, depth=7)
        finally:
            world.loop_bound = old
        key = 'from_file[%s]' % label
        notes = inexact_notes(outcomes)
        if notes or len(outcomes) != 1:
            rep.undecided('R7.3', key, '%d paths %s' % (len(outcomes),
                                                        notes))
            continue
        o = outcomes[0]
        fed = [show(e[2]) for e in o.effects if e[0] == 'eat']
        fin = [e for e in o.effects if e[0] == 'finish']
        n_want = 3 if complete_at is None else complete_at + 1
        want_fed = ['chunk%d' % i for i in range(n_want)]
        if complete_at is None or not match:
            ok = o.kind == 'raise' and o.exc_class == 'ImageFormatError'
            what = 'ImageFormatError'
        else:
            ok = o.kind == 'return' and o.value is holder['insp']
            what = 'the inspector'
        rep.case({'case': label, 'fed': fed, 'outcome': o.brief()},
                 (key, tuple(fed), o.kind))
        rep.check('R7.3', key, ok and fed == want_fed and len(fin) == 1,
                  '%s: required chunks %s presented, one finish(), result '
                  '%s; found %s presented, %d finish(), %s' % (
                      label, want_fed, what, fed, len(fin), o.brief()))
