"""C08 - mask_dict_password masks recursively and never modifies its
argument."""
import itertools

from ..core.absint import AbsRaise
from ..core.loader import AnalysisError
from ..core.table import extract, inexact_notes
from ..core.values import (K, T, Obj, TupleV, ListV, DictV, AbsFunc, show,
                           same)

MOD = 'strutils'
SECRET = T('sym', 'secret')
MUTATORS = ('pop', 'popitem', 'update', 'setdefault', 'clear',
            '__setitem__', '__delitem__')


def mapping(entries, kind='dict', label='arg'):
    """Abstract Mapping argument: read API returns the entries, every
    mutating API records a 'mutate' effect."""
    obj = Obj(None, {'__type__': kind, '__truth__': bool(entries)},
              label=label)
    pairs = [TupleV([k, v]) for k, v in entries]

    def ro(name, value):
        return AbsFunc(name, lambda interp, a, kw: value())

    obj.fields['items'] = ro('items', lambda: ListV(list(pairs)))
    obj.fields['keys'] = ro('keys', lambda: ListV([k for k, _v in entries]))
    obj.fields['values'] = ro('values',
                              lambda: ListV([v for _k, v in entries]))
    obj.fields['__iter_items__'] = [k for k, _v in entries]
    obj.fields['__len__'] = ro('__len__', lambda: K(len(entries)))

    def getitem(interp, a, kw):
        for k, v in entries:
            if same(k, a[0]):
                return v
        raise AbsRaise(T('exc', 'KeyError', interp.termify(a[0])))
    obj.fields['__getitem__'] = AbsFunc('__getitem__', getitem)
    obj.fields['get'] = AbsFunc('get', lambda interp, a, kw: next(
        (v for k, v in entries if same(k, a[0])),
        a[1] if len(a) > 1 else K(None)))
    for m in MUTATORS:
        def mut(interp, a, kw, m=m):
            interp.effect('mutate', label, m)
            return K(None)
        obj.fields[m] = AbsFunc(m, mut)
    obj.entries = entries

    def eq(interp, a, kw):
        return K(_same_mapping(obj, a[0]))
    obj.fields['__eq__'] = AbsFunc('__eq__', eq)
    obj.fields['__ne__'] = AbsFunc('__ne__', lambda i, a, kw: K(
        not _same_mapping(obj, a[0])))
    return obj


def _same_mapping(m, other):
    """Equality of an abstract mapping with a dict built by the code."""
    if other is m:
        return True
    if isinstance(other, Obj) and hasattr(other, 'entries'):
        pairs = other.entries
    elif isinstance(other, DictV) and not other.unknown:
        pairs = list(zip(other.keys, other.vals))
    else:
        return False
    if len(pairs) != len(m.entries):
        return False
    for (k1, v1), (k2, v2) in zip(m.entries, pairs):
        if not same(k1, k2):
            return False
        if isinstance(v1, Obj) and hasattr(v1, 'entries'):
            if not _same_mapping(v1, v2):
                return False
        elif not (v1 is v2 or same(v1, v2)):
            return False
    return True


def expected(entries, keys):
    """Reference result per the property: list of (key, expectation)."""
    out = []
    for k, v in entries:
        if isinstance(v, Obj) and v.fields.get('__type__') in ('dict',
                                                               'Mapping'):
            out.append((k, ('nested', expected(v.entries, keys))))
        elif isinstance(k, K) and isinstance(k.v, str) and \
                any(s in k.v.lower() for s in keys):
            out.append((k, ('secret',)))
        elif isinstance(v, K) and isinstance(v.v, str) or (
                isinstance(v, T) and v.op == 'sym' and
                v.args[0].startswith('str')):
            out.append((k, ('masked', v)))
        else:
            out.append((k, ('same', v)))
    return out


# value -> bool: the extracted mask_password leaves the value as it is (so
# handing it out directly is the same as passing it through)
UNCHANGED = [None]


def matches(got, exp, inputs):
    """Compare an abstract result dict with the expectation."""
    if not isinstance(got, DictV) or got.unknown:
        return 'result is %s, not a new dict' % show(got)
    if any(got is i for i in inputs):
        return 'the argument itself is returned'
    if len(got.keys) != len(exp):
        return 'keys %s, required %s' % ([show(k) for k in got.keys],
                                         [show(k) for k, _e in exp])
    for (k, e), gk, gv in zip(exp, got.keys, got.vals):
        if not same(k, gk):
            return 'key %s at the position of %s' % (show(gk), show(k))
        if e[0] == 'nested':
            m = matches(gv, e[1], inputs)
            if m:
                return 'under key %s: %s' % (show(k), m)
        elif e[0] == 'secret':
            if gv != SECRET:
                return 'value of key %s is %s, required the mask' % (
                    show(k), show(gv))
        elif e[0] == 'masked':
            want = T('call', 'mask_password', e[1], T('kw', 'secret', SECRET))
            want2 = T('call', 'mask_password', e[1], SECRET)
            if gv not in (want, want2) and not (
                    isinstance(gv, K) and gv == e[1] and
                    UNCHANGED[0] is not None and UNCHANGED[0](gv.v)):
                return ('value of key %s is %s, required mask_password'
                        '(value, secret)' % (show(k), show(gv)))
        else:
            if not (gv is e[1] or same(gv, e[1])):
                return 'value of key %s is %s, required the value itself ' \
                       '(%s)' % (show(k), show(gv), show(e[1]))
    return None


def run(ctx):
    rep, world = ctx.report, ctx.world
    rep.explanation = (
        'mask_dict_password is extracted by abstract interpretation on '
        'abstract mappings (dict and non-dict Mapping stand-ins whose '
        'mutating API records an effect): every sanitize key alone, in '
        'upper case and embedded; near misses; non-string keys; every '
        'ordered pair of entry kinds; nesting to depth 2; non-mapping '
        'arguments.  The result must be a new dict with the same keys and '
        'the value decision table of the property, no effect may touch the '
        'argument.  mask_password itself (C04) is stubbed.')
    rep.rule('R8.1', 'no mutation of the argument or anything reachable '
             'from it')
    rep.rule('R8.2', 'the result is a new dict holding every key once')
    rep.rule('R8.4', 'value decision table: mapping -> recursion with the '
             'same secret; str key containing a sanitize key -> secret; '
             'str value -> mask_password(v, secret); else the value itself')
    rep.rule('R8.5', 'a non-mapping argument raises TypeError')
    f = world.func(MOD, 'mask_dict_password')
    rep.analysed('strutils.mask_dict_password')
    try:
        keys = world.const(MOD, '_SANITIZE_KEYS')
    except AnalysisError:
        from ..specs.sanitize import REFERENCE_KEYS
        keys = list(REFERENCE_KEYS)
    rep.count('sanitize keys', len(keys), floor=1)
    pipe = {}

    def unchanged(text):
        from .c04 import Pipeline
        from ..core.termeval import CannotEval
        if 'p' not in pipe:
            pipe['p'] = Pipeline(ctx, keys)
        try:
            return pipe['p'].run(text, '\x00MASK\x00') == text
        except (CannotEval, AnalysisError):
            return False
    UNCHANGED[0] = unchanged

    def stub(interp, args, kwargs):
        a = tuple(interp.termify(x) for x in args) + tuple(
            T('kw', k, interp.termify(v)) for k, v in sorted(kwargs.items()))
        t = T('call', 'mask_password', *a)
        interp.effect('call', 'mask_password', a)
        interp.types[t] = 'str'
        return t

    def analyse(label, build, want_type_error=False):
        holder = {}

        def thunk(interp):
            arg = build()
            holder['arg'] = arg
            return interp.call(f, [arg], {'secret': SECRET})

        def setup(interp):
            interp.stubs['mask_password'] = stub
            interp.types[SECRET] = 'str'
            interp.max_recursion = 8        # the recursion follows the data
        outcomes, _i = extract(world, thunk, setup=setup, depth=30,
                               capture=lambda i: holder.get('arg'))
        notes = inexact_notes(outcomes)
        if notes or not outcomes:
            rep.undecided('R8.4', label, 'inexact: %s' % notes)
            return
        # every path (e.g. both answers of a comparison the code makes on
        # the masked text) is held to the same table
        for o in outcomes:
            judge(label, o, o.state, want_type_error)

    def judge(label, o, arg, want_type_error):
        rep.case({'argument': label, 'outcome': o.brief()[:200]},
                 (label, o.kind))
        if want_type_error:
            rep.check('R8.5', label, o.kind == 'raise' and
                      o.exc_class == 'TypeError',
                      'mask_dict_password(%s) -> %s, required TypeError' % (
                          label, o.brief()), case=label)
            return
        if o.kind != 'return':
            rep.check('R8.4', label, False, '%s -> %s' % (label, o.brief()),
                      case=label)
            return
        inputs = _all_inputs(arg)
        msg = matches(o.value, expected(arg.entries, keys), inputs)
        if msg and 'ret(mask_dict_password' in msg:
            # the recursion went deeper than the interpreter follows calls
            # (a rewrite that spends more frames per level): no answer
            rep.undecided('R8.4', label, '%s: %s (call depth of the '
                          'analysis reached)' % (label, msg))
            return
        rep.check('R8.4', label, msg is None,
                  '%s: %s' % (label, msg or 'value table holds'), case=label)
        # writes to the argument or to something reachable from it (an
        # attribute store on a helper object the code made for itself is
        # its own business)
        in_labels = set(i.label for i in inputs if isinstance(i, Obj))
        muts = [e for e in o.effects if e[0] == 'mutate' or (
            e[0] in ('write', 'delattr') and e[1] in in_labels)]
        in_refs = set()
        for i in inputs:
            if isinstance(i, (ListV, DictV)):
                in_refs.add(T('ref', type(i).__name__, id(i) % 100000))
        muts += [e for e in o.effects if e[0] in ('append', 'setitem',
                                                  'delitem', 'setadd')
                 and e[1] in in_refs]
        rep.check('R8.1', label, not muts,
                  '%s: the argument is modified (%s)' % (
                      label, [e[:3] for e in muts][:3]) if muts else
                  '%s: no effect touches the argument' % label, case=label)

    # --- a call after an earlier call with another mask: nothing of the
    # first call may show in the second
    def analyse_second(label, build):
        holder = {}
        first = T('sym', 'secret_of_an_earlier_call')

        def thunk(interp):
            interp.call(f, [build()], {'secret': first})
            arg = build()
            holder['arg'] = arg
            return interp.call(f, [arg], {'secret': SECRET})

        def setup(interp):
            interp.stubs['mask_password'] = stub
            interp.types[SECRET] = 'str'
            interp.types[first] = 'str'
            interp.max_recursion = 8
        outcomes, _i = extract(world, thunk, setup=setup, depth=30,
                               capture=lambda i: holder.get('arg'))
        notes = inexact_notes(outcomes)
        if notes or not outcomes:
            rep.undecided('R8.4', label, 'inexact: %s' % notes)
            return
        for o in outcomes:
            judge(label, o, o.state, False)
    analyse_second(
        'second call with another mask',
        lambda: mapping([(K('password'), K('p')), (K('note'), K('--token t')),
                         (K('plain'), K('words')),
                         (K('sub'), mapping([(K('x'), K('password=abc'))],
                                            'Mapping', label='inner'))]))
    # --- non-mapping arguments
    for lab, v in (('None', K(None)), ("''", K('')), ('0', K(0)),
                   ('[]', ListV()), ('5', K(5)), ("'x'", K('x')),
                   ('()', K(())), ('False', K(False)), ('b""', K(b'')),
                   ('[1]', ListV([K(1)]))):
        analyse('non-mapping %s' % lab, lambda v=v: v, want_type_error=True)
    # objects that merely look like a mapping (items()/keys()/[]) but are
    # not collections.abc.Mapping instances
    analyse('non-mapping object with items()',
            lambda: mapping([(K('password'), K('p')), (K('a'), K(1))],
                            'other', label='duck'), want_type_error=True)
    analyse('non-mapping empty object with items()',
            lambda: mapping([], 'other', label='duck'), want_type_error=True)
    # --- empty mappings
    for kind in ('dict', 'Mapping'):
        analyse('empty %s' % kind, lambda kind=kind: mapping([], kind))
    # --- every sanitize key: exact, upper-cased, embedded, digit suffix
    other = ListV([K(1)])
    for key in keys:
        for spell in (key, key.upper(), 'x_' + key + '_y', key + '1',
                      key.capitalize()):
            analyse('{%r: <str>}' % spell,
                    lambda s=spell: mapping([(K(s), K('value'))]))
        analyse('{%r: <list>}' % key,
                lambda s=key: mapping([(K(s), ListV([K(1)]))]))
    # --- near misses and non-string keys
    for k in (K('user'), K('tok'), K('passwor'), K(''), K(5), K((1, 2)),
              K(b'password'), K(None), K('pass word'), K('new-pass'),
              K('admin-pass'), K('X-SYS-PSWD-2'), K('private.key'),
              K('pass_word'), K('p\u0430ssword'),
              # characters that only a case-insensitive *match* folds onto
              # ASCII letters (long s, dotless i, dotted capital I, Kelvin
              # sign): str.lower() leaves them different from the key
              K('pa\u017f\u017fword'), K('adm\u0131n_pass'),
              K('ADM\u0130N_PASS'), K('to\u212aen'),
              K('\u017fecret'), K('pa\u017fsphrase'),
              # containers that have a sanitize key as *member*: only a
              # string key can contain one as a substring
              K(('password',)), K(('password', 1)), K((1, 'token')),
              K(frozenset({'secret'})), K(b'token')):
        for v in (K('text'), K(7), K(None), K(b'bytes'),
                  # secrets embedded in every notation mask_password knows,
                  # and values made of other characters only
                  K('<adminPass>x</adminPass>'), K('--password s3'),
                  K("{'token': 'abc'}"), K('password=x'), K(''),
                  K('sslkey "k"'), K('plain words only'), K(0), K(0.0),
                  K(False), K(())):
            analyse('{%s: %s}' % (show(k), show(v)),
                    lambda k=k, v=v: mapping([(k, v)]))
    # --- ordered pairs of entry kinds (state carried between iterations)
    kinds = [('match', K('password')), ('nomatch', K('user')),
             ('int', K(5)), ('tuple', K((1, 2))), ('bytes', K(b'token'))]
    vals = [('str', K('v1')), ('num', K(3))]
    for (n1, k1), (n2, k2) in itertools.product(kinds, kinds):
        if n1 == n2:
            continue
        for (m1, v1), (m2, v2) in itertools.product(vals, vals):
            analyse('{%s:%s, %s:%s}' % (n1, m1, n2, m2),
                    lambda k1=k1, v1=v1, k2=k2, v2=v2:
                    mapping([(k1, v1), (k2, v2)]))
    # --- nesting, dict and non-dict Mapping types
    for kind in ('dict', 'Mapping'):
        for inner_kind in ('dict', 'Mapping'):
            def build(kind=kind, inner_kind=inner_kind):
                inner = mapping([(K('token'), K('t')), (K('n'), K(1)),
                                 (K('s'), K('--password x'))], inner_kind,
                                label='inner')
                return mapping([(K('password'), inner), (K('a'), inner),
                                (K('secret'), K('x')), (K(1), K('y'))],
                               kind)
            analyse('nested %s in %s' % (inner_kind, kind), build)

            def build2(kind=kind, inner_kind=inner_kind):
                # a nested mapping in which nothing needs masking must
                # still come back as a new dict, not as the argument's own
                inner = mapping([(K('n'), K(1)), (K('x'), K(None)),
                                 (K(3), ListV([K(1)]))], inner_kind,
                                label='inner')
                empty = mapping([], inner_kind, label='inner-empty')
                return mapping([(K('a'), inner), (K('e'), empty),
                                (K('b'), K(2))], kind)
            analyse('nested %s without secrets in %s' % (inner_kind, kind),
                    build2)


    # --- depth 3 and 4, alternating mapping types, lists as plain values
    for top in ('dict', 'Mapping'):
        def build3(top=top):
            other = 'Mapping' if top == 'dict' else 'dict'
            d4 = mapping([(K('api_key'), K('k')), (K('note'), K('--token t')),
                          (K(4), K(4))], top, label='level4')
            d3 = mapping([(K('deep'), d4), (K('auth_token'), d4),
                          (K('l'), ListV([K('password=x'), d4]))], other,
                         label='level3')
            d2 = mapping([(K('mid'), d3), (K('PASSWORD2'), K(b'raw')),
                          (K('x'), K(1.5))], top, label='level2')
            return mapping([(K('outer'), d2), (K('secret_key'), d2),
                            (K('plain'), K('text'))], other)
        analyse('four levels starting with %s' % top, build3)
    if ctx.thorough:
        # width 5: every selection of entry kinds at two levels
        entries = [(K('password'), K('p')), (K('user'), K('u')),
                   (K(5), K('--secret s')), (K((1, 2)), K(None)),
                   (K('Admin_Token9'), K(7))]
        for r in (3, 4, 5):
            for combo in itertools.permutations(entries, r):
                if r == 5 and combo[0][0] != K('password'):
                    continue

                def buildw(combo=combo):
                    inner = mapping(list(combo), 'Mapping', label='inner')
                    return mapping(list(combo) + [(K('sub'), inner)], 'dict')
                analyse('width %d: %s' % (r, [show(k) for k, _v in combo]),
                        buildw)


def _all_inputs(arg):
    out = [arg]
    for k, v in arg.entries:
        if isinstance(v, Obj) and hasattr(v, 'entries'):
            out.extend(_all_inputs(v))
        else:
            out.append(v)
    return out
