"""C09 - exception helpers never lose, replace or invent an exception."""
from ..core.absint import AbsRaise
from ..core.loader import AnalysisError
from ..core.table import extract, inexact_notes
from ..core.values import (K, T, Obj, TupleV, ListV, DictV, AbsFunc, ExtRef,
                           ClassRef, show)


def exc_obj(label, cls_name, tb=None):
    """Abstract exception instance; with_traceback() returns the same
    object and records the traceback it was given."""
    o = Obj(None, {'__class_name__': cls_name}, label=label)
    o.fields['__traceback__'] = tb if tb is not None else \
        T('tb', T('obj', label, o.id))
    if cls_name == 'OSError':
        # which error it is stays open: code that looks decides per errno
        o.fields['errno'] = T('sym', '%s.errno' % label)

    def with_tb(interp, a, kw):
        interp.effect('with_traceback', label, interp.termify(a[0]))
        return o
    o.fields['with_traceback'] = AbsFunc('with_traceback', with_tb)
    return o


def logger_obj():
    lg = Obj(None, {}, label='logger')

    def error(interp, a, kw):
        interp.effect('log', 'error', tuple(interp.termify(x) for x in a))
        return K(None)
    lg.fields['error'] = AbsFunc('error', error)
    return lg


def run(ctx):
    rep, world = ctx.report, ctx.world
    rep.explanation = (
        'Outcome tables of save_and_reraise_exception (__exit__, '
        'force_reraise, capture, __enter__), exception_filter (__exit__, '
        '__call__, __get__), remove_path_on_error (generator body with the '
        'yield point modelled as "body completes / raises") and '
        'raise_with_cause are extracted over: body completed / raised an '
        'Exception / raised a BaseException; reraise on/off; traceback '
        'already attached or not; active exception is / is not the argument; '
        'predicate accepts / rejects; remove succeeds / fails.  Raised '
        'objects are compared by identity with the saved / active ones.')
    rep.rule('R9.1', '__exit__ table: body raised -> falsy result (new '
             'exception propagates), original logged iff reraise; body '
             'completed -> original re-raised iff reraise')
    rep.rule('R9.2', 're-raised object is the captured one, with the '
             'captured traceback; capture stores sys.exc_info()')
    rep.rule('R9.3', 'exception_filter: __exit__ returns the predicate '
             'result for an exception and None otherwise; __call__ raises '
             'exactly the rejected exception; __get__ binds per instance')
    rep.rule('R9.4', 'remove_path_on_error: remove(path) then the original '
             'exception propagates; nothing is swallowed')
    rep.rule('R9.5', 'raise_with_cause: cause = explicit cause or the '
             'active exception')
    _save_and_reraise(ctx)
    _programs(ctx)
    _filter(ctx)
    _remove_path(ctx)
    _raise_with_cause(ctx)


# ---------------------------------------------------------------- programs
# Handler programs over one or two context objects: what each step raises,
# returns and logs is compared with the statement's semantics kept as a small
# reference state (saved exception, reraise flag) per context.
EXC_CLASSES = {'E1': 'ValueError', 'E2': 'KeyError', 'N': 'LookupError',
               'B': 'KeyboardInterrupt', 'S': 'ValueError'}


def _reference(program):
    """-> per step: ('return',) / ('raise', label or class), number of log
    records; None when the program leaves the specified behaviour (using a
    context whose exception was already handed back)."""
    saved, flag, spent, out = {}, {}, {}, []
    for op in program:
        kind, i = op[0], op[1]
        if kind == 'new':
            saved[i], flag[i], spent[i] = None, op[2], False
            out.append((('return',), 0))
        elif kind == 'enter':
            saved[i], spent[i] = op[2], False
            out.append((('return',), 0))
        elif kind == 'capture':
            if op[2] is None and op[3]:
                out.append((('raise', 'RuntimeError'), 0))
            else:
                saved[i], spent[i] = op[2], False
                out.append((('return',), 0))
        elif kind == 'set':
            flag[i] = op[2]
            out.append((('return',), 0))
        elif kind == 'exit':
            if spent[i]:
                return None
            if op[2] is None:
                if flag[i]:
                    if saved[i] is None:
                        out.append((('raise', 'RuntimeError'), 0))
                    else:
                        out.append((('raise', saved[i]), 0))
                        spent[i] = True
                else:
                    out.append((('return',), 0))
            else:
                out.append((('return',), 1 if flag[i] else 0))
        elif kind == 'force':
            if spent[i]:
                return None
            if saved[i] is None:
                out.append((('raise', 'RuntimeError'), 0))
            else:
                out.append((('raise', saved[i]), 0))
                spent[i] = True
    return out


def _program_list():
    progs = []
    n0 = ('new', 0, True)
    for flag in (True, False):
        new = ('new', 0, flag)
        # one object used for two handlers in a row
        for first in (None, 'N'):
            for second in (None, 'N'):
                progs.append([new, ('enter', 0, 'E1'), ('exit', 0, first),
                              ('enter', 0, 'E2'), ('exit', 0, second)])
        # force_reraise() called by the body and propagating through it
        progs.append([new, ('enter', 0, 'E1'), ('force', 0),
                      ('enter', 0, 'E2'), ('exit', 0, None)])
        progs.append([new, ('enter', 0, 'E1'), ('force', 0),
                      ('enter', 0, 'E2'), ('exit', 0, 'N')])
        # the body raises the saved exception itself (bare raise)
        progs.append([new, ('enter', 0, 'E1'), ('exit', 0, 'E1'),
                      ('enter', 0, 'E2'), ('exit', 0, None)])
        # flag switched in the body, in both directions, then reuse
        for to in (True, False):
            progs.append([new, ('enter', 0, 'E1'), ('set', 0, to),
                          ('exit', 0, None), ('enter', 0, 'E2'),
                          ('exit', 0, None)])
            progs.append([new, ('enter', 0, 'E1'), ('set', 0, to),
                          ('exit', 0, 'N'), ('enter', 0, 'E2'),
                          ('set', 0, not to), ('exit', 0, 'N')])
        # capture() replaces what is saved
        progs.append([new, ('enter', 0, 'E1'), ('capture', 0, 'E2', True),
                      ('exit', 0, None)])
        progs.append([new, ('enter', 0, 'E1'), ('capture', 0, 'E2', True),
                      ('exit', 0, 'N')])
        progs.append([new, ('capture', 0, None, True), ('force', 0)])
        progs.append([new, ('enter', 0, 'E1'), ('exit', 0, 'B')])
        # force_reraise() called while another exception is being handled
        # (a cleanup error caught inside the handler): the same object, one
        # of the same class, one of another class
        for active in ('E1', 'S', 'E2', 'B'):
            progs.append([new, ('enter', 0, 'E1'), ('force', 0, active)])
            progs.append([new, ('capture', 0, 'E1', True),
                          ('force', 0, active)])
            # the with block ends inside an inner handler
            progs.append([new, ('enter', 0, 'E1'), ('exit', 0, None, active)])
            progs.append([new, ('enter', 0, 'E1'), ('exit', 0, 'N', active)])
            progs.append([new, ('enter', 0, 'E1'), ('exit', 0, 'N'),
                          ('capture', 0, 'E1', True), ('force', 0, active),
                          ('enter', 0, 'E2'), ('exit', 0, None)])
        # two contexts nested around the same exception: each is judged on
        # its own (the new exception of the inner body crosses both)
        for f2 in (True, False):
            other = ('new', 1, f2)
            for inner, outer in ((None, None), ('N', 'N'), (None, 'N'),
                                 ('N', None)):
                progs.append([new, other, ('enter', 0, 'E1'),
                              ('enter', 1, 'E1'), ('exit', 1, inner),
                              ('exit', 0, outer)])
            # two contexts, two exceptions, interleaved
            progs.append([new, other, ('enter', 0, 'E1'),
                          ('enter', 1, 'E2'), ('exit', 1, None),
                          ('exit', 0, None)])
            progs.append([new, other, ('enter', 0, 'E1'),
                          ('enter', 1, 'E2'), ('exit', 0, 'N'),
                          ('exit', 1, 'N')])
            # the same exception dropped by one context, then by another
            progs.append([new, ('enter', 0, 'E1'), ('exit', 0, 'N'), other,
                          ('enter', 1, 'E1'), ('exit', 1, 'N')])
    return progs


def _programs(ctx):
    rep, world = ctx.report, ctx.world
    cls = world.cls('excutils', 'save_and_reraise_exception')
    rep.rule('R9.6', 'handler programs (one context used for several '
             'handlers, nested contexts around one exception, force_reraise '
             '/ capture / flag switches in the body): every step raises, '
             'returns and logs what the statement says, whatever came '
             'before')
    n = 0
    for prog in _program_list():
        want = _reference(prog)
        if want is None:
            continue
        label = ' ; '.join(' '.join(str(x) for x in op) for op in prog)
        holder = {}

        def thunk(interp, prog=prog):
            trace = holder['trace'] = []
            excs = {k: exc_obj(k, c) for k, c in EXC_CLASSES.items()}
            lg = logger_obj()
            objs = {}
            for op in prog:
                before = len([e for e in interp.effects if e[0] == 'log'])
                kind, i = op[0], op[1]
                res = ('return',)
                try:
                    if kind == 'new':
                        objs[i] = interp.call(cls, [], {'reraise': K(op[2]),
                                                        'logger': lg})
                    elif kind in ('enter', 'capture'):
                        meth = '__enter__' if kind == 'enter' else 'capture'
                        args = [] if kind == 'enter' else [K(op[3])]
                        act = excs[op[2]] if op[2] else None
                        _fake_frame(interp, act)
                        try:
                            r = interp.call(interp.get_attr(objs[i], meth),
                                            args)
                        finally:
                            interp.frames.pop()
                        if r is not objs[i]:
                            res = ('return', 'not the context')
                    elif kind == 'set':
                        interp.set_attr(objs[i], 'reraise', K(op[2]))
                    elif kind == 'force':
                        act = excs[op[2]] if len(op) > 2 and op[2] else None
                        _fake_frame(interp, act)
                        try:
                            interp.call(interp.get_attr(objs[i],
                                                        'force_reraise'), [])
                        finally:
                            interp.frames.pop()
                    elif kind == 'exit':
                        if op[2] is None:
                            a = [K(None), K(None), K(None)]
                        else:
                            a = [ExtRef(EXC_CLASSES[op[2]]), excs[op[2]],
                                 T('sym', 'new_tb')]
                        act = excs[op[3]] if len(op) > 3 and op[3] else None
                        _fake_frame(interp, act)
                        try:
                            r = interp.call(interp.get_attr(objs[i],
                                                            '__exit__'), a)
                        finally:
                            interp.frames.pop()
                        if interp.truth(r):
                            res = ('return', 'truthy: the body\'s '
                                   'exception is swallowed')
                except AbsRaise as e:
                    v = e.exc
                    if isinstance(v, Obj) and v.label in excs:
                        res = ('raise', v.label)
                    else:
                        c = interp.exc_class_of(v)
                        res = ('raise', getattr(c, 'name', None) or show(v))
                after = len([e for e in interp.effects if e[0] == 'log'])
                trace.append((res, after - before))
            return K(None)
        try:
            outcomes, _i = extract(world, thunk, setup=_setup,
                                   capture=lambda i: list(holder['trace']))
        except AnalysisError as e:
            rep.undecided('R9.6', 'program', '%s: %s' % (label, e))
            continue
        o = _one(rep, 'R9.6', 'program[%s]' % label, outcomes)
        if o is None:
            continue
        n += 1
        got = o.state
        bad = None
        for k, (g, w) in enumerate(zip(got, want)):
            if g != w:
                bad = (k, g, w)
                break
        rep.case({'program': label, 'steps': len(prog)}, (label,))
        rep.check('R9.6', 'program', bad is None,
                  '%s: step %d (%s) %s and logs %d record(s); required %s '
                  'and %d' % (label, bad[0] + 1,
                              ' '.join(str(x) for x in prog[bad[0]]),
                              ' '.join(bad[1][0]), bad[1][1],
                              ' '.join(bad[2][0]), bad[2][1])
                  if bad else '%s: every step as stated' % label,
                  case=label)
    rep.count('handler programs decided', n, floor=40)


def _force_after(ctx, cls, initial, reraise, body):
    """What force_reraise() raises when it is called after __exit__ saw the
    body raise (the caller caught that new exception)."""
    world = ctx.world

    def thunk(interp):
        orig = exc_obj('orig', 'ValueError')
        _fake_frame(interp, orig)
        try:
            obj = interp.call(cls, [], {'reraise': K(initial),
                                        'logger': logger_obj()})
            interp.call(interp.get_attr(obj, '__enter__'), [])
        finally:
            interp.frames.pop()
        if initial != reraise:
            interp.set_attr(obj, 'reraise', K(reraise))
        name = 'KeyError' if body == 'Exception' else 'KeyboardInterrupt'
        new = exc_obj('new', name)
        interp.call(interp.get_attr(obj, '__exit__'),
                    [ExtRef(name), new, T('sym', 'new_tb')])
        return interp.call(interp.get_attr(obj, 'force_reraise'), [])
    outcomes, _i = extract(world, thunk, setup=_setup)
    if not outcomes or inexact_notes(outcomes):
        return None
    seen = []
    for o in outcomes:
        r = o.value.label if o.kind == 'raise' and \
            isinstance(o.value, Obj) else o.brief()
        if r not in seen:
            seen.append(r)
    return seen[0] if len(seen) == 1 else ' / '.join(seen)


TBS = [T('sym', n) for n in ('saved_tb', 'other_tb', 'new_tb', 'old_tb',
                              'tb')]


def _setup(interp):
    interp.distinct.update(TBS)


def _one(rep, rule, key, outcomes):
    notes = inexact_notes(outcomes)
    if notes:
        rep.undecided(rule, key, 'inexact: %s' % notes)
        return None
    if len(outcomes) != 1:
        rep.undecided(rule, key, '%d paths where one is expected: %s' % (
            len(outcomes), [(o.brief(), [(show(t), b) for t, b in
                                         o.assumptions]) for o in
                            outcomes][:4]))
        return None
    return outcomes[0]


def _save_and_reraise(ctx):
    rep, world = ctx.report, ctx.world
    cls = world.cls('excutils', 'save_and_reraise_exception')
    for m in ('__exit__', 'force_reraise', 'capture', '__enter__'):
        rep.analysed('excutils.save_and_reraise_exception.' + m)
    for initial, reraise in ((True, True), (False, False), (False, True),
                             (True, False)):
        for body in ('completed', 'Exception', 'BaseException',
                     'the original itself'):
            for tb_attached, falsy in ((True, False), (False, False),
                                       (True, True)):
                label = 'reraise=%s%s body=%s traceback %s%s' % (
                    reraise, '' if initial == reraise else
                    ' (constructed with %s, switched in the body)' % initial,
                    body, 'already attached' if tb_attached
                    else 'differs', ', exception object is falsy '
                    '(its class defines __len__)' if falsy else '')
                holder = {}

                def thunk(interp):
                    orig = exc_obj('orig', 'ValueError')
                    if falsy:
                        orig.fields['__truth__'] = False
                    if not tb_attached:
                        orig.fields['__traceback__'] = T('sym', 'other_tb')
                    lg = logger_obj()
                    _fake_frame(interp, orig)
                    try:
                        obj = interp.call(cls, [], {'reraise': K(initial),
                                                    'logger': lg})
                        entered = interp.call(
                            interp.get_attr(obj, '__enter__'), [])
                    finally:
                        interp.frames.pop()
                    if initial != reraise:
                        # the handler body flips the public flag - inside
                        # the except block of an inner raise-and-catch, so
                        # another exception is the active one at that time
                        inner = exc_obj('inner', 'LookupError')
                        _fake_frame(interp, inner)
                        try:
                            interp.set_attr(obj, 'reraise', K(reraise))
                        finally:
                            interp.frames.pop()
                    if entered is not obj:
                        interp.inexact('__enter__ does not return the '
                                       'context')
                    holder.update(orig=orig, obj=obj)
                    interp.effects[:] = []
                    if body == 'completed':
                        a = [K(None), K(None), K(None)]
                    elif body == 'the original itself':
                        # a bare ``raise`` in the body: the very object
                        # that was saved comes back through __exit__
                        a = [ExtRef('ValueError'), orig, T('sym', 'new_tb')]
                    else:
                        name = 'KeyError' if body == 'Exception' else \
                            'KeyboardInterrupt'
                        new = exc_obj('new', name)
                        a = [ExtRef(name), new, T('sym', 'new_tb')]
                    return interp.call(interp.get_attr(obj, '__exit__'), a)
                outcomes, _i = extract(world, thunk, setup=_setup)
                o = _one(rep, 'R9.1', '__exit__[%s]' % label, outcomes)
                if o is None:
                    continue
                rep.case({'case': label, 'outcome': o.brief()},
                         (label, o.brief()))
                logs = [e for e in o.effects if e[0] == 'log']
                if body != 'completed':
                    ok = o.kind == 'return' and isinstance(o.value, K) and \
                        not o.value.v
                    rep.check('R9.1', '__exit__[body raised]', ok,
                              '%s: %s; required a falsy result so that the '
                              'new exception propagates' % (label,
                                                            o.brief()),
                              case=label)
                    # the caller catches the new exception and asks the
                    # context for the original afterwards
                    if o.kind == 'return' and body != 'the original itself':
                        later = _force_after(ctx, cls, initial, reraise, body)
                        if later is None:
                            rep.undecided('R9.2', 'force_reraise[after the '
                                          'body raised]', '%s: inexact' %
                                          label)
                            later = 'orig'
                        rep.check('R9.2', 'force_reraise[after the body '
                                  'raised]', later == 'orig',
                                  '%s: force_reraise() called after '
                                  '__exit__ raises %s; required the saved '
                                  'original object' % (label, later),
                                  case=label)
                    rep.check('R9.1', '__exit__[log]',
                              (len(logs) == 1) == reraise,
                              '%s: original exception logged %d time(s); '
                              'required %s' % (label, len(logs),
                                               'once' if reraise else
                                               'never'), case=label)
                elif reraise:
                    ok = o.kind == 'raise' and isinstance(o.value, Obj) and \
                        o.value.label == 'orig'
                    rep.check('R9.1', '__exit__[reraise]', ok,
                              '%s: %s; required the saved exception object '
                              'to be raised again' % (label, o.brief()),
                              case=label)
                    wt = [e for e in o.effects if e[0] == 'with_traceback']
                    captured = T('tb', T('obj', 'orig', o.value.id)) \
                        if ok else None
                    if tb_attached:
                        ok2 = not wt or wt[0][2] == captured
                    else:
                        ok2 = len(wt) == 1 and wt[0][2] == captured
                    rep.check('R9.2', 'force_reraise[traceback]', ok2,
                              '%s: traceback handling %s; required the '
                              'captured traceback' % (label, wt),
                              case=label)
                    rep.check('R9.1', '__exit__[no-log-on-reraise]',
                              not logs, '%s: nothing is logged' % label)
                    chained = [e for e in o.effects if e[0] == 'cause']
                    rep.check('R9.2', 'force_reraise[chaining]', not chained,
                              '%s: the original is raised again by a '
                              '"raise ... from %s", which rewrites its '
                              '__cause__ / __suppress_context__ (a chained '
                              'original loses its cause)' % (
                                  label, show(chained[0][2]) if chained
                                  else '-'), case=label)
                else:
                    ok = o.kind == 'return' and isinstance(o.value, K) \
                        and not o.value.v
                    rep.check('R9.1', '__exit__[suppressed]', ok,
                              '%s: %s; required a normal falsy return and '
                              'no exception' % (label, o.brief()),
                              case=label)
    # force_reraise without anything captured
    def thunk_none(interp):
        obj = interp.call(cls, [], {'logger': logger_obj()})
        return interp.call(interp.get_attr(obj, 'force_reraise'), [])
    outcomes, _i = extract(world, thunk_none, setup=_setup)
    o = _one(rep, 'R9.2', 'force_reraise[nothing captured]', outcomes)
    if o is not None:
        rep.check('R9.2', 'force_reraise[nothing captured]',
                  o.kind == 'raise' and o.exc_class == 'RuntimeError',
                  'nothing captured -> %s; required RuntimeError (no '
                  'exception is invented)' % o.brief())
    # capture / __enter__
    for active in (True, False):
        for meth, check, prior in (
                ('__enter__', None, False), ('capture', True, False),
                ('capture', False, False), ('__enter__', None, True),
                ('capture', False, True)):
            label = '%s(check=%s) with%s active exception%s' % (
                meth, check, '' if active else 'out',
                ' on a context that captured an earlier one' if prior
                else '')
            holder = {}

            def thunk(interp):
                obj = interp.call(cls, [], {'logger': logger_obj()})
                holder['obj'] = obj
                if prior:
                    # an earlier use of the same object
                    earlier = exc_obj('earlier', 'KeyError')
                    _fake_frame(interp, earlier)
                    try:
                        interp.call(interp.get_attr(obj, 'capture'), [])
                    finally:
                        interp.frames.pop()
                act = exc_obj('active', 'ValueError')
                holder['act'] = act
                if active:
                    interp.frames_exc = act
                args = [] if check is None else [K(check)]
                fr = _fake_frame(interp, act if active else None)
                try:
                    return interp.call(interp.get_attr(obj, meth), args)
                finally:
                    interp.frames.pop()

            def capture(interp):
                # the captured exception is read through the attributes the
                # class documents (value, tb), however they are stored
                out = {}
                for name in ('value', 'tb'):
                    try:
                        out[name] = interp.get_attr(holder['obj'], name)
                    except AbsRaise:
                        out[name] = T('sym', 'attribute-error')
                return out
            outcomes, _i = extract(world, thunk, capture=capture, setup=_setup)
            o = _one(rep, 'R9.2', label, outcomes)
            if o is None:
                continue
            rep.case({'case': label, 'outcome': o.brief()},
                     (label, o.kind))
            if not active and check is True:
                rep.check('R9.2', 'capture[nothing active]',
                          o.kind == 'raise' and
                          o.exc_class == 'RuntimeError',
                          '%s -> %s; required RuntimeError' % (label,
                                                               o.brief()))
                continue
            ok = o.kind == 'return' and isinstance(o.value, Obj) and \
                o.value.cls is cls
            st = o.state
            if active:
                v = st.get('value')
                ok = ok and isinstance(v, Obj) and v.label == 'active' \
                    and st.get('tb') == T('tb', T('obj', 'active', v.id))
            else:
                ok = ok and st.get('value') == K(None)
            rep.check('R9.2', 'capture[%s]' % label, ok,
                      '%s -> %s with value=%s tb=%s; required the context '
                      'itself with the active exception stored' % (
                          label, o.brief(), show(st.get('value')),
                          show(st.get('tb'))), case=label)


def _fake_frame(interp, exc):
    """Push a frame that is 'inside an except block' handling *exc*."""
    from ..core.absint import Frame
    fr = Frame(None, {}, len(interp.frames))
    if exc is not None:
        fr.exc_stack.append(exc)
    interp.frames.append(fr)
    return fr


def _filter(ctx):
    rep, world = ctx.report, ctx.world
    cls = world.cls('excutils', 'exception_filter')
    for m in ('__exit__', '__call__', '__get__', '__init__'):
        rep.analysed('excutils.exception_filter.' + m)
    PRED = T('sym', 'predicate_result')

    def predicate(holder):
        def beh(interp, a, kw):
            interp.effect('predicate', tuple(interp.termify(x) for x in a))
            return PRED
        return AbsFunc('predicate', beh)

    # __exit__
    for raised in (True, False):
        holder = {}

        def thunk(interp):
            obj = interp.call(cls, [predicate(holder)])
            interp.effects[:] = []
            exc = exc_obj('exc', 'KeyError')
            holder['exc'] = exc
            a = [ExtRef('KeyError'), exc, T('sym', 'tb')] if raised else \
                [K(None), K(None), K(None)]
            return interp.call(interp.get_attr(obj, '__exit__'), a)
        outcomes, _i = extract(world, thunk, setup=_setup)
        o = _one(rep, 'R9.3', 'exception_filter.__exit__[raised=%s]' %
                 raised, outcomes)
        if o is None:
            continue
        calls = [e for e in o.effects if e[0] == 'predicate']
        if raised:
            ok = o.kind == 'return' and o.value == PRED and \
                len(calls) == 1 and len(calls[0][1]) == 1 and \
                calls[0][1][0].args[:2] == ('obj', 'exc')[1:] + () or (
                    o.kind == 'return' and o.value == PRED and
                    len(calls) == 1 and
                    calls[0][1][0].args[0] == 'exc')
            rep.check('R9.3', 'exception_filter.__exit__[exception]', ok,
                      'returns the predicate\'s verdict on the exception '
                      'value itself; found %s after %s' % (o.brief(), calls))
        else:
            ok = o.kind == 'return' and isinstance(o.value, K) and \
                not o.value.v and not calls
            rep.check('R9.3', 'exception_filter.__exit__[no exception]', ok,
                      'returns a falsy constant without consulting the '
                      'predicate; found %s' % o.brief())
        rep.case({'case': '__exit__ raised=%s' % raised,
                  'outcome': o.brief()}, ('fexit', raised))
    # __call__
    for accept in (True, False):
        for active in ('same', 'other', 'none'):
            for tb_attached in (True, False):
                label = '__call__ predicate=%s active=%s tb %s' % (
                    accept, active, 'attached' if tb_attached else
                    'differs')
                holder = {}

                def thunk(interp):
                    def beh(interp2, a, kw):
                        interp2.effect('predicate', tuple(
                            interp2.termify(x) for x in a))
                        return K(accept)
                    obj = interp.call(cls, [AbsFunc('predicate', beh)])
                    ex = exc_obj('ex', 'KeyError')
                    if not tb_attached:
                        ex.fields['__traceback__'] = T('sym', 'old_tb')
                    other = exc_obj('other', 'IOError')
                    holder.update(ex=ex, other=other)
                    act = {'same': ex, 'other': other, 'none': None}[active]
                    _fake_frame(interp, act)
                    try:
                        return interp.call(interp.get_attr(obj, '__call__'),
                                           [ex])
                    finally:
                        interp.frames.pop()
                outcomes, _i = extract(world, thunk, setup=_setup)
                o = _one(rep, 'R9.3', label, outcomes)
                if o is None:
                    continue
                rep.case({'case': label, 'outcome': o.brief()},
                         (label, o.kind))
                if accept:
                    ok = o.kind == 'return' and isinstance(o.value, K) \
                        and o.value.v is None
                    rep.check('R9.3', 'exception_filter.__call__[accepted]',
                              ok, '%s -> %s; an accepted exception is '
                              'suppressed' % (label, o.brief()), case=label)
                else:
                    ok = o.kind == 'raise' and isinstance(o.value, Obj) and \
                        o.value.label == 'ex'
                    rep.check('R9.3', 'exception_filter.__call__[rejected]',
                              ok, '%s -> %s; a rejected exception must '
                              'propagate as the same object' % (
                                  label, o.brief()), case=label)
    # a filter wrapped around a filter (the decorator applied twice, or
    # exception_filter(obj.bound_filter)): the outer one still asks the real
    # predicate and honours its verdict
    for accept in (True, False):
        label = 'filter around a filter, predicate=%s' % accept
        holder = {}

        def thunk(interp):
            fn = Obj(None, {'__name__': K('pred'), '__qualname__': K('pred'),
                            '__module__': K('m'), '__doc__': K(None),
                            '__annotations__': DictV([]),
                            '__type_params__': K(()), '__closed__': True},
                     label='predicate-function')

            def beh(interp2, a, kw):
                interp2.effect('predicate', tuple(
                    interp2.termify(x) for x in a))
                return K(accept)
            fn.fields['__call__'] = AbsFunc('predicate', beh)
            inner = interp.call(cls, [fn])
            outer = interp.call(cls, [inner])
            ex = exc_obj('ex', 'KeyError')
            holder['ex'] = ex
            interp.effects[:] = []
            _fake_frame(interp, ex)
            try:
                return interp.call(interp.get_attr(outer, '__call__'), [ex])
            finally:
                interp.frames.pop()
        outcomes, _i = extract(world, thunk, setup=_setup)
        o = _one(rep, 'R9.3', label, outcomes)
        if o is None:
            continue
        if accept:
            ok = o.kind == 'return' and isinstance(o.value, K) and \
                o.value.v is None
            rep.check('R9.3', 'exception_filter[twice]:accepted', ok,
                      '%s -> %s; an accepted exception is suppressed' % (
                          label, o.brief()), case=label)
        else:
            ok = o.kind == 'raise' and isinstance(o.value, Obj) and \
                o.value.label == 'ex'
            rep.check('R9.3', 'exception_filter[twice]:rejected', ok,
                      '%s -> %s; a rejected exception propagates as the '
                      'same object' % (label, o.brief()), case=label)
    # __get__: binding is per instance.  Observed by *using* what __get__
    # hands out: each result is asked (through __exit__) about an exception,
    # and the predicate that answers says for which instance it was bound.
    holder = {}

    def thunk(interp):
        pred = Obj(None, {}, label='pred')

        def get(interp2, a, kw):
            inst = a[0]

            def bound(interp3, b, kw3):
                interp3.effect('bound-predicate', inst.label if isinstance(
                    inst, Obj) else show(interp3.termify(inst)))
                return K(True)
            return AbsFunc('bound predicate', bound)
        pred.fields['__get__'] = AbsFunc('pred.__get__', get)
        pred.fields['__hasattr__'] = {}
        flt = interp.call(cls, [pred])
        o1 = Obj(None, {}, label='instance1')
        o2 = Obj(None, {}, label='instance2')
        owner = Obj(None, {}, label='owner')
        g = interp.get_attr(flt, '__get__')
        results = [interp.call(g, [o1, owner]), interp.call(g, [o2, owner]),
                   interp.call(g, [o1, owner])]
        interp.effects[:] = []
        kinds = []
        for r in results:
            kinds.append(K(isinstance(r, Obj) and r.cls is cls))
            exc = exc_obj('exc', 'KeyError')
            interp.call(interp.get_attr(r, '__exit__'),
                        [ExtRef('KeyError'), exc, T('sym', 'tb')])
        return TupleV(kinds)
    outcomes, _i = extract(world, thunk, setup=_setup)
    notes = inexact_notes(outcomes)
    if notes:
        rep.undecided('R9.3', 'exception_filter.__get__', 'inexact: %s' %
                      notes)
    else:
        for o in outcomes:
            got = [e[1] for e in o.effects if e[0] == 'bound-predicate']
            ok = o.kind == 'return' and isinstance(o.value, TupleV) and \
                all(k == K(True) for k in o.value.items) and \
                got == ['instance1', 'instance2', 'instance1']
            rep.check('R9.3', 'exception_filter.__get__', ok,
                      'accessing the filter through two instances yields '
                      'filters that ask the predicate bound to that '
                      'instance; asked %s (%s)' % (got, o.brief()[:120]))
        rep.case({'case': '__get__ twice'}, ('fget',))


def _remove_path(ctx):
    rep, world = ctx.report, ctx.world
    f = world.func('fileutils', 'remove_path_on_error')
    rep.analysed('fileutils.remove_path_on_error')
    path = T('sym', 'path')
    for body in ('completes', 'Exception', 'BaseException'):
        for remove_fails in (False, True):
            if body != 'Exception' and remove_fails:
                continue
            label = 'body %s, remove %s' % (body, 'fails' if remove_fails
                                            else 'succeeds')
            holder = {}

            def thunk(interp):
                err = exc_obj('body-error', 'ValueError' if
                              body == 'Exception' else 'KeyboardInterrupt')
                rerr = exc_obj('remove-error', 'OSError')
                holder.update(err=err, rerr=rerr)

                def on_yield(interp2, v):
                    interp2.effect('yield')
                    if body != 'completes':
                        raise AbsRaise(err)
                    return K(None)
                interp.on_yield = on_yield

                def remove(interp2, a, kw):
                    interp2.effect('remove', tuple(interp2.termify(x)
                                                   for x in a))
                    if remove_fails:
                        raise AbsRaise(rerr)
                    return K(None)
                return interp.call(f, [path, AbsFunc('remove', remove)])
            outcomes, interp = extract(world, thunk, depth=6, setup=_setup)
            key = 'remove_path_on_error[%s]' % label
            notes = inexact_notes(outcomes)
            if notes:
                rep.undecided('R9.4', key, 'inexact: %s' % notes)
                continue
            for o in outcomes:
                removes = [e for e in o.effects if e[0] == 'remove']
                yields = [e for e in o.effects if e[0] == 'yield']
                cond = [(show(t), b) for t, b in o.assumptions]
                rep.case({'case': label, 'outcome': o.brief(),
                          'under': cond}, (label, o.brief(), len(removes)))
                rep.check('R9.4', key + ':yield-once', len(yields) == 1,
                          '%s: the body runs exactly once' % label)
                if body == 'completes':
                    ok = o.kind == 'return' and not removes
                    msg = 'normal completion, path kept'
                elif body == 'BaseException':
                    ok = o.kind == 'raise' and isinstance(o.value, Obj) \
                        and o.value.label == 'body-error'
                    msg = 'the BaseException propagates as the same object'
                elif remove_fails:
                    # the original cannot be raised any more: it must at
                    # least be reported (some logging call mentions it)
                    def mentions(x):
                        if isinstance(x, Obj):
                            return x.label == 'body-error'
                        if isinstance(x, T):
                            return any(mentions(a) for a in x.args) or \
                                (x.op == 'obj' and x.args[0] == 'body-error')
                        if isinstance(x, (tuple, list)):
                            return any(mentions(a) for a in x)
                        return False
                    logged = [e for e in o.effects if e[0] == 'call' and
                              str(e[1]).rsplit('.', 1)[-1] in (
                                  'error', 'exception', 'warning',
                                  'critical', 'log') and mentions(e[2])]
                    ok = o.kind == 'raise' and isinstance(o.value, Obj) \
                        and o.value.label == 'remove-error' and \
                        len(removes) == 1 and bool(logged)
                    msg = 'the error of remove() propagates and the ' \
                          'original exception, which can no longer be ' \
                          'raised, is logged'
                else:
                    ok = o.kind == 'raise' and isinstance(o.value, Obj) \
                        and o.value.label == 'body-error' \
                        and len(removes) == 1 and removes[0][1] == (path,)
                    msg = 'remove(path) runs exactly once, then the ' \
                          'original exception propagates as the same object'
                rep.check('R9.4', key, ok,
                          '%s: required: %s; found %s with %d remove '
                          'call(s)%s' % (label, msg, o.brief(), len(removes),
                                         ' under %s' % cond if cond else ''),
                          case=label)
    _remove_path_nested(ctx, f)


def _remove_path_nested(ctx, f):
    """The remover itself guards a helper path with remove_path_on_error,
    fails inside it and deals with that failure: the outer error must still
    come out as the same object (no state shared between the two uses)."""
    rep, world = ctx.report, ctx.world
    path, path2 = T('sym', 'path'), T('sym', 'helper_path')
    holder = {}

    def thunk(interp):
        err = exc_obj('body-error', 'ValueError')
        inner_err = exc_obj('inner-error', 'KeyError')
        holder['n'] = 0

        def on_yield(interp2, v):
            holder['n'] += 1
            interp2.effect('yield', K(holder['n']))
            raise AbsRaise(err if holder['n'] == 1 else inner_err)
        interp.on_yield = on_yield

        def inner_remove(interp2, a, kw):
            interp2.effect('inner-remove', tuple(interp2.termify(x)
                                                 for x in a))
            return K(None)

        def remove(interp2, a, kw):
            interp2.effect('remove', tuple(interp2.termify(x) for x in a))
            try:
                interp2.call(f, [path2, AbsFunc('inner-remove',
                                                inner_remove)])
            except AbsRaise as r:
                if not (isinstance(r.exc, Obj) and
                        r.exc.label == 'inner-error'):
                    raise
                interp2.effect('inner-handled')
            return K(None)
        return interp.call(f, [path, AbsFunc('remove', remove)])
    outcomes, _i = extract(world, thunk, depth=8, setup=_setup)
    key = 'remove_path_on_error[nested use inside the remover]'
    notes = inexact_notes(outcomes)
    if notes or not outcomes:
        rep.undecided('R9.4', key, 'inexact: %s' % notes)
        return
    for o in outcomes:
        eff = [e[0] for e in o.effects if e[0] in (
            'remove', 'inner-remove', 'inner-handled')]
        ok = o.kind == 'raise' and isinstance(o.value, Obj) and \
            o.value.label == 'body-error' and \
            eff == ['remove', 'inner-remove', 'inner-handled']
        rep.check('R9.4', key, ok,
                  'required: remove(path), the helper\'s own failure handled '
                  'inside it, then the original exception propagates as the '
                  'same object; found %s after %s' % (o.brief(), eff))


def _raise_with_cause(ctx):
    rep, world = ctx.report, ctx.world
    f = world.func('excutils', 'raise_with_cause')
    rep.analysed('excutils.raise_with_cause')
    for explicit in (False, True):
        for active in (True, False):
            label = 'cause %s, %s active exception' % (
                'given' if explicit else 'absent', 'an' if active else 'no')
            holder = {}

            def thunk(interp):
                act = exc_obj('active', 'ValueError')
                given = exc_obj('given', 'KeyError')
                holder.update(act=act, given=given)

                def ctor(interp2, a, kw):
                    o = Obj(None, {'__class_name__': 'MyError',
                                   'ctor_args': TupleV(a),
                                   'ctor_kwargs': DictV(
                                       [(K(k), v) for k, v in kw.items()])},
                            label='raised')
                    holder['raised'] = o
                    return o
                kw = {'cause': given} if explicit else {}
                _fake_frame(interp, act if active else None)
                try:
                    return interp.call(f, [AbsFunc('MyError', ctor),
                                           K('msg'), K(1)], kw)
                finally:
                    interp.frames.pop()
            outcomes, _i = extract(world, thunk, setup=_setup)
            o = _one(rep, 'R9.5', 'raise_with_cause[%s]' % label, outcomes)
            if o is None:
                continue
            want = holder['given'] if explicit else (
                holder['act'] if active else None)
            causes = [e for e in o.effects if e[0] == 'cause']
            raised = holder.get('raised')
            ok = o.kind == 'raise' and raised is not None and \
                o.value is raised and len(causes) == 1
            if ok:
                c = causes[0][2]
                ok = (c == K(None)) if want is None else \
                    (c == T('obj', want.label, want.id))
                kwc = raised.fields['ctor_kwargs'].get(K('cause'))
                ok = ok and ((kwc is None) if want is None else
                             (kwc is want))
                a = raised.fields['ctor_args'].items
                ok = ok and tuple(a) == (K('msg'), K(1))
            rep.check('R9.5', 'raise_with_cause[%s]' % label, ok,
                      '%s: raises exc_cls(message, *args, cause=...) from '
                      'the %s; found %s, causes %s' % (
                          label, 'explicit cause' if explicit else
                          'active exception' if active else 'None',
                          o.brief(), causes), case=label)
            rep.case({'case': label, 'outcome': o.brief()}, (label,))
