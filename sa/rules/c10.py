"""C10 - string_to_bytes computes the exact byte quantity or raises
ValueError; QemuImgInfo size fields use the same arithmetic."""
import math
import re
from fractions import Fraction

from ..core import regex as R
from ..core import rxmodel
from ..core.loader import AnalysisError
from ..core.table import extract, grid_compare
from ..core.termeval import ev, Raised
from ..core.values import K, T, DictV, TupleV, RegexV, show

MOD = 'strutils'
LADDER = {'k': 1, 'K': 1, 'M': 2, 'G': 3, 'T': 4, 'P': 5, 'E': 6, 'Z': 7,
          'Y': 8, 'R': 9, 'Q': 10}
SYSTEMS = {
    'IEC': (1024, '[KMGTPEZYRQ]i?'),
    'SI': (1000, '[kMGTPEZYRQ]'),
    'mixed': (None, '[kKMGTPEZYRQ]i?'),
}
NUM = r'[-+]?\d*\.?\d+'


def ref_string_to_bytes(text, unit_system, return_int):
    """Reference written from the property statement (exact rationals)."""
    if unit_system not in SYSTEMS:
        return ('raise', 'ValueError')
    base, prefix_rx = SYSTEMS[unit_system]
    if not isinstance(text, str):
        return None
    m = re.fullmatch('(%s)(%s)?(b|bit|B)' % (NUM, prefix_rx), text)
    if not m or '\n' in text:
        return ('raise', 'ValueError')
    num = Fraction(m.group(1))
    prefix = m.group(2)
    if m.group(3) in ('b', 'bit'):
        num /= 8
    if unit_system == 'mixed':
        base = 1024 if (not prefix or prefix.endswith('i')) else 1000
    if prefix:
        num *= Fraction(base) ** LADDER[prefix[0]]
    if return_int:
        return ('return', int(math.ceil(num)))
    return ('return', float(num))


def close(g, w):
    if isinstance(w, bool) or isinstance(g, bool):
        return g is w
    if isinstance(w, int) and not isinstance(g, int):
        return False
    if isinstance(w, float) and not isinstance(g, (int, float)):
        return False
    if g == w:
        return True
    try:
        return abs(g - w) <= 1e-9 * abs(w) and (
            not isinstance(w, int) or abs(w) > 10 ** 15)
    except TypeError:
        return False


def texts(thorough=False):
    out = []
    mags = ('1', '1.5', '.5', '-2', '+3', '0', '10', '0.0000000001',
            '1.0000000000001')
    if thorough:
        mags += ('-0', '+.25', '007', '1023', '1024', '1025', '999.999',
                 '0.125', '12345678901234567890', '3.', '1e2', '1,5', ' 1',
                 '1 ', '-', '+', '.', '٣', '1.5.5', '-+1', '0x1')
    prefixes = ('', 'k', 'K', 'ki', 'Ki', 'M', 'Mi', 'G', 'Gi', 'T', 'Ti',
                'P', 'Pi', 'E', 'Ei', 'Z', 'Zi', 'Y', 'Yi', 'R', 'Ri', 'Q',
                'Qi', 'X', 'Xi', 'm', 'kI')
    for p in prefixes:
        for u in ('b', 'bit', 'B'):
            for m in (mags if thorough or p in ('', 'K', 'Ki', 'k', 'ki',
                                                'M') else ('1', '1.5')):
                out.append(m + p + u)
    out += ['', 'B', '1', '1 B', '1e3B', '1KBB', 'KB', '1.KB', '1..5KB',
            '--1KB', '1Kbits', '1KiB ', ' 1KiB', '1kb\n', '1BK', '1iB',
            '0x10B', '1_0B', '١KB',
            # every other spelling of the unit is malformed
            '1KBit', '1Bit', '1KBIT', '1KbIt', '1Kbi', '1KBi', '1Kbt',
            '1MBit', '8 MBit', '1Kbyte', '1KBs', '1Kbb', '1KiBit', '1bIT']
    return tuple(out)


def run(ctx):
    rep, world = ctx.report, ctx.world
    rep.explanation = (
        'string_to_bytes is extracted as a decision table (regex match kept '
        'symbolic, table lookups forked per key, KeyError paths explicit) '
        'and compared with an exact-rational reference on every prefix x '
        'unit x unit system x return_int and on malformed texts; the prefix '
        'group of each unit-system regex is enumerated and must be a subset '
        'of the exponent table; the exponent table and units.py are '
        'compared with the SI/IEC ladder.  QemuImgInfo._extract_bytes is '
        'extracted with string_to_bytes stubbed.  Float rounding beyond '
        '1e-9 relative is not decided.')
    rep.rule('R10.1', 'every prefix a unit-system regex admits is a key of '
             'UNIT_PREFIX_EXPONENT')
    rep.rule('R10.2', 'exponent table and units.py follow the SI/IEC ladder')
    rep.rule('R10.3', 'string_to_bytes table: number x base^exponent, /8 '
             'for bit units, base by unit system, ceil for return_int, '
             'ValueError (only) otherwise')
    rep.rule('R10.6', 'QemuImgInfo._extract_bytes: (N bytes) first, bare '
             'number, single-letter unit gets B, IEC arithmetic')
    rep.rule('R10.7', 'QemuImgInfo._extract_details: virtual_size, disk_size '
             'and cluster_size all go through _extract_bytes (None / '
             'unavailable -> 0)')
    rep.rule('R10.8', 'string_to_bytes answers the same whatever was '
             'converted before (no state shared between calls)')
    _tables(ctx)
    _table(ctx)
    _qemu(ctx)
    _history(ctx)


QEMU_TEXTS = (
    '1.5G', '10 KiB', '2.0E', '512', '1e+3', '1.1e+2 M',
    '64K (65536 bytes)', '1 (2 bytes)', '3 B', '3B', '2 k', 'junk', '1.5 TB',
    '7 Z', '9Y', '4R', '5Q', '1.5', '12 bytes', '0',
    '197K (200704 bytes)', '8T', '2M', '6 Mi', '1 b', '2K (0 bytes)',
    '18446744073709551615', '.5G', '.25 MiB', '0.5G', '1.K', 'x.5M',
    '5.e+1', '1E+3 K', '1e-1', ' 7M', '7 M ', 'size 3K', '1.5kB', '1,5G',
    '1.5E', '2.5EB', '0.5 EiB', '1.25E (7 bytes)', '7.5Ei', 'None',
    'unavailable', 'none', '8 Kb', '16 Mbit', '9 bit', '8 Kib',
    # fractions of a byte round up, with and without a prefix
    '1.5 B', '.5 B', '1.5B', '0.5 B', '2.25 B', '1.5 b', '8 MBit', '3 Bit')


def _qemu_public(ctx, cls):
    """R10.9: the three size attributes of QemuImgInfo built from human
    output, through the constructor only."""
    import re as _re
    from ..core.table import inexact_notes
    rep, world = ctx.report, ctx.world
    rep.rule('R10.9', 'QemuImgInfo(human output): virtual_size, disk_size '
             'and cluster_size are the byte counts their lines state ((N '
             'bytes) first, bare number, single-letter unit gets B, IEC '
             'arithmetic, None / unavailable -> 0, ValueError otherwise)')
    rep.analysed('imageutils.qemu.QemuImgInfo.__init__')
    size_rx = _re.compile(r"([0-9]+[eE][-+][0-9]+|\d*\.?\d+)"
                          r"\s*(\w+)?(\s*\(\s*(\d+)\s+bytes\s*\))?",
                          _re.I)

    def want(d):
        if d in ('None', 'unavailable'):
            return ('return', 0)
        m = size_rx.search(d)
        if not m:
            return ('raise', 'ValueError')
        mag, unit = m.group(1), m.group(2)
        if 'e' in mag.lower():
            mag = format(float(mag), '.0f')
        if m.group(3):
            return ('return', int(m.group(4)))
        if not unit:
            try:
                return ('return', int(mag))
            except ValueError:
                return ('raise', 'ValueError')
        if len(unit) == 1 and unit != 'B':
            unit += 'B'
        return ref_string_to_bytes(mag + unit, 'IEC', True)

    def setup(interp):
        rxmodel.install(interp)
    bad = {}
    n = 0
    for label, attr in (('virtual size', 'virtual_size'),
                        ('disk size', 'disk_size'),
                        ('cluster_size', 'cluster_size')):
        for text in QEMU_TEXTS:
            cmd = 'image: x.img\n%s: %s\nfile format: raw\n' % (label, text)

            def thunk(interp, cmd=cmd, attr=attr):
                obj = interp.call(cls, [K(cmd)], {'format': K('human')})
                return interp.get_attr(obj, attr)
            outs, _i = extract(world, thunk, setup=setup, depth=7)
            key = 'QemuImgInfo.%s' % attr
            if inexact_notes(outs) or len(outs) != 1:
                rep.undecided('R10.9', key, 'line %r: %d paths %s' % (
                    '%s: %s' % (label, text), len(outs),
                    inexact_notes(outs)))
                bad[attr] = None
                break
            o = outs[0]
            got = ('raise', o.exc_class) if o.kind == 'raise' else (
                'return', o.value.v if isinstance(o.value, K) else
                show(o.value))
            w = want(text.strip())
            n += 1
            ok = got[0] == w[0] and (
                got[1] == w[1] if got[0] == 'raise' else
                (type(got[1]) is int and got[1] == w[1]))
            if not ok and attr not in bad:
                bad[attr] = ('%s: %s' % (label, text), got, w)
    rep.evaluations += n
    for attr in ('virtual_size', 'disk_size', 'cluster_size'):
        if attr in bad and bad[attr] is None:
            continue
        b = bad.get(attr)
        rep.check('R10.9', 'QemuImgInfo.%s' % attr, b is None,
                  'the attribute is the byte count of the line on %d texts'
                  % len(QEMU_TEXTS) if b is None else
                  'for the line %r the attribute is %s, required %s' % (
                      b[0], b[1], b[2]), case=None if b is None else b[0])


def _history(ctx):
    from ..core.table import history_compare
    rep, world = ctx.report, ctx.world
    f = world.func('strutils', 'string_to_bytes')

    def setup(interp):
        from ..core import rxmodel
        rxmodel.install(interp)
    pairs = [(('5KiB', 'IEC'), ('5KiB', 'SI')), (('2kB', 'SI'), ('2kB', 'IEC')),
             (('7kib', 'mixed'), ('7kib', 'IEC')),
             (('1Kb', 'IEC'), ('1Kb', 'IEC')), (('bad', 'IEC'), ('1B', 'IEC')),
             (('1Kib', 'IEC'), ('1KiB', 'IEC')),
             (('1.5MB', 'SI'), ('1.5MB', 'mixed'))]
    for ri in (False, True):
        for a, b in pairs:
            history_compare(
                rep, 'R10.8', 'string_to_bytes[after an earlier call]',
                world, lambda i: f,
                ([K(a[0])], {'unit_system': K(a[1]), 'return_int': K(ri)}),
                ([K(b[0])], {'unit_system': K(b[1]), 'return_int': K(ri)}),
                setup=setup,
                label='%r/%s then %r/%s, return_int=%s' % (a + b + (ri,)))


def _tables(ctx):
    rep, world = ctx.report, ctx.world
    exp = world.const(MOD, 'UNIT_PREFIX_EXPONENT')
    info = world.get(MOD, 'UNIT_SYSTEM_INFO')
    if not isinstance(info, DictV):
        raise AnalysisError('UNIT_SYSTEM_INFO does not fold')
    rep.count('unit systems', len(info.keys), floor=3)
    for p, e in sorted(exp.items()):
        want = LADDER.get(p[0]) if p and (len(p) == 1 or p[1:] == 'i') \
            else None
        rep.check('R10.2', 'UNIT_PREFIX_EXPONENT[%s]' % p, e == want,
                  'exponent of %r is %r (ladder: %r)' % (p, e, want))
    for k, v in zip(info.keys, info.vals):
        if not (isinstance(v, TupleV) and len(v.items) == 2 and
                isinstance(v.items[1], RegexV)):
            rep.undecided('R10.1', 'UNIT_SYSTEM_INFO[%s]' % k.v,
                          'entry is not (base, compiled regex)')
            continue
        base, rx = v.items
        want_base = SYSTEMS.get(k.v, (None,))[0]
        if k.v in SYSTEMS:
            rep.check('R10.3', 'UNIT_SYSTEM_INFO[%s]:base' % k.v,
                      base == K(want_base), 'base %s (required %s)' % (
                          show(base), want_base))
        tree = R.parse(rx.pattern, rx.flags)
        g2 = R.find_group(tree, 2)
        if g2 is None:
            rep.undecided('R10.1', 'UNIT_SYSTEM_INFO[%s]' % k.v,
                          'no prefix group')
            continue
        try:
            lang = R.language(R.group_body(g2), rx.flags)
        except AnalysisError as e:
            rep.undecided('R10.1', 'UNIT_SYSTEM_INFO[%s]' % k.v, str(e))
            continue
        missing = sorted(lang - set(exp))
        rep.check('R10.1', 'UNIT_SYSTEM_INFO[%s]:prefixes' % k.v,
                  not missing, 'prefixes admitted by the %s pattern but '
                  'missing from UNIT_PREFIX_EXPONENT (KeyError instead of a '
                  'value): %s' % (k.v, missing),
                  case={'unit_system': k.v, 'text': '1%sB' % (
                      missing[0] if missing else '')})
        rep.case({'unit system': k.v, 'prefixes': sorted(lang)},
                 ('prefixes', k.v, tuple(sorted(lang))))
    # sibling table: units.py
    for name, base in (('Ki', 1024), ('Mi', 1024), ('Gi', 1024),
                       ('Ti', 1024), ('Pi', 1024), ('Ei', 1024),
                       ('Zi', 1024), ('Yi', 1024), ('Ri', 1024),
                       ('Qi', 1024), ('k', 1000), ('M', 1000), ('G', 1000),
                       ('T', 1000), ('P', 1000), ('E', 1000), ('Z', 1000),
                       ('Y', 1000), ('R', 1000), ('Q', 1000)):
        v = world.const('units', name)
        rep.check('R10.2', 'units.%s' % name, v == base ** LADDER[name[0]],
                  'units.%s = %r (ladder: %d**%d)' % (name, v, base,
                                                      LADDER[name[0]]))


def _table(ctx):
    rep, world = ctx.report, ctx.world
    f = world.func(MOD, 'string_to_bytes')
    rep.analysed('strutils.string_to_bytes')
    text, system, ri = T('sym', 'text'), T('sym', 'unit_system'), \
        T('sym', 'return_int')

    def thunk(interp):
        return interp.call(f, [text, system, ri])

    def setup(interp):
        rxmodel.install(interp)
        interp.types[text] = 'str'
        interp.types[system] = 'str'
        interp.types[ri] = 'bool'
        interp.call_raises['float'] = ['ValueError']
    outcomes, _i = extract(world, thunk, setup=setup, max_paths=4096)
    grid = texts(ctx.thorough)

    def oracle(v):
        return ref_string_to_bytes(v['text'], v['unit_system'],
                                   v['return_int'])
    grid_compare(rep, 'R10.3', 'string_to_bytes',
                 'text x unit system x return_int', outcomes,
                 {text: grid, system: ('IEC', 'SI', 'mixed', 'bogus', ''),
                  ri: (False, True)}, oracle, hooks=[rxmodel.hook],
                 value_eq=close)


def _qemu(ctx):
    rep, world = ctx.report, ctx.world
    cls = world.cls('imageutils.qemu', 'QemuImgInfo')
    _qemu_public(ctx, cls)
    if cls.lookup('_extract_bytes')[0] is None or \
            cls.lookup('_extract_details')[0] is None:
        # the private helpers the finer tables are extracted from are gone
        # (renamed, merged): the public form above decides the same fields
        rep.case({'QemuImgInfo helpers': 'not under their pinned names; '
                  'decided through the constructor (R10.9)'},
                 ('qemu', 'helpers-unread'))
        return
    rep.analysed('imageutils.qemu.QemuImgInfo._extract_bytes')
    details = T('sym', 'details')
    from ..core.values import Obj

    def stub(interp, args, kwargs):
        a = tuple(interp.termify(x) for x in args) + tuple(
            T('kw', k, interp.termify(v)) for k, v in sorted(kwargs.items()))
        t = T('call', 'string_to_bytes', *a)
        interp.call_raises['string_to_bytes'] = ['ValueError']
        interp.may_raise('string_to_bytes', t)
        return t

    def thunk(interp):
        obj = Obj(cls, {}, label='info')
        return interp.call(interp.get_attr(obj, '_extract_bytes'), [details])

    def setup(interp):
        rxmodel.install(interp)
        interp.types[details] = 'str'
        interp.stubs['string_to_bytes'] = stub
        interp.call_raises['int'] = ['ValueError']
        interp.call_raises['float'] = ['ValueError']
    outcomes, _i = extract(world, thunk, setup=setup)
    by_field = {}
    from ..core.values import ListV
    rep.analysed('imageutils.qemu.QemuImgInfo._extract_details')
    for field in ('virtual_size', 'disk_size', 'cluster_size'):
        def thunk_f(interp, field=field):
            obj = Obj(cls, {}, label='info')
            return interp.call(interp.get_attr(obj, '_extract_details'),
                               [K(field), details, ListV([])])
        by_field[field], _i = extract(world, thunk_f, setup=setup)

    def s2b_hook(v, val):
        if isinstance(v, T) and v.op == 'call' and \
                v.args[0] == 'string_to_bytes':
            t = ev(v.args[1], val, [s2b_hook, rxmodel.hook])
            kw = {a.args[0]: ev(a.args[1], val, [s2b_hook, rxmodel.hook])
                  for a in v.args[2:] if isinstance(a, T) and a.op == 'kw'}
            pos = [ev(a, val, [s2b_hook, rxmodel.hook]) for a in v.args[2:]
                   if not (isinstance(a, T) and a.op == 'kw')]
            system = kw.get('unit_system', pos[0] if pos else 'IEC')
            ri = kw.get('return_int', pos[1] if len(pos) > 1 else False)
            r = ref_string_to_bytes(t, system, ri)
            if r[0] == 'raise':
                raise Raised(r[1])
            return r[1]
        return NotImplemented

    size_rx = re.compile(r"([0-9]+[eE][-+][0-9]+|\d*\.?\d+)"
                         r"\s*(\w+)?(\s*\(\s*(\d+)\s+bytes\s*\))?", re.I)

    def oracle(v):
        d = v['details']
        m = size_rx.search(d)
        if not m:
            return ('raise', 'ValueError')
        mag, unit = m.group(1), m.group(2)
        if 'e' in mag.lower():
            mag = format(float(mag), '.0f')
        if m.group(3):
            return ('return', int(m.group(4)))
        if not unit:
            try:
                return ('return', int(mag))
            except ValueError:
                return ('raise', 'ValueError')
        if len(unit) == 1 and unit != 'B':
            unit += 'B'
        return ref_string_to_bytes(mag + unit, 'IEC', True)
    grid = ('1.5G', '10 KiB', '2.0E', '1.5P', '512', '1e+3', '1.1e+2 M',
            '64K (65536 bytes)', '1 (2 bytes)', '3 B', '3B', '2 k', 'junk',
            '1.5 TB', '7 Z', '9Y', '4R', '5Q', '1.5', '12 bytes', '0',
            '197K (200704 bytes)', '1.0G (1073741824 bytes)', '8T', '2M',
            '6 Mi', '1 b', '2K (0 bytes)', '512 (0 bytes)', '0 (0 bytes)',
            '9007199254740993', '18446744073709551615',
            '12345678901234567890B', '1.0G (1073741825 bytes)',
            '.5G', '.25 MiB', '.5', '0.5G', '00.5K', '1.K', 'x.5M', '1..5G',
            '.5G (12 bytes)', '5.e+1', '1E+3 K', '1e-1', ' 7M', '7 M ',
            'size 3K', '3K\n', '3\tK', '1.5k', '1.5kB', '1,5G',
            # units spelled with an 'e' / 'E', decimal magnitudes
            '1.5E', '2.5EB', '0.5 EiB', '1.25E (7 bytes)', '1.5 e', '7.5Ei',
            '1.5PE', '2.5e+1 E', '0.5 (1 bytes)', '1000 (1023 bytes)')
    grid_compare(rep, 'R10.6', 'QemuImgInfo._extract_bytes',
                 'human-readable size strings', outcomes, {details: grid},
                 oracle, hooks=[s2b_hook, rxmodel.hook], value_eq=close)

    def oracle_f(v):
        if v['details'] in ('None', 'unavailable'):
            return ('return', 0)
        return oracle(v)
    for field, outs in sorted(by_field.items()):
        grid_compare(rep, 'R10.7', 'QemuImgInfo._extract_details[%s]' %
                     field, 'size field texts', outs,
                     {details: grid + ('None', 'unavailable', 'none',
                                       '64 KiB (65536 bytes)', '65536 B')},
                     oracle_f, hooks=[s2b_hook, rxmodel.hook],
                     value_eq=close)

