"""C11 - address validators accept exactly well-formed values and never
raise."""
import ipaddress
import re

from ..core import regex as R
from ..core import rxmodel
from ..core.loader import AnalysisError
from ..core.table import extract, grid_compare
from ..core.termeval import ev, Raised, CannotEval
from ..core.values import K, T, Obj, ExtRef, AbsFunc, show

MOD = 'netutils'
LIB_RAISES = ['netaddr.AddrFormatError', 'ValueError', 'TypeError']


def _netaddr_hook(v, val, hooks=None):
    """Evaluates the symbolic netaddr calls of the extracted tables with the
    installed netaddr library (trusted third party, not repository code)."""
    if isinstance(v, ExtRef) and v.name.startswith('netaddr.'):
        import importlib
        obj = importlib.import_module('netaddr')
        for part in v.name.split('.')[1:]:
            obj = getattr(obj, part)
        return obj
    if not (isinstance(v, T) and v.op in ('call', 'attr')):
        return NotImplemented
    import netaddr
    hooks = hooks or [_netaddr_hook, rxmodel.hook]
    if v.op == 'attr' and len(v.args) == 2 and v.args[1] == 'cidr':
        base = ev(v.args[0], val, hooks)
        return base.cidr
    if v.op != 'call' or not isinstance(v.args[0], str) or \
            not v.args[0].startswith('netaddr.'):
        return NotImplemented
    name = v.args[0]
    pos, kw = [], {}
    for a in v.args[1:]:
        if isinstance(a, T) and a.op == 'kw':
            kw[a.args[0]] = ev(a.args[1], val, hooks)
        else:
            pos.append(ev(a, val, hooks))
    fn = {'netaddr.valid_ipv4': netaddr.valid_ipv4,
          'netaddr.valid_ipv6': netaddr.valid_ipv6,
          'netaddr.IPNetwork': netaddr.IPNetwork,
          'netaddr.IPAddress': netaddr.IPAddress}.get(name)
    if fn is None:
        return NotImplemented
    try:
        return fn(*pos, **kw)
    except netaddr.AddrFormatError:
        raise Raised('netaddr.AddrFormatError')
    except ValueError:
        raise Raised('ValueError')
    except TypeError:
        raise Raised('TypeError')


HOOKS = [_netaddr_hook, rxmodel.hook]


def _setup(types):
    def setup(interp):
        rxmodel.install(interp)
        for n in ('netaddr.valid_ipv4', 'netaddr.valid_ipv6',
                  'netaddr.IPNetwork'):
            interp.pure_calls.add(n)
            interp.call_raises[n] = LIB_RAISES
        interp.call_raises['int'] = ['ValueError', 'TypeError']
        interp.types.update(types)
    return setup


def truthy_eq(g, w):
    if isinstance(g, Obj):
        g = True
    return bool(g) is w


def _v4(s, strict=True):
    try:
        ipaddress.IPv4Address(s)
        return True
    except ValueError:
        return False


def _v6(s):
    try:
        a = ipaddress.IPv6Address(s)
    except ValueError:
        return False
    if '%' in s:
        scope = s.rsplit('%', 1)[1]
        if not 1 <= len(scope) <= 15:
            return False
    return True


def _cidr(s, v6_only=False):
    if s.count('/') != 1 or s.endswith('/'):
        return False
    try:
        n = ipaddress.ip_network(s, strict=False)
    except ValueError:
        return False
    if '%' in s:
        # a zoned network (RFC 4007, 'fe80::1%eth0/64'): the stdlib takes
        # it, netaddr does not, and the statement's CIDR grammar has no
        # scope ids - not judged
        return None
    return (n.version == 6) if v6_only else True


V4 = ('1.2.3.4', '0.0.0.0', '255.255.255.255', '256.1.1.1', '1.2.3',
      '1.2.3.4.5', '1.2.3.-1', '1.2.3.300', '', 'a.b.c.d', '1.2.3.4 ',
      ' 1.2.3.4', '1.2.3.4\x00', '1..3.4', '::1', '1.2.3.4/8', '0x1.2.3.4',
      '1.2.3.4\n', '١.2.3.4')
V6 = ('::1', '::', '1:2:3:4:5:6:7:8', '1:2:3:4:5:6:7:8:9', '1:2:3:4:5:6:7',
      'fe80::1%eth0', 'fe80::1%', 'fe80::1%' + 'a' * 15,
      'fe80::1%' + 'a' * 16, 'fe80::1%a%b', '::1%%', 'fe80::1%eth0%',
      '::ffff:1.2.3.4', '::ffff:1.2.3.256', '1::2::3', 'g::1', '', '1.2.3.4',
      '::1\x00', ':::', '1:2:3:4:5:6:7::', '%eth0', '::1/64', '12345::1',
      'fe80::1%a/b', 'fe80::1%a b',
      # maximal-length spellings, alone and with a maximal scope id
      'fe80:0000:0000:0000:0204:61ff:fe9d:f156',
      'fe80:0000:0000:0000:0204:61ff:fe9d:f156%enp3s0',
      'fe80:0000:0000:0000:0204:61ff:fe9d:f156%' + 'z' * 15,
      '0000:0000:0000:0000:0000:ffff:192.168.100.100',
      '0000:0000:0000:0000:0000:ffff:192.168.100.100%' + 'z' * 15,
      '0000:0000:0000:0000:0000:ffff:192.168.100.100%' + 'z' * 16,
      '0000:0000:0000:0000:0000:0000:0000:00001',
      # the scope id is counted in characters
      'fe80::1%' + '\u00e9' * 8, 'fe80::1%' + '\u00e9' * 15,
      'fe80::1%' + '\u00e9' * 16, 'fe80::1%wlan-caf\u00e9-00012',
      'fe80::1%' + '\u4e2d' * 6, 'fe80::1%eth0/64', 'fe80::1%1/128',
      '::1%lo/', 'fe80::1%/', 'fe80::1/64%eth0')
CIDRS = ('10.0.0.0/8', '10.0.0.0/0', '10.0.0.0/32', '10.0.0.0/33',
         '10.0.0.0/-1', '10.0.0.0/', '10.0.0.0', '10.0.0.0//8',
         '10.0.0.0/8/8', '10.0.0.0/8/', '/8', '', '::/0', '::/128', '::/129',
         '2001:db8::/64', '2001:db8::/64/', '2001:db8::/', '2001:db8::',
         '10.0.0.256/8', 'a/8', '10.0.0.0/a', '10.0.0.1/8', '::1/64/64',
         '10.0.0.0/ 8', '10.0.0.0/8 ', '10.0.0.0/+8', '10.0.0.0/8\n',
         '10.0.0.0/٨', '2001:db8::/ 64', '2001:db8::/64\n', '::/ffff::',
         '10.0.0.0/255.0.0.0', '10.0.0.0/08',
         # a network has no scope id
         'fe80::1%eth0', '::1%lo', 'fe80::1.2.3.4%eth0', 'fe80::1%eth0/64',
         'fe80::%eth0/64', 'fe80::/64%eth0', '1.2.3.4%eth0', '::1%')


def grammar_grids():
    """Thorough tier: the address grammars of the quantifier, enumerated."""
    import itertools
    octs = ('-1', '0', '1', '9', '10', '255', '256', '300', '01', '001',
            '0x1', '', ' 1', '1e1', '+1')
    v4 = set()
    for n in (1, 2, 3, 4, 5):
        base = ['1', '2', '3', '4', '5'][:n]
        v4.add('.'.join(base))
        for i in range(n):
            for o in octs:
                v4.add('.'.join(base[:i] + [o] + base[i + 1:]))
    for combo in itertools.product(('0', '255', '256', '01'), repeat=4):
        v4.add('.'.join(combo))
    for s in ('1.2.3.4.', '.1.2.3.4', '1.2.3.4\t', '1.2.3.4\r\n',
              '1,2,3,4', '1.2.3.4%eth0', '1.2.3.4\x00.5', '\x001.2.3.4',
              '１.2.3.4', '1.2.3.٤'):
        v4.add(s)
    v6 = set()
    groups = ('1', 'ffff', '0', '0000', '12345', 'g', '', '-1', 'FFFF')
    for n in range(1, 10):
        base = [str(i) for i in range(1, n + 1)]
        v6.add(':'.join(base))
        for i in range(n + 1):                      # '::' at every position
            v6.add(':'.join(base[:i]) + '::' + ':'.join(base[i:]))
        for i in range(n):
            for g in groups:
                v6.add(':'.join(base[:i] + [g] + base[i + 1:]))
    for tail in ('1.2.3.4', '1.2.3.256', '1.2.3', '1.2.3.4.5', '01.2.3.4'):
        for head in ('::', '::ffff:', '1:2:3:4:5:6:', '1:2:3:4:5:6:7:',
                     '64:ff9b::', '1::'):
            v6.add(head + tail)
    for a in ('fe80::1', '::', '1:2:3:4:5:6:7:8', '::ffff:1.2.3.4', 'g::'):
        for n in range(0, 18):
            v6.add(a + '%' + 'e' * n)
        for sc in ('eth0%', '%', 'a b', 'a/b', '1', '\x00', 'é', 'e\n'):
            v6.add(a + '%' + sc)
    for s in (':', ':1', '1:', '::1:', ':1::', '::1 ', ' ::1', '::1\n',
              '[::1]', '::1%', '1::1::1', ':::1', '::1/128', '0::0::0'):
        v6.add(s)
    cidrs = set()
    for net in ('10.0.0.0', '10.0.0.1', '0.0.0.0', '255.255.255.255',
                '10.0.0', '10.0.0.256', '::', '2001:db8::', 'fe80::1',
                '::ffff:1.2.3.4', '1:2:3:4:5:6:7:8', '1:2', ''):
        cidrs.add(net)
        for pre in [str(i) for i in range(-1, 130)] + [
                '', ' 8', '8 ', '08', '+8', '8/8', '/8', '8/', 'a', '0x8',
                '255.0.0.0', '0.0.0.255', '255.255.255.255', '8\n', '٨',
                '1e1', '8.0']:
            cidrs.add(net + '/' + pre)
    return tuple(sorted(v4)), tuple(sorted(v6)), tuple(sorted(cidrs))


def run(ctx):
    rep, world = ctx.report, ctx.world
    v4g, v6g, cidrg = V4, V6, CIDRS
    if ctx.thorough:
        a, b, c = grammar_grids()
        v4g, v6g, cidrg = V4 + a, V6 + b, CIDRS + c
    rep.explanation = (
        'Every validator is extracted as a decision table with the netaddr '
        'calls kept symbolic and each of their documented failure modes '
        '(AddrFormatError, ValueError, TypeError) forked explicitly, so a '
        'handler tuple narrower than what the library raises leaves a '
        'raising path in the table.  The tables are evaluated on grids of '
        'address strings (netaddr itself evaluates the symbolic calls) and '
        'compared with the stdlib ipaddress parser plus the stated scope / '
        'prefix rules; the MAC pattern is compared with the six-pair '
        'grammar by DFA equivalence over printable ASCII; range checks over '
        'values at both ends in int and str form.')
    rep.rule('R11.1', 'validators answer (never raise) for every string, and '
             'agree with ipaddress on well-formedness')
    rep.rule('R11.2', 'port / ICMP ranges, both ends inclusive; None only '
             'for the ICMP code')
    rep.rule('R11.3', 'is_valid_mac accepts exactly six colon-separated hex '
             'pairs (any letter case)')
    addr = T('sym', 'address')
    types = {addr: 'str'}
    specs = [
        ('is_valid_ipv4', v4g + V6[:3], lambda s: _v4(s)),
        ('is_valid_ipv6', v6g + V4[:4], _v6),
        ('is_valid_ip', v4g + v6g, lambda s: _v6(s) or _v4(s) or
         _aton_ok(s)),
        ('is_valid_cidr', cidrg, lambda s: _cidr(s)),
        ('is_valid_ipv6_cidr', cidrg, None),
    ]
    for name, grid, ref in specs:
        f = world.func(MOD, name)
        rep.analysed('netutils.' + name)

        def thunk(interp, f=f):
            return interp.call(f, [addr])
        outcomes, _i = extract(world, thunk, setup=_setup(types))
        if name == 'is_valid_ipv6_cidr':
            # accepts bare addresses too (documented behaviour of the
            # function: .cidr of an address is its /128); the property's
            # clause is the never-raise one and prefix range
            def oracle(v):
                s = v['address']
                if s.count('/') > 1 or s.endswith('/') and s != '':
                    return ('return', False)
                try:
                    n = ipaddress.ip_network(s, strict=False)
                except ValueError:
                    return ('return', False)
                if '%' in s:
                    return None     # zoned network: see _cidr
                return ('return', n.version == 6)
        elif name == 'is_valid_ip':
            def oracle(v, ref=ref):
                return ('return', ref(v['address']))
        else:
            def oracle(v, ref=ref):
                r = ref(v['address'])
                return None if r is None else ('return', r)
        grid_compare(rep, 'R11.1', name, 'address strings', outcomes,
                     {addr: grid}, oracle, hooks=HOOKS, value_eq=truthy_eq)
    _mac(ctx)
    _ranges(ctx)
    _history(ctx)


def _history(ctx):
    """A validator's answer does not depend on what was validated before
    (by this or by a sibling validator)."""
    from ..core.table import history_compare
    rep, world = ctx.report, ctx.world
    rep.rule('R11.4', 'validators keep no state: the answer for a value is '
             'the same whatever was validated before')
    fn = {n: world.func(MOD, n) for n in (
        'is_valid_ipv4', 'is_valid_ip', 'is_valid_ipv6', 'is_valid_cidr',
        'is_valid_mac', 'is_valid_port')}

    def pair(first, fargs, fkw, second, sargs, skw):
        def prepare(interp):
            # one callable taking (which, *args): both calls go through it
            def run(i2, a, kw):
                which = a[0].v
                return i2.call(fn[which], list(a[1:]), kw)
            return AbsFunc('validators', run)
        history_compare(
            rep, 'R11.4', 'validators[after an earlier call]', world,
            prepare, ([K(first)] + [K(x) for x in fargs],
                      {k: K(v) for k, v in fkw.items()}),
            ([K(second)] + [K(x) for x in sargs],
             {k: K(v) for k, v in skw.items()}), setup=_setup({}),
            label='%s%r then %s%r' % (first, tuple(fargs) + tuple(
                fkw.items()), second, tuple(sargs) + tuple(skw.items())))
    pair('is_valid_ip', ['10.1'], {}, 'is_valid_ipv4', ['10.1'],
         {'strict': True})
    pair('is_valid_ipv4', ['10.1'], {'strict': False}, 'is_valid_ipv4',
         ['10.1'], {'strict': True})
    pair('is_valid_ipv4', ['10.1'], {'strict': True}, 'is_valid_ipv4',
         ['10.1'], {'strict': False})
    pair('is_valid_ipv4', ['1.2.3.4'], {}, 'is_valid_ipv6', ['1.2.3.4'], {})
    pair('is_valid_ipv6', ['::1'], {}, 'is_valid_ip', ['::1%'], {})
    pair('is_valid_cidr', ['10.0.0.0/8'], {}, 'is_valid_cidr',
         ['10.0.0.0/8 '], {})
    pair('is_valid_mac', ['AA:BB:CC:DD:EE:FF'], {}, 'is_valid_mac',
         ['aa:bb:cc:dd:ee:fg'], {})
    pair('is_valid_port', ['80'], {}, 'is_valid_port', [80.5], {})


def _aton_only(s):
    """inet_aton-style short forms (a, a.b, a.b.c): accepted by the
    non-strict IPv4 check by design, outside the stdlib parser's domain."""
    if s != s.rstrip():
        # inet_aton() stops at trailing white space: lenient by design
        return True
    parts = s.split('.')
    return 1 <= len(parts) <= 3 and all(p.isdigit() and p.isascii()
                                        for p in parts)


def _aton_ok(s):
    """The stdlib's lenient IPv4 parser (is_valid_ip is non-strict)."""
    import socket
    if not s:
        return False
    try:
        socket.inet_aton(s)
        return True
    except (OSError, ValueError):
        return False


def _mac(ctx):
    rep, world = ctx.report, ctx.world
    f = world.func(MOD, 'is_valid_mac')
    rep.analysed('netutils.is_valid_mac')
    addr = T('sym', 'address')
    seen = {}
    for kind, grid in (('str', ('aa:bb:cc:dd:ee:ff', 'AA:BB:CC:DD:EE:FF',
                                'aa:bb:cc:dd:ee', 'aa:bb:cc:dd:ee:ff:00',
                                'aa-bb-cc-dd-ee-ff', 'aabb.ccdd.eeff',
                                'aa:bb:cc:dd:ee:fg', 'aa:bb:cc:dd:ee:ff\n',
                                'aa:bb:cc:dd:ee:f', '', ' aa:bb:cc:dd:ee:ff',
                                'aa:bb:cc:dd:ee:ff ', 'a:b:c:d:e:f',
                                'aa:bb:cc:dd:ee:ff:', '0a:1B:2c:3D:4e:5F',
                                # characters that turn into hex digits
                                # under some case mapping
                                '52:54:00:cf:2d:\ufb00', 'AA:BB:CC:DD:EE:\ufb00',
                                '\uff21A:bb:cc:dd:ee:ff',
                                'aa:bb:cc:dd:ee:f\u0131', 'aa:bb:cc:dd:ee:\u0661f',
                                'aa:bb:cc:dd:ee:ff\n',
                                # spellings int(x, 16) tolerates
                                '+1:bb:cc:dd:ee:ff', 'aa:-0:cc:dd:ee:ff',
                                'aa:bb: c:dd:ee:ff', 'aa:bb:c :dd:ee:ff',
                                'aa:bb:cc:\u0661\u0662:ee:ff',
                                'aa:bb:cc:dd:0x:ff', 'aa:bb:cc:dd:ee:1_',
                                'aa:bb:cc:dd:ee:_1', '\tb:bb:cc:dd:ee:ff',
                                'aa:bb:cc:dd:ee:f\u0666')),
                       ('other', (None, 5, b'aa:bb:cc:dd:ee:ff',
                                  ['aa:bb:cc:dd:ee:ff']))):
        def thunk(interp):
            return interp.call(f, [addr])

        def chain(interp, name, fv, args, kwargs):
            if name in rxmodel.MODES:
                seen['rx'] = args[0]
            return NotImplemented

        def setup(interp):
            _setup({})(interp)
            inner = interp.on_call

            def hook(i, name, fv, args, kwargs):
                if name in rxmodel.MODES:
                    seen['rx'] = (args[0], name, args[1] if len(args) > 1
                                  else None, args[2] if len(args) > 2 else
                                  kwargs.get('flags'))
                return inner(i, name, fv, args, kwargs)
            interp.on_call = hook
            interp.types[addr] = kind
        outcomes, _i = extract(world, thunk, setup=setup)
        ref = re.compile(r'[0-9a-fA-F]{2}(:[0-9a-fA-F]{2}){5}\Z')

        def oracle(v):
            a = v['address']
            return ('return', isinstance(a, str) and bool(ref.match(a)))
        grid_compare(rep, 'R11.3', 'is_valid_mac[%s]' % kind,
                     '%s values' % kind, outcomes, {addr: grid}, oracle,
                     hooks=HOOKS, value_eq=truthy_eq)
    # language of the pattern as applied (match on address.lower())
    rx = seen.get('rx')
    if rx and isinstance(rx[0], K) and isinstance(rx[0].v, str) and \
            rx[1].endswith('match'):
        flags = rx[3].v if isinstance(rx[3], K) and \
            isinstance(rx[3].v, int) else 0
        tree = R.parse(rx[0].v, flags)
        seq, _a, a_end = R.strip_anchors(tree)
        alphabet = set(range(32, 127)) | {10}
        subject = rx[2]
        lowered = isinstance(subject, T) and subject.op == 'mcall' and \
            subject.args[1] == 'lower'
        if lowered:
            # the pattern only ever sees lower-cased text
            alphabet -= set(range(ord('A'), ord('Z') + 1))
            spec_src = '[0-9a-f]{2}(:[0-9a-f]{2}){5}'
        elif subject is addr or subject == addr:
            spec_src = '[0-9a-fA-F]{2}(:[0-9a-fA-F]{2}){5}'
        else:
            rep.info('R11.3', 'is_valid_mac:pattern', 'pattern applied to '
                     '%s; grid check only' % show(subject))
            return
        spec, _b, _c = R.strip_anchors(R.parse(spec_src))
        try:
            w = R.difference_witness(seq, flags, spec, 0, alphabet)
        except AnalysisError as e:
            rep.undecided('R11.3', 'is_valid_mac:pattern', str(e))
            return
        end_ok = a_end and rx[0].v.endswith('\\Z') or \
            rx[1].endswith('fullmatch')
        rep.check('R11.3', 'is_valid_mac:pattern', w is None and end_ok,
                  'pattern %r %s' % (rx[0].v, 'is the six-pair grammar, '
                                     'anchored at the very end' if w is None
                                     and end_ok else
                                     'differs from the grammar on %r' % (
                                         w[0] if w else 'a trailing '
                                         'newline (pattern ends in $)')))
    else:
        rep.info('R11.3', 'is_valid_mac:pattern', 'pattern not applied by '
                 're.match on a constant; grid check only')


def _ranges(ctx):
    rep, world = ctx.report, ctx.world
    val = T('sym', 'value')
    grid = (0, 1, 255, 256, 65535, 65536, -1, '0', '255', '256', '65535',
            '65536', '-1', ' 80 ', '', None, 'a', 1.5, '1.5', True, '0x10',
            '+5', '1_0', [1], '\u00b2', '8\u00b2', '\u2460', '\u0663',
            '9' * 5000, '00080', ' 80', '80\n', b'80', 65535.0, '65535.0')

    def ref(lo, hi, none_ok=False):
        def oracle(v):
            x = v['value']
            if x is None:
                return ('return', none_ok)
            try:
                n = int(x)
            except (ValueError, TypeError):
                return ('return', False)
            return ('return', lo <= n <= hi)
        return oracle
    for name, oracle in (('is_valid_port', ref(0, 65535)),
                         ('is_valid_icmp_type', ref(0, 255)),
                         ('is_valid_icmp_code', ref(0, 255, True))):
        f = world.func(MOD, name)
        rep.analysed('netutils.' + name)

        def thunk(interp, f=f):
            return interp.call(f, [val])
        outcomes, _i = extract(world, thunk, setup=_setup({}))
        grid_compare(rep, 'R11.2', name, 'values around both range ends',
                     outcomes, {val: grid}, oracle, hooks=HOOKS,
                     value_eq=truthy_eq)
