"""C12 - time normalisation, overridden-clock comparison and marshalling."""
import ast
import calendar
import datetime as dt
import math

from ..core.absint import AbsRaise
from ..core.loader import AnalysisError, enclosing_function
from ..core.table import extract, grid_compare, inexact_notes, outcome_at, \
    outcome_value
from ..core.termeval import ev, Raised, CannotEval
from ..core.values import K, T, Obj, DictV, TupleV, ExtRef, AbsFunc, show

MOD = 'timeutils'
NOW = T('sym', 'now')
UTC = dt.timezone.utc


def tz(hours, minutes=0):
    return dt.timezone(dt.timedelta(hours=hours, minutes=minutes))


def _hook(v, val):
    """Evaluates datetime / calendar / iso8601 / zoneinfo calls of extracted
    terms with the real (stdlib / third-party) implementations."""
    hooks = [_hook]
    if isinstance(v, ExtRef):
        if v.name == 'iso8601.iso8601.UTC':
            import iso8601
            return iso8601.iso8601.UTC
        if v.name == 'datetime.timezone.utc':
            return UTC
        return NotImplemented
    if not (isinstance(v, T) and v.op == 'call'):
        return NotImplemented
    name = v.args[0]
    fns = {'datetime.timedelta': dt.timedelta,
           'datetime.datetime': dt.datetime,
           'calendar.timegm': calendar.timegm}
    if name == 'iso8601.parse_date':
        import iso8601
        fn = iso8601.parse_date
    elif name == 'zoneinfo.ZoneInfo':
        import zoneinfo
        fn = zoneinfo.ZoneInfo
    elif name in fns:
        fn = fns[name]
    else:
        return NotImplemented
    pos, kw = [], {}
    for a in v.args[1:]:
        if isinstance(a, T) and a.op == 'kw':
            kw[a.args[0]] = ev(a.args[1], val, hooks)
        else:
            pos.append(ev(a, val, hooks))
    try:
        return fn(*pos, **kw)
    except Exception as e:
        n = type(e).__name__
        if n == 'ParseError':
            n = 'iso8601.ParseError'
        raise Raised(n)


PURE_CALLS = ('datetime.timedelta', 'datetime.datetime', 'calendar.timegm',
              'iso8601.parse_date', 'zoneinfo.ZoneInfo')
PURE_METHODS = ('utcoffset', 'replace', 'total_seconds', 'timetuple',
                'tzname', 'get', 'isoformat', 'astimezone', 'utctimetuple',
                'timestamp', 'dst', 'date', 'time', 'timetz', 'toordinal',
                'weekday', 'fromisoformat', 'strftime')


def _setup(extra=None, stub_now=True):
    def setup(interp):
        interp.pure_calls.update(PURE_CALLS)
        interp.pure_methods.update(PURE_METHODS)
        interp.call_raises['iso8601.parse_date'] = ['iso8601.ParseError',
                                                    'TypeError']
        if stub_now:
            def utcnow(i, args, kwargs):
                i.effect('call', 'utcnow', tuple(i.termify(a) for a in args))
                return NOW
            interp.stubs['utcnow'] = utcnow
        interp.types[NOW] = 'datetime'
        if extra:
            extra(interp)
    return setup


def run(ctx):
    rep, world = ctx.report, ctx.world
    THOROUGH[0] = ctx.thorough
    rep.explanation = (
        'The comparison predicates, normalize_time, parse_isotime, utcnow / '
        'utcnow_ts / advance_time_* under an overridden clock and the '
        'marshal / unmarshal pair are extracted as tables over symbolic '
        'datetimes (datetime, calendar, iso8601 and zoneinfo calls kept '
        'symbolic) and compared with exact datetime arithmetic on grids '
        'that include the exact-equality boundary at microsecond resolution, '
        'very large ages, pre-1970 override instants, offsets up to +-23:59, '
        'leap seconds and ISO strings; who-calls check of the real clock.  '
        'iso8601 / zoneinfo semantics are trusted.')
    rep.rule('R12.1', 'the real clock is read only by utcnow / utcnow_ts / '
             'set_time_override; predicates obtain "now" from utcnow()')
    rep.rule('R12.2', 'older <=> now - t > s; newer <=> t - now > s; soon '
             '<=> t <= now + w; for naive, aware and ISO-string t')
    rep.rule('R12.3', 'override plumbing: utcnow / utcnow_ts return the '
             'override instant; advance_time_* move it exactly')
    rep.rule('R12.4', 'unmarshall_time inverts marshall_now; leap second '
             'capped at 59 with every other field kept')
    rep.rule('R12.5', 'normalize_time: naive unchanged, aware -> naive UTC; '
             'parse_isotime inverts isoformat and raises ValueError only')
    from .c14 import memo_check
    rep.rule('R12.0', 'clock-dependent helpers and normalize_time are not '
             'memoised (equal arguments do not imply equal results: the '
             'clock moves; datetimes differing only in fold compare equal)')
    for fn in ('normalize_time', 'is_older_than', 'is_newer_than',
               'is_soon', 'utcnow', 'utcnow_ts', 'marshall_now'):
        memo_check(rep, 'R12.0', world, MOD, fn,
                   why='but the result depends on the clock / on the fold '
                   'of a datetime in a named zone (two occurrences of a '
                   'repeated wall-clock time compare equal)')
    _clock_sources(ctx)
    _predicates(ctx)
    _normalize(ctx)
    _override(ctx)
    _marshal(ctx)
    _fixture(ctx)


def _clock_sources(ctx):
    rep = ctx.report
    mod = ctx.repo.module(MOD)
    allowed = {'utcnow', 'utcnow_ts', 'set_time_override'}
    n = 0
    # private names (helpers, dispatch tables) that are only ever *referred
    # to* from the allowed functions - directly, through other such names,
    # or through a module-level table - may read the clock on their behalf
    def holder(node):
        """Top-level function (or module-level assignment target) that a
        node belongs to."""
        n, top = node, None
        while getattr(n, '_parent', None) is not None:
            top = n
            n = n._parent
        if isinstance(top, (ast.FunctionDef, ast.ClassDef)):
            return {top.name}
        if isinstance(top, ast.Assign):
            return {t.id for t in top.targets if isinstance(t, ast.Name)} \
                or {'<module>'}
        if isinstance(top, ast.AnnAssign) and isinstance(top.target,
                                                         ast.Name):
            return {top.target.id}
        return {'<module>'}
    defined = set()
    for st in mod.tree.body:
        if isinstance(st, (ast.FunctionDef, ast.ClassDef)):
            defined.add(st.name)
        elif isinstance(st, ast.Assign):
            defined.update(t.id for t in st.targets
                           if isinstance(t, ast.Name))
    callers = {}
    for node in ast.walk(mod.tree):
        if isinstance(node, ast.Name) and isinstance(node.ctx, ast.Load) \
                and node.id in defined:
            callers.setdefault(node.id, set()).update(
                holder(node) - {node.id})
    helpers = set()
    changed = True
    while changed:
        changed = False
        for name, who in callers.items():
            if name.startswith('_') and name not in helpers and who and \
                    who <= (allowed | helpers):
                helpers.add(name)
                changed = True
    for node in ast.walk(mod.tree):
        if isinstance(node, ast.Call):
            name = ast.unparse(node.func)
            if name in ('datetime.datetime.now', 'time.time',
                        'datetime.datetime.utcnow', 'datetime.datetime.today',
                        'datetime.now', 'time.time_ns'):
                n += 1
                fn = enclosing_function(node)
                rep.check('R12.1', 'clock-read in %s' % fn,
                          holder(node) <= allowed | helpers,
                          '%s() is called in %s; the wall clock may only be '
                          'read by %s (everything else must go through '
                          'utcnow() so that an override applies)' % (
                              name, fn, sorted(allowed)),
                          where='%s:%s' % (mod.relpath, fn))
    rep.count('wall-clock reads in timeutils', n, floor=1)


THOROUGH = [False]
BASE = dt.datetime(2600, 1, 1, 12, 0, 0, 500000)
US = dt.timedelta(microseconds=1)


def _times(offsets):
    """Instants around BASE -/+ each offset, as naive, aware and ISO."""
    out = []
    for s in offsets:
        for eps in (-US, dt.timedelta(0), US):
            t = BASE + dt.timedelta(seconds=s) + eps
            out.append(t)
            zones = (tz(2), tz(-23, -59), UTC, tz(5, 30))
            if THOROUGH[0]:
                zones += (tz(14), tz(-12), tz(0, 1), tz(23, 59), tz(-9, -30))
            # offsets with a seconds component (historic local mean times)
            zones += (dt.timezone(dt.timedelta(hours=1, minutes=19,
                                               seconds=32)),
                      dt.timezone(-dt.timedelta(hours=4, minutes=56,
                                                seconds=2)))
            for z in zones:
                out.append(t.replace(tzinfo=UTC).astimezone(z))
    return out


def _naive_utc(t):
    if t.tzinfo is not None:
        return t.astimezone(UTC).replace(tzinfo=None)
    return t


def _predicates(ctx):
    rep, world = ctx.report, ctx.world
    secs = (0, 1, 10.5, -1, 2 ** 34, 3600)
    if THOROUGH[0]:
        secs += (0.000001, 86400, 59.999999, -0.5, 31536000, 1e-7, 2 ** 31,
                 -86400.000001)
    for fname, sign, soon in (('is_older_than', -1, False),
                              ('is_newer_than', 1, False),
                              ('is_soon', 1, True)):
        f = world.func(MOD, fname)
        rep.analysed('timeutils.' + fname)
        t, s = T('sym', 't'), T('sym', 'seconds')
        for kind in ('datetime', 'str'):
            def thunk(interp):
                return interp.call(f, [t, s])

            def extra(interp):
                interp.types[t] = kind
            outcomes, _i = extract(world, thunk, setup=_setup(extra))
            times = _times([sign * x for x in secs])
            if kind == 'str':
                # ISO 8601 offsets are whole minutes
                grid_t = tuple(x.isoformat() for x in times
                               if x.tzinfo is None or
                               x.utcoffset().seconds % 60 == 0)[:60]
            else:
                grid_t = tuple(times)

            def oracle(v):
                tv = v['t']
                if isinstance(tv, str):
                    import iso8601
                    tv = iso8601.parse_date(tv)
                tv = _naive_utc(tv)
                d = dt.timedelta(seconds=v['seconds'])
                if soon:
                    return ('return', tv <= v['now'] + d)
                if sign < 0:
                    return ('return', v['now'] - tv > d)
                return ('return', tv - v['now'] > d)
            grid_compare(rep, 'R12.2', '%s[%s]' % (fname, kind),
                         '%s argument around the exact boundary' % kind,
                         outcomes, {t: grid_t, s: secs, NOW: (BASE,)},
                         oracle, hooks=[_hook])
            if kind == 'datetime':
                # datetimes in named zones on both sides of DST changes
                # (wall-clock arithmetic on them is not UTC arithmetic)
                import zoneinfo
                ny = zoneinfo.ZoneInfo('America/New_York')
                lon = zoneinfo.ZoneInfo('Europe/London')
                for now_v, walls in (
                        (dt.datetime(2021, 3, 14, 7, 0, 0),
                         [dt.datetime(2021, 3, 14, h, m, tzinfo=ny)
                          for h, m in ((1, 30), (1, 59), (3, 0), (3, 30),
                                       (4, 0))]),
                        (dt.datetime(2021, 11, 7, 6, 0, 0),
                         [dt.datetime(2021, 11, 7, h, m, tzinfo=ny,
                                      fold=fd)
                          for h, m in ((0, 30), (1, 0), (1, 30), (2, 0))
                          for fd in (0, 1)]),
                        (dt.datetime(2021, 3, 28, 1, 0, 0),
                         [dt.datetime(2021, 3, 28, h, m, tzinfo=lon)
                          for h, m in ((0, 30), (2, 0), (2, 30))])):
                    grid_compare(rep, 'R12.2', '%s[%s]' % (fname, kind),
                                 'named-zone datetimes across a DST change',
                                 outcomes,
                                 {t: tuple(walls), NOW: (now_v,),
                                  s: (0, 1800, 3600, 5400, 7200, -1800,
                                      -3600)},
                                 oracle, hooks=[_hook])
            if kind == 'datetime' and not soon:
                # clock overridden close to the ends of the representable
                # range: the comparison must still be exact
                hi = dt.datetime.max - dt.timedelta(seconds=5)
                lo = dt.datetime.min + dt.timedelta(seconds=5)
                for now_v, ts, ss in (
                        (hi, (hi - dt.timedelta(seconds=20),
                              hi - dt.timedelta(seconds=3), hi),
                         (0, 10, 3600)),
                        (lo, (lo + dt.timedelta(seconds=20),
                              lo + dt.timedelta(seconds=3), lo),
                         (0, 10, -10, -3600))):
                    grid_compare(rep, 'R12.2', '%s[%s]' % (fname, kind),
                                 'clock within seconds of datetime.%s' % (
                                     'max' if now_v is hi else 'min'),
                                 outcomes, {t: ts, s: ss, NOW: (now_v,)},
                                 oracle, hooks=[_hook])
            for o in outcomes:
                if o.kind == 'return':
                    rep.check('R12.1', '%s:uses-utcnow' % fname,
                              len(o.calls('utcnow')) >= 1,
                              '"now" is obtained from utcnow()')


def _normalize(ctx):
    rep, world = ctx.report, ctx.world
    f = world.func(MOD, 'normalize_time')
    rep.analysed('timeutils.normalize_time', 'timeutils.parse_isotime')
    t = T('sym', 'timestamp')

    def thunk(interp):
        return interp.call(f, [t])

    def extra(interp):
        interp.types[t] = 'datetime'
    outcomes, _i = extract(world, thunk, setup=_setup(extra))
    grid = tuple(_times([0, 86400 * 200]))

    def oracle(v):
        return ('return', _naive_utc(v['timestamp']))

    def same_dt(g, w):
        return isinstance(g, dt.datetime) and g == w and \
            g.tzinfo is None and w.tzinfo is None
    grid_compare(rep, 'R12.5', 'normalize_time', 'naive and aware '
                 'datetimes', outcomes, {t: grid}, oracle, hooks=[_hook],
                 value_eq=same_dt)
    for o in outcomes:
        if o.kind == 'return' and o.value == t:
            naive = [b for term, b in o.assumptions]
            rep.check('R12.5', 'normalize_time:naive-identity', True,
                      'a naive datetime is returned as the same object')
    # the same after an earlier call: what was learnt about one datetime
    # (its zone's offset at that instant) says nothing about the next one -
    # a named zone has another offset in the other half of the year
    rep.rule('R12.7', 'normalize_time keeps no state: after normalising '
             'another datetime (same zone object, other offset) the answer '
             'is still the naive UTC instant')
    t0 = T('sym', 'earlier_timestamp')

    def thunk_h(interp):
        try:
            interp.call(f, [t0])
        except AbsRaise:
            pass
        return interp.call(f, [t])

    def extra_h(interp):
        interp.types[t] = 'datetime'
        interp.types[t0] = 'datetime'
    import zoneinfo
    zone = zoneinfo.ZoneInfo('Europe/Berlin')
    winter = dt.datetime(2030, 1, 15, 12, 0, 0, 250000, tzinfo=zone)
    summer = dt.datetime(2030, 7, 15, 12, 0, 0, tzinfo=zone)
    fixed = dt.datetime(2030, 7, 15, 12, 0, tzinfo=tz(2))
    naive = dt.datetime(2030, 7, 15, 12, 0)
    try:
        outcomes, _i = extract(world, thunk_h, setup=_setup(extra_h))
        grid_compare(rep, 'R12.7', 'normalize_time[after an earlier call]',
                     'earlier datetime x datetime (named zone in both '
                     'halves of the year, fixed offset, naive)', outcomes,
                     {t0: (winter, summer, fixed, naive),
                      t: (winter, summer, fixed, naive)}, oracle,
                     hooks=[_hook], value_eq=same_dt)
    except AnalysisError as e:
        rep.undecided('R12.7', 'normalize_time[after an earlier call]',
                      str(e))
    g = world.func(MOD, 'parse_isotime')
    s = T('sym', 'timestr')
    for kind in ('str', 'other'):
        def thunk2(interp):
            return interp.call(g, [s])

        def extra2(interp):
            interp.types[s] = kind
        outcomes, _i = extract(world, thunk2, setup=_setup(extra2))
        if kind == 'str':
            grid2 = tuple(x.isoformat() for x in _times([0])) + (
                'garbage', '', '2030-13-01T00:00:00', '2030-01-01')
        else:
            grid2 = (None, 5)

        def oracle2(v):
            import iso8601
            try:
                return ('return', iso8601.parse_date(v['timestr']))
            except (iso8601.ParseError, TypeError):
                return ('raise', 'ValueError')

        def eq_aware(g_, w):
            return isinstance(g_, dt.datetime) and g_ == w and \
                g_.utcoffset() == w.utcoffset()
        grid_compare(rep, 'R12.5', 'parse_isotime[%s]' % kind,
                     'isoformat() strings and malformed text', outcomes,
                     {s: grid2}, oracle2, hooks=[_hook], value_eq=eq_aware)
    # parse_isotime inverts isoformat (aware datetimes)
    # (covered by the grid above: every string is x.isoformat())


OVERRIDE = T('sym', 'override')


def _override(ctx):
    rep, world = ctx.report, ctx.world
    rep.analysed('timeutils.utcnow', 'timeutils.utcnow_ts',
                 'timeutils.advance_time_delta',
                 'timeutils.advance_time_seconds',
                 'timeutils.set_time_override',
                 'timeutils.clear_time_override')
    instants = (dt.datetime(2030, 1, 1, 0, 0, 3, 250000),
                dt.datetime(1969, 12, 31, 23, 59, 58, 500000),
                dt.datetime(1970, 1, 1), dt.datetime(1901, 1, 1, 0, 0, 0, 1),
                dt.datetime(2600, 6, 1, 1, 2, 3, 999999))

    def with_override(interp):
        world.func_attrs['utcnow'] = {'override_time': OVERRIDE}
        interp.types[OVERRIDE] = 'datetime'

    def on_method(base, name, args, kwargs):
        if base == OVERRIDE and name == 'pop':
            raise AbsRaise(T('exc', 'AttributeError', 'pop'))
        return NotImplemented

    def iter_hook(interp, it):
        if it == OVERRIDE:
            raise AbsRaise(T('exc', 'TypeError', 'not iterable'))
        return None

    def extra(interp):
        interp.on_method = on_method
        interp.decide = lambda i, t: True if t == OVERRIDE else None
        interp.not_none[OVERRIDE] = True
    world.sym_iter_hook = iter_hook
    try:
        # utcnow
        f = world.func(MOD, 'utcnow')
        for wt in (False, True):
            def thunk(interp):
                with_override(interp)
                return interp.call(f, [K(wt)])
            outcomes, _i = extract(world, thunk,
                                   setup=_setup(extra, stub_now=False))
            grid_compare(rep, 'R12.3', 'utcnow[with_timezone=%s]' % wt,
                         'clock overridden to a single instant', outcomes,
                         {OVERRIDE: instants},
                         lambda v: ('return', v['override']),
                         hooks=[_hook])
        # utcnow_ts
        g = world.func(MOD, 'utcnow_ts')
        ms = T('sym', 'microsecond')

        def thunk2(interp):
            with_override(interp)
            return interp.call(g, [ms])
        outcomes, _i = extract(world, thunk2,
                               setup=_setup(extra, stub_now=False))
        epoch = dt.datetime(1970, 1, 1)

        def oracle(v):
            delta = v['override'] - epoch
            whole = delta.days * 86400 + delta.seconds
            if v['microsecond']:
                return ('return', whole + delta.microseconds / 1000000)
            return ('return', whole)

        def ts_eq(g_, w):
            if isinstance(w, int):
                return isinstance(g_, int) and g_ == w
            return abs(g_ - w) < 1e-6
        grid_compare(rep, 'R12.3', 'utcnow_ts', 'override instants incl. '
                     'pre-1970 with microseconds', outcomes,
                     {OVERRIDE: instants, ms: (False, True)}, oracle,
                     hooks=[_hook], value_eq=ts_eq)
        # advance_time_delta / seconds
        for fname, arg, mk in (
                ('advance_time_delta', T('sym', 'delta'),
                 lambda x: dt.timedelta(seconds=x)),
                ('advance_time_seconds', T('sym', 'seconds'), None)):
            h = world.func(MOD, fname)

            def thunk3(interp):
                with_override(interp)
                interp.call(h, [arg])
                return world.func_attrs['utcnow'].get('override_time')
            outcomes, _i = extract(world, thunk3,
                                   setup=_setup(extra, stub_now=False))
            amounts = (0, 1, -1, 0.000001, 86400.5, 1e9, -0.5, 7.25, -7.25,
                       -0.000001, 1.75, -86400.5, 0.1, -0.1)
            grid = {OVERRIDE: instants[:3],
                    arg: tuple(mk(a) for a in amounts) if mk else amounts}
            if mk:
                # beyond 2**53 microseconds a float no longer holds the delta
                grid[arg] += (dt.timedelta(days=200000, microseconds=1),
                              dt.timedelta(days=-150000, microseconds=-1),
                              dt.timedelta(days=110000, seconds=86399,
                                           microseconds=999999))

            def oracle3(v, arg=arg, mk=mk):
                a = v[show(arg)]
                d = a if mk else dt.timedelta(0, a)
                return ('return', v['override'] + d)
            grid_compare(rep, 'R12.3', fname, 'override moved by the given '
                         'amount', outcomes, grid, oracle3, hooks=[_hook])
        # set / clear
        s_ = world.func(MOD, 'set_time_override')
        c_ = world.func(MOD, 'clear_time_override')

        def thunk4(interp):
            world.func_attrs['utcnow'] = {'override_time': K(None)}
            interp.call(s_, [OVERRIDE])
            a = world.func_attrs['utcnow'].get('override_time')
            interp.call(c_, [])
            b = world.func_attrs['utcnow'].get('override_time')
            return TupleV([a, b])
        outcomes, _i = extract(world, thunk4,
                               setup=_setup(extra, stub_now=False))
        ok = len(outcomes) == 1 and outcomes[0].kind == 'return' and \
            outcomes[0].value == TupleV([OVERRIDE, K(None)])
        if inexact_notes(outcomes):
            rep.undecided('R12.3', 'set/clear_time_override', 'inexact: %s'
                          % inexact_notes(outcomes))
            ok = True
        rep.check('R12.3', 'set/clear_time_override', ok,
                  'set stores the given instant, clear stores None; found '
                  '%s' % [o.brief() for o in outcomes][:2])
    finally:
        world.sym_iter_hook = None
        world.func_attrs.pop('utcnow', None)
        world.envs.pop('oslo_utils.timeutils', None)


def _marshal(ctx):
    rep, world = ctx.report, ctx.world
    m = world.func(MOD, 'marshall_now')
    u = world.func(MOD, 'unmarshall_time')
    rep.analysed('timeutils.marshall_now', 'timeutils.unmarshall_time')
    now, tyme = T('sym', 'given'), T('sym', 'tyme')

    def thunk_m(interp):
        return interp.call(m, [now])

    def extra_m(interp):
        interp.types[now] = 'datetime'
        interp.decide = lambda i, t: True if t == now else None
    out_m, _i = extract(world, thunk_m, setup=_setup(extra_m))

    def thunk_u(interp):
        return interp.call(u, [tyme])

    def extra_u(interp):
        interp.types[tyme] = 'dict'
    out_u, _i = extract(world, thunk_u, setup=_setup(extra_u))
    _unmarshal_twice(ctx, u)
    for outs, what in ((out_m, 'marshall_now'), (out_u, 'unmarshall_time')):
        notes = inexact_notes(outs)
        if notes:
            rep.undecided('R12.4', what, 'inexact: %s' % notes)
            return
    import iso8601
    import os
    import time
    bad = None
    n = 0
    samples = []
    # the local time zone of the process is part of the environment: the
    # extracted terms are evaluated under two settings of it
    saved_tz = os.environ.get('TZ')
    try:
        for tzname in ('UTC', 'America/New_York'):
            os.environ['TZ'] = tzname
            time.tzset()
            bad, n = _marshal_grid(rep, out_m, out_u, now, tyme, iso8601,
                                   samples, bad, n, tzname)
            if bad == 'undecided':
                return
    finally:
        if saved_tz is None:
            os.environ.pop('TZ', None)
        else:
            os.environ['TZ'] = saved_tz
        time.tzset()
    for s_ in samples:
        rep.case(s_, ('marshal', str(s_)))
    rep.evaluations += n
    rep.check('R12.4', 'unmarshall_time(marshall_now(x))', bad is None,
              'round trip over %d (datetime, second, microsecond, local '
              'zone) cases incl. leap seconds%s' % (
                  n, '' if bad is None else ': for %s %s' % bad),
              case=str(bad[0]) if bad else None)


def _unmarshal_twice(ctx, u):
    """unmarshall_time reads its argument: the same dict unmarshalled twice
    gives the same datetime and is left as it was."""
    from ..core.table import _norm_text
    rep, world = ctx.report, ctx.world
    for tz in ('UTC', 'UTC+00:00', None):
        items = [('day', 17), ('month', 5), ('year', 2030), ('hour', 23),
                 ('minute', 59), ('second', 60), ('microsecond', 999999)]
        if tz:
            items.append(('tzname', tz))
        holder = {}

        def thunk(interp):
            d = DictV([(K(k), K(v)) for k, v in items])
            holder['d'] = d
            r1 = interp.call(u, [d])
            keys1 = [k.v for k in d.keys]
            r2 = interp.call(u, [d])
            return TupleV([r1, r2, K(tuple(keys1)),
                           K(tuple(k.v for k in d.keys))])
        outcomes, _i = extract(world, thunk, setup=_setup())
        key = 'unmarshall_time[the same dict twice, tzname=%s]' % tz
        notes = inexact_notes(outcomes)
        if notes or not outcomes:
            rep.undecided('R12.4', key, 'inexact: %s' % notes)
            continue
        for o in outcomes:
            ok = o.kind == 'return' and isinstance(o.value, TupleV) and \
                _norm_text(o.value.items[0]) == _norm_text(
                    o.value.items[1]) and \
                o.value.items[2] == K(tuple(k for k, _v in items)) and \
                o.value.items[3] == o.value.items[2]
            rep.check('R12.4', key, ok,
                      'both calls give %s and the dict keeps its keys %s; '
                      'found %s' % (
                          'the same datetime', [k for k, _v in items],
                          o.brief()[:300]))


def _marshal_grid(rep, out_m, out_u, now, tyme, iso8601, samples, bad, n,
                  tzname):
    for base in (dt.datetime(2030, 5, 17, 23, 59, 59, 999999),
                 dt.datetime(1999, 12, 31, 0, 0, 0, 1),
                 dt.datetime(2024, 2, 29, 12, 30, 15, 0)):
        for z in (None, UTC, iso8601.iso8601.UTC, dt.timezone(
                dt.timedelta(0))):
            d = base.replace(tzinfo=z)
            try:
                om = outcome_at(out_m, {now: d}, [_hook])
                mv = outcome_value(om, {now: d}, [_hook])
                if mv[0] != 'return' or not isinstance(mv[1], dict):
                    bad = bad or (d, 'marshall_now yields %r' % (mv,))
                    continue
                for sec, us in ((mv[1]['second'], mv[1]['microsecond']),
                                (60, mv[1]['microsecond']), (60, 0)):
                    payload = dict(mv[1], second=sec, microsecond=us)
                    ou = outcome_at(out_u, {tyme: payload}, [_hook])
                    uv = outcome_value(ou, {tyme: payload}, [_hook])
                    want = d.replace(second=min(sec, 59), microsecond=us)
                    n += 1
                    if len(samples) < 4:
                        samples.append({'dict': {k: str(x) for k, x in
                                                 payload.items()},
                                        'result': str(uv[1])})
                    if uv[0] != 'return' or not isinstance(
                            uv[1], dt.datetime) or uv[1] != want or (
                                (uv[1].tzinfo is None) != (z is None)) or \
                            uv[1].replace(tzinfo=None) != \
                            want.replace(tzinfo=None):
                        bad = bad or (payload, 'unmarshall_time yields %s, '
                                      'required %s (process time zone %s)' % (
                                          uv[1], want, tzname))
            except CannotEval as e:
                rep.undecided('R12.4', 'marshal round trip', str(e))
                return 'undecided', n
    return bad, n


def _fixture(ctx):
    """TimeFixture is one of the two ways the statement names for setting the
    override: what is compared is the override instant after setUp, after
    each advance_* method and after a second setUp - not which timeutils
    helper the fixture calls."""
    rep, world = ctx.report, ctx.world
    cls = world.cls('fixture', 'TimeFixture')
    rep.analysed('fixture.TimeFixture.setUp',
                 'fixture.TimeFixture.advance_time_delta',
                 'fixture.TimeFixture.advance_time_seconds')
    delta, secs = T('sym', 'delta'), T('sym', 'seconds')

    def cur():
        return world.func_attrs['utcnow'].get('override_time')

    def thunk(interp):
        world.func_attrs['utcnow'] = {'override_time': K(None)}
        interp.types[OVERRIDE] = 'datetime'
        obj = interp.call(cls, [OVERRIDE])
        interp.call(interp.get_attr(obj, 'setUp'), [])
        v1 = cur()
        interp.call(interp.get_attr(obj, 'advance_time_seconds'), [secs])
        v2 = cur()
        interp.call(interp.get_attr(obj, 'advance_time_delta'), [delta])
        v3 = cur()
        # the same fixture object used a second time
        interp.call(interp.get_attr(obj, 'setUp'), [])
        return TupleV([v1, v2, v3, cur()])

    def extra(interp):
        interp.decide = lambda i, t: True if t == OVERRIDE else None
        interp.not_none[OVERRIDE] = True
        interp.types[delta] = 'timedelta'
    def iter_hook(interp, it):
        # the override is a single instant here (never a list of instants)
        raise AbsRaise(T('exc', 'TypeError', 'not iterable'))
    world.sym_iter_hook = iter_hook
    try:
        outcomes, _i = extract(world, thunk,
                               setup=_setup(extra, stub_now=False))
    finally:
        world.sym_iter_hook = None
        world.func_attrs.pop('utcnow', None)
        world.envs.pop('oslo_utils.timeutils', None)

    def oracle(v):
        o = v['override']
        a = o + dt.timedelta(0, v['seconds'])
        return ('return', (o, a, a + v['delta'], o))
    grid_compare(rep, 'R12.3', 'TimeFixture',
                 'override instant after setUp / advance_time_seconds / '
                 'advance_time_delta / a second setUp', outcomes,
                 {OVERRIDE: (dt.datetime(2030, 1, 1, 0, 0, 3, 250000),
                             dt.datetime(1969, 12, 31, 23, 59, 58, 500000)),
                  secs: (0, 5, -1, 0.25, 86400.5),
                  delta: (dt.timedelta(0), dt.timedelta(seconds=7.25),
                          dt.timedelta(days=-1, microseconds=1))},
                 oracle, hooks=[_hook],
                 value_eq=lambda g, w: tuple(g) == tuple(w))
