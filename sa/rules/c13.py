"""C13 - StopWatch obeys its state machine under every call sequence.

Typestate extraction: for each public method and each abstract watch state the
implementation's one-step transition table (outcome, next state, fields
written, result as a term over the timestamps / clock readings) is extracted
by abstract interpretation and compared with a reference table written from
the property statement, over a grid of clock values that realises every
ordering the code can observe.  A typestate machine is determined by its
one-step table, so agreement covers every call sequence.
"""
import itertools

from ..core.absint import Interp
from ..core.loader import AnalysisError
from ..core.termeval import ev, select, CannotEval, Raised
from ..core.values import K, T, Obj, TupleV, ListV, show, ClassRef

MOD = 'timeutils'
GRID_QUICK = (0.0, 1.0, 2.5)
GRID_THOROUGH = (0.0, 1.0, 2.5, 4.0)
FGRID = (0.1, 0.3, 1e9 + 0.7, 1e-7)
APPROX = [False]
LIMIT = [None]
E1 = T('sym', 'split1')


class Ref:
    """Reference model of one StopWatch written from the property text."""
    STARTED, STOPPED = 'STARTED', 'STOPPED'

    def __init__(self, state, started, stopped, splits, duration):
        self.state, self.started, self.stopped = state, started, stopped
        self.splits, self.duration = list(splits), duration

    def snapshot(self):
        return (self.state, self.started, self.stopped, tuple(self.splits))

    def elapsed_raw(self, nows):
        if self.state == self.STOPPED:
            return max(0.0, self.stopped - self.started), None
        if self.state == self.STARTED:
            return None, 'now'
        raise RuntimeError

    def call(self, method, args, nows):
        """-> (kind, value-checker, expected snapshot checker).  *nows* is the
        list of clock readings the implementation took during the call."""
        st = self.state
        if method in ('start', '__enter__'):
            if st == self.STARTED:
                return ('return', 'self', self.snapshot())
            return ('return', 'self', (self.STARTED, 'NOW', None, ()))
        if method == 'stop':
            if st == self.STOPPED:
                return ('return', 'self', self.snapshot())
            if st == self.STARTED:
                return ('return', 'self', (self.STOPPED, self.started, 'NOW',
                                           tuple(self.splits)))
            return ('raise', 'RuntimeError', self.snapshot())
        if method == '__exit__':
            if st == self.STARTED:
                return ('return', 'falsy', (self.STOPPED, self.started,
                                            'NOW', tuple(self.splits)))
            return ('return', 'falsy', self.snapshot())
        if method == 'resume':
            if st == self.STOPPED:
                return ('return', 'self', (self.STARTED, self.started,
                                           self.stopped,
                                           tuple(self.splits)))
            return ('raise', 'RuntimeError', self.snapshot())
        if method == 'restart':
            return ('return', 'self', (self.STARTED, 'NOW', None, ()))
        if method == 'has_started':
            return ('return', st == self.STARTED, self.snapshot())
        if method == 'has_stopped':
            return ('return', st == self.STOPPED, self.snapshot())
        if method == 'splits':
            return ('return', ('splits', tuple(self.splits)),
                    self.snapshot())
        if method in ('elapsed', 'leftover', 'expired', 'split'):
            if method in ('leftover', 'split') and st != self.STARTED:
                return ('raise', 'RuntimeError', self.snapshot())
            if st not in (self.STARTED, self.STOPPED):
                return ('raise', 'RuntimeError', self.snapshot())
            if method == 'leftover' and self.duration is None:
                if args.get('return_none'):
                    return ('return', None, self.snapshot())
                return ('raise', 'RuntimeError', self.snapshot())
            if method == 'expired' and self.duration is None:
                return ('return', False, self.snapshot())
            if st == self.STOPPED:
                e = max(0.0, self.stopped - self.started)
            else:
                if len(nows) < 1:
                    return ('return', ('error', 'no clock reading'),
                            self.snapshot())
                e = max(0.0, nows[-1] - self.started)
            if method == 'elapsed':
                m = args.get('maximum')
                if m is not None:
                    e = min(e, m)
                return ('return', e, self.snapshot())
            if method == 'leftover':
                return ('return', max(0.0, self.duration - e),
                        self.snapshot())
            if method == 'expired':
                return ('return', e > self.duration, self.snapshot())
            if method == 'split':
                if self.splits:
                    # a length is a duration: never negative, also when
                    # the clock stepped back since the previous split
                    length = max(0.0, e - self.splits[-1][0])
                else:
                    length = e
                new = tuple(self.splits) + ((e, length),)
                return ('return', ('split', e, length),
                        (st, self.started, self.stopped, new))
        raise AnalysisError('reference model has no method %s' % method)


METHODS = {
    'start': [{}], 'stop': [{}], 'resume': [{}], 'restart': [{}],
    'split': [{}], 'has_started': [{}], 'has_stopped': [{}],
    'elapsed': [{}, {'maximum': 'M'}],
    'leftover': [{}, {'return_none': True}, {'return_none': False}],
    'expired': [{}], '__enter__': [{}], '__exit__': [{}], 'splits': [{}],
}


def run(ctx):
    rep, world = ctx.report, ctx.world
    rep.explanation = (
        'Typestate table of StopWatch extracted by abstract interpretation '
        'of every public method in every abstract state (state tag x '
        'duration set x splits present x stopped timestamp present x '
        'arguments), compared with a reference table written from the '
        'property over a grid of clock/timestamp values realising every '
        'ordering; plus raise-before-write and non-negativity.  Decides the '
        'one-step transition relation (hence all call sequences); float '
        'rounding of clock arithmetic is not decided.')
    rep.rule('R13.table', 'one-step transition table equals the reference '
             'table derived from the property statement')
    rep.rule('R13.raise-before-write', 'a path ending in raise performs no '
             'field store before it (the watch is left as it was)')
    rep.rule('R13.clock', 'time is read only through the module-level '
             'replaceable clock `now`')
    cls = world.cls(MOD, 'StopWatch')
    split_cls = world.cls(MOD, 'Split')
    started_tag, _ = cls.lookup('_STARTED')
    stopped_tag, _ = cls.lookup('_STOPPED')
    if not isinstance(started_tag, K) or not isinstance(stopped_tag, K) or \
            started_tag == stopped_tag or started_tag.v is None or \
            stopped_tag.v is None:
        rep.check('R13.table', 'StopWatch._STARTED/_STOPPED', False,
                  'state tags are not two distinct non-None constants: %r %r'
                  % (started_tag, stopped_tag))
        return
    now_v = world.get(MOD, 'now')
    clock_name = getattr(now_v, 'name', None)
    rep.check('R13.clock', 'timeutils.now', clock_name == 'time.monotonic',
              'module-level clock is %r' % (now_v,))
    tags = {None: K(None), 'STARTED': started_tag, 'STOPPED': stopped_tag}
    t_start, t_stop = T('sym', 't_start'), T('sym', 't_stop')
    dur, maxi = T('sym', 'duration'), T('sym', 'maximum')
    e0 = T('sym', 'split0')

    n_cases = 0
    for method, arglist in sorted(METHODS.items()):
        member, _o = cls.lookup(method)
        if member is None:
            raise AnalysisError('anchor vanished: StopWatch.%s' % method)
        rep.analysed('timeutils.StopWatch.' + method)
        for state in (None, 'STARTED', 'STOPPED'):
            for has_stop in ((False, True) if state == 'STARTED' else
                             (state == 'STOPPED',)):
                for has_dur in (False, True):
                    for has_split in (0, 1, 2):
                        if state is None and (has_split or has_stop):
                            continue
                        for kw in arglist:
                            n_cases += 1
                            _case(ctx, cls, split_cls, method, state, tags,
                                  has_stop, has_dur, has_split, kw,
                                  (t_start, t_stop, dur, maxi, e0))
    rep.count('abstract (method,state) cases', n_cases, floor=100)


def _case(ctx, cls, split_cls, method, state, tags, has_stop, has_dur,
          has_split, kw, syms):
    rep, world = ctx.report, ctx.world
    t_start, t_stop, dur, maxi, e0 = syms
    label = '%s state=%s stopped_at=%s duration=%s splits=%s args=%s' % (
        method, state, 'set' if has_stop else 'None',
        'set' if has_dur else 'None', has_split,
        kw or '-')
    key = 'StopWatch.%s[state=%s]' % (method, state)
    holder = {}

    def thunk(interp):
        sp = K(())
        if has_split:
            s0 = Obj(split_cls, {'_elapsed': e0, '_length': e0},
                     label='Split0')
            sp = TupleV([s0])
        if has_split == 2:
            s1 = Obj(split_cls, {'_elapsed': E1, '_length': E1},
                     label='Split1')
            sp = TupleV([s0, s1])
        obj = Obj(cls, {
            '_state': tags[state],
            '_started_at': t_start if state is not None else K(None),
            '_stopped_at': t_stop if has_stop else K(None),
            '_duration': dur if has_dur else K(None),
            '_splits': sp}, label='watch')
        holder['obj'] = obj
        interp.effects[:] = []
        m = interp.get_attr(obj, method)
        if method == 'splits':
            return m
        args = []
        if method == '__exit__':
            args = [K(None), K(None), K(None)]
        kwargs = {}
        for k, v in kw.items():
            kwargs[k] = maxi if v == 'M' else K(v)
        return interp.call(m, args, kwargs)

    def capture(interp):
        return dict(holder['obj'].fields), holder['obj']

    interp = Interp(world, inline_depth=5)
    for s in (t_start, t_stop, dur, maxi, e0, E1):
        interp.types[s] = 'float'
    outcomes = interp.explore(thunk, capture=capture)
    inexact = [o for o in outcomes if not o.exact]
    if inexact:
        rep.undecided('R13.table', key, '%s: interpretation inexact: %s' % (
            label, inexact[0].notes))
        return
    # raise-before-write
    for o in outcomes:
        if o.kind == 'raise':
            writes = [e for e in o.effects if e[0] == 'write' and
                      e[1] == 'watch']
            rep.check('R13.raise-before-write', key, not writes,
                      '%s: path raising %s stores %s first' % (
                          label, o.exc_class, [w[2] for w in writes]),
                      case=label)
    # compare with the reference over the grid
    used = [t_start] if state is not None else []
    if has_stop:
        used.append(t_stop)
    if has_dur:
        used.append(dur)
    if has_split:
        used.append(e0)
    if has_split == 2:
        used.append(E1)
    if 'maximum' in kw:
        used.append(maxi)
    n_now = max(len([e for e in o.effects if e[0] == 'call' and
                     e[1] == 'time.monotonic']) for o in outcomes)
    bad = None
    nontrivial = set()
    GRID = GRID_THOROUGH if ctx.thorough else GRID_QUICK
    for vals in itertools.product(GRID, repeat=len(used)):
        for nowvals in itertools.product(GRID, repeat=min(n_now, 2)):
            val = dict(zip(used, vals))
            try:
                msg, sig = _compare(outcomes, val, nowvals, method, state,
                                    has_stop, has_dur, has_split, kw, syms,
                                    tags)
            except CannotEval as e:
                rep.undecided('R13.table', key, '%s: %s' % (label, e))
                return
            nontrivial.add(sig)
            if msg and bad is None:
                bad = (msg, {show(k): v for k, v in val.items()}, nowvals)
    if bad is None and method in ('elapsed', 'leftover', 'expired') and \
            not has_split and state is not None:
        # non-dyadic readings: results may differ from the reference in the
        # last place, but the stated inequalities are exact
        APPROX[0] = True
        try:
            for vals in itertools.product(FGRID, repeat=len(used)):
                for nowvals in itertools.product(FGRID,
                                                 repeat=min(n_now, 1)):
                    val = dict(zip(used, vals))
                    try:
                        msg, sig = _compare(outcomes, val, nowvals, method,
                                            state, has_stop, has_dur,
                                            has_split, kw, syms, tags)
                    except CannotEval as e:
                        rep.undecided('R13.table', key, '%s: %s' % (label,
                                                                    e))
                        return
                    if msg and bad is None:
                        bad = (msg, {show(k): v for k, v in val.items()},
                               nowvals)
        finally:
            APPROX[0] = False
    for sig in nontrivial:
        rep.case({'case': label, 'outcome': sig}, (label, sig))
    rep.check('R13.table', key, bad is None,
              '%s: %s' % (label, 'agrees with the reference on the grid'
                          if bad is None else
                          '%s for %s with clock readings %s' % bad),
              case=label)


def _now_terms(o):
    return [T('ret', 'time.monotonic', e_n) for e_n in
            sorted(set(_collect_now(o)))]


def _collect_now(o):
    out = []

    def walk(v):
        if isinstance(v, T):
            if v.op == 'ret' and v.args[0] == 'time.monotonic':
                out.append(v.args[1])
            for a in v.args:
                walk(a)
        elif isinstance(v, (TupleV, ListV)):
            for x in v.items:
                walk(x)
        elif isinstance(v, Obj):
            for x in v.fields.values():
                walk(x)
    for t, _b in o.assumptions:
        walk(t)
    walk(o.value)
    fields, _obj = o.state
    for x in fields.values():
        walk(x)
    return out


def _compare(outcomes, val, nowvals, method, state, has_stop, has_dur,
             has_split, kw, syms, tags):
    t_start, t_stop, dur, maxi, e0 = syms
    # clock readings: the k-th reading of the path takes nowvals[k]
    full = dict(val)
    ids = sorted(set(i for o in outcomes for i in _collect_now(o)))
    # readings are numbered per path in call order
    for o in outcomes:
        for k, i in enumerate(sorted(set(_collect_now(o)))):
            pass
    o = None
    chosen = None
    for cand in outcomes:
        v2 = dict(full)
        own = sorted(set(_collect_now(cand)))
        calls = [e for e in cand.effects if e[0] == 'call' and
                 e[1] == 'time.monotonic']
        readings = []
        for k, i in enumerate(own):
            x = nowvals[min(k, len(nowvals) - 1)] if nowvals else 0.0
            v2[T('ret', 'time.monotonic', i)] = x
        try:
            from ..core.termeval import path_matches
            if path_matches(cand, v2):
                if o is not None:
                    raise CannotEval('two paths match %s' % (val,))
                o, chosen = cand, v2
        except Raised:
            continue
    if o is None:
        raise CannotEval('no path matches %s' % (val,))
    own = sorted(set(_collect_now(o)))
    n_calls = len([e for e in o.effects if e[0] == 'call' and
                   e[1] == 'time.monotonic'])
    nows = [chosen[T('ret', 'time.monotonic', i)] for i in own]
    if n_calls and not nows:
        nows = [nowvals[0]] * n_calls if nowvals else []
    ref = Ref(state, val.get(t_start), val.get(t_stop),
              [(val[e0], val[e0])] + ([(val[E1], val[E1])]
                                      if has_split == 2 else [])
              if has_split else [],
              val.get(dur) if has_dur else None)
    args = {k: (val[maxi] if v == 'M' else v) for k, v in kw.items()}
    LIMIT[0] = args.get('maximum') if method == 'elapsed' else None
    kind, want, snap = ref.call(method, args, nows)
    sig = '%s' % (kind if kind == 'raise' else 'return')
    fields, obj = o.state
    # outcome kind
    if o.kind != kind:
        return ('path %s but the property requires %s %s' % (
            o.brief(), kind, want), sig)
    if kind == 'raise':
        if o.exc_class != want:
            return ('raises %s, required %s' % (o.exc_class, want), sig)
    else:
        msg = _cmp_value(o.value, want, chosen, obj, nows)
        if msg:
            return (msg, sig)
        sig += ':' + (want if isinstance(want, str) else
                      type(want).__name__)
    # next state
    got_state = fields.get('_state')
    want_state = tags[snap[0]]
    if got_state != want_state:
        return ('next state %s, required %s' % (show(got_state), snap[0]),
                sig)
    sig += '->%s' % snap[0]
    for name, wantv in (('_started_at', snap[1]), ('_stopped_at', snap[2])):
        gv = fields.get(name)
        try:
            g = ev(gv, chosen)
        except CannotEval:
            return ('%s is %s' % (name, show(gv)), sig)
        if wantv == 'NOW':
            if not (isinstance(gv, T) and gv.op == 'ret' and
                    gv.args[0] == 'time.monotonic'):
                return ('%s = %s is not a reading of the clock taken in '
                        'this call' % (name, show(gv)), sig)
        elif g != wantv:
            return ('%s = %r, required %r' % (name, g, wantv), sig)
    # splits
    sp = fields.get('_splits')
    items = sp.items if isinstance(sp, (TupleV, ListV)) else (
        [K(x) for x in sp.v] if isinstance(sp, K) and
        isinstance(sp.v, tuple) else None)
    if items is None:
        return ('_splits is %s' % show(sp), sig)
    want_sp = snap[3]
    if len(items) != len(want_sp):
        return ('%d splits recorded, required %d' % (len(items),
                                                     len(want_sp)), sig)
    for it, (we, wl) in zip(items, want_sp):
        if not isinstance(it, Obj):
            return ('split entry %s' % show(it), sig)
        ge = ev(it.fields.get('_elapsed'), chosen)
        gl = ev(it.fields.get('_length'), chosen)
        if ge != we:
            return ('split elapsed %r, required %r' % (ge, we), sig)
        if gl != wl:
            return ('split length %r, required %r' % (gl, wl), sig)
    return (None, sig)


def _cmp_value(v, want, val, obj, nows):
    if want == 'self':
        if v is not obj:
            return 'returns %s, required the watch itself' % show(v)
        return None
    if want == 'falsy':
        if not (isinstance(v, K) and not v.v):
            return 'returns %s, required a falsy constant' % show(v)
        return None
    if isinstance(want, tuple) and want[0] == 'error':
        return want[1]
    if isinstance(want, tuple) and want[0] == 'split':
        if not isinstance(v, Obj):
            return 'returns %s, required a Split' % show(v)
        ge = ev(v.fields.get('_elapsed'), val)
        gl = ev(v.fields.get('_length'), val)
        if ge != want[1] or gl != want[2]:
            return 'returns Split(%r, %r), required Split(%r, %r)' % (
                ge, gl, want[1], want[2])
        return None
    if isinstance(want, tuple) and want[0] == 'splits':
        items = v.items if isinstance(v, (TupleV, ListV)) else (
            list(v.v) if isinstance(v, K) and isinstance(v.v, tuple)
            else None)
        if items is None or len(items) != len(want[1]):
            return 'splits accessor returns %s' % show(v)
        return None
    try:
        g = ev(v, val)
    except CannotEval as e:
        return 'result %s cannot be evaluated (%s)' % (show(v), e)
    if isinstance(want, bool) or want is None:
        if g is not want and not (isinstance(want, bool) and g == want and
                                  isinstance(g, bool)):
            return 'returns %r, required %r' % (g, want)
        return None
    if APPROX[0] and isinstance(g, float) and isinstance(want, float):
        import math
        if g < 0:
            return 'returns %r, which is negative' % (g,)
        if LIMIT[0] is not None and g > max(0.0, LIMIT[0]):
            return 'returns %r, which exceeds the requested maximum %r' % (
                g, LIMIT[0])
        if not math.isclose(g, want, rel_tol=1e-9, abs_tol=1e-15):
            return 'returns %r, required %r' % (g, want)
        return None
    if g != want:
        return 'returns %r, required %r' % (g, want)
    return None
