"""C13 - StopWatch obeys its state machine under every call sequence.

Typestate extraction: for each public method and each abstract watch state the
implementation's one-step transition table (outcome, next state, fields
written, result as a term over the timestamps / clock readings) is extracted
by abstract interpretation and compared with a reference table written from
the property statement, over a grid of clock values that realises every
ordering the code can observe.  A typestate machine is determined by its
one-step table, so agreement covers every call sequence.
"""
import itertools

from ..core.absint import Interp
from ..core.loader import AnalysisError
from ..core.termeval import ev, select, CannotEval, Raised
from ..core.values import K, T, Obj, TupleV, ListV, show, ClassRef

MOD = 'timeutils'
GRID_QUICK = (0.0, 1.0, 2.5)
GRID_THOROUGH = (0.0, 1.0, 2.5, 4.0)
FGRID = (0.1, 0.3, 1e9 + 0.7, 1e-7)
APPROX = [False]
LIMIT = [None]
E1 = T('sym', 'split1')


class Ref:
    """Reference model of one StopWatch written from the property text."""
    STARTED, STOPPED = 'STARTED', 'STOPPED'

    def __init__(self, state, started, stopped, splits, duration):
        self.state, self.started, self.stopped = state, started, stopped
        self.splits, self.duration = list(splits), duration

    def snapshot(self):
        return (self.state, self.started, self.stopped, tuple(self.splits))

    def elapsed_raw(self, nows):
        if self.state == self.STOPPED:
            return max(0.0, self.stopped - self.started), None
        if self.state == self.STARTED:
            return None, 'now'
        raise RuntimeError

    def call(self, method, args, nows):
        """-> (kind, value-checker, expected snapshot checker).  *nows* is the
        list of clock readings the implementation took during the call."""
        st = self.state
        if method in ('start', '__enter__'):
            if st == self.STARTED:
                return ('return', 'self', self.snapshot())
            return ('return', 'self', (self.STARTED, 'NOW', None, ()))
        if method == 'stop':
            if st == self.STOPPED:
                return ('return', 'self', self.snapshot())
            if st == self.STARTED:
                return ('return', 'self', (self.STOPPED, self.started, 'NOW',
                                           tuple(self.splits)))
            return ('raise', 'RuntimeError', self.snapshot())
        if method == '__exit__':
            if st == self.STARTED:
                return ('return', 'falsy', (self.STOPPED, self.started,
                                            'NOW', tuple(self.splits)))
            return ('return', 'falsy', self.snapshot())
        if method == 'resume':
            if st == self.STOPPED:
                return ('return', 'self', (self.STARTED, self.started,
                                           self.stopped,
                                           tuple(self.splits)))
            return ('raise', 'RuntimeError', self.snapshot())
        if method == 'restart':
            return ('return', 'self', (self.STARTED, 'NOW', None, ()))
        if method == 'has_started':
            return ('return', st == self.STARTED, self.snapshot())
        if method == 'has_stopped':
            return ('return', st == self.STOPPED, self.snapshot())
        if method == 'splits':
            return ('return', ('splits', tuple(self.splits)),
                    self.snapshot())
        if method in ('elapsed', 'leftover', 'expired', 'split'):
            if method in ('leftover', 'split') and st != self.STARTED:
                return ('raise', 'RuntimeError', self.snapshot())
            if st not in (self.STARTED, self.STOPPED):
                return ('raise', 'RuntimeError', self.snapshot())
            if method == 'leftover' and self.duration is None:
                if args.get('return_none'):
                    return ('return', None, self.snapshot())
                return ('raise', 'RuntimeError', self.snapshot())
            if method == 'expired' and self.duration is None:
                return ('return', False, self.snapshot())
            if st == self.STOPPED:
                e = max(0.0, self.stopped - self.started)
            else:
                if len(nows) < 1:
                    return ('return', ('error', 'no clock reading'),
                            self.snapshot())
                e = max(0.0, nows[-1] - self.started)
            if method == 'elapsed':
                m = args.get('maximum')
                if m is not None:
                    e = min(e, m)
                return ('return', e, self.snapshot())
            if method == 'leftover':
                return ('return', max(0.0, self.duration - e),
                        self.snapshot())
            if method == 'expired':
                return ('return', e > self.duration, self.snapshot())
            if method == 'split':
                if self.splits:
                    # a length is a duration: never negative, also when
                    # the clock stepped back since the previous split
                    length = max(0.0, e - self.splits[-1][0])
                else:
                    length = e
                new = tuple(self.splits) + ((e, length),)
                return ('return', ('split', e, length),
                        (st, self.started, self.stopped, new))
        raise AnalysisError('reference model has no method %s' % method)


METHODS = {
    'start': [{}], 'stop': [{}], 'resume': [{}], 'restart': [{}],
    'split': [{}], 'has_started': [{}], 'has_stopped': [{}],
    'elapsed': [{}, {'maximum': 'M'}],
    'leftover': [{}, {'return_none': True}, {'return_none': False}],
    'expired': [{}], '__enter__': [{}], '__exit__': [{}], 'splits': [{}],
}


def run(ctx):
    rep, world = ctx.report, ctx.world
    rep.explanation = (
        'Typestate table of StopWatch extracted by abstract interpretation '
        'of every public method in every abstract state (state tag x '
        'duration set x splits present x stopped timestamp present x '
        'arguments), compared with a reference table written from the '
        'property over a grid of clock/timestamp values realising every '
        'ordering; plus raise-before-write and non-negativity.  Decides the '
        'one-step transition relation (hence all call sequences); float '
        'rounding of clock arithmetic is not decided.')
    rep.rule('R13.table', 'one-step transition table equals the reference '
             'table derived from the property statement')
    rep.rule('R13.raise-before-write', 'a path ending in raise performs no '
             'field store before it (the watch is left as it was)')
    rep.rule('R13.clock', 'time is read only through the module-level '
             'replaceable clock `now`')
    cls = world.cls(MOD, 'StopWatch')
    for method in METHODS:
        if cls.lookup(method)[0] is None:
            raise AnalysisError('anchor vanished: StopWatch.%s' % method)
    if not _private_layout(world, cls):
        # the watch no longer stores its state in the attributes the
        # one-step table pokes: the table is not built; the sequence form
        # (public API only) decides the same transitions
        rep.case({'one-step table': 'private layout not recognised; '
                  'decided by R13.seq'}, ('layout', 'unread'))
        now_v = world.get(MOD, 'now')
        rep.check('R13.clock', 'timeutils.now',
                  getattr(now_v, 'name', None) == 'time.monotonic',
                  'module-level clock is %r' % (now_v,))
        _sequences(ctx)
        return
    split_cls = world.cls(MOD, 'Split')
    started_tag, _ = cls.lookup('_STARTED')
    stopped_tag, _ = cls.lookup('_STOPPED')
    now_v = world.get(MOD, 'now')
    clock_name = getattr(now_v, 'name', None)
    rep.check('R13.clock', 'timeutils.now', clock_name == 'time.monotonic',
              'module-level clock is %r' % (now_v,))
    tags = {None: K(None), 'STARTED': started_tag, 'STOPPED': stopped_tag}
    t_start, t_stop = T('sym', 't_start'), T('sym', 't_stop')
    dur, maxi = T('sym', 'duration'), T('sym', 'maximum')
    e0 = T('sym', 'split0')

    n_cases = 0
    for method, arglist in sorted(METHODS.items()):
        member, _o = cls.lookup(method)
        if member is None:
            raise AnalysisError('anchor vanished: StopWatch.%s' % method)
        rep.analysed('timeutils.StopWatch.' + method)
        for state in (None, 'STARTED', 'STOPPED'):
            for has_stop in ((False, True) if state == 'STARTED' else
                             (state == 'STOPPED',)):
                for has_dur in (False, True):
                    for has_split in (0, 1, 2):
                        if state is None and (has_split or has_stop):
                            continue
                        for kw in arglist:
                            n_cases += 1
                            _case(ctx, cls, split_cls, method, state, tags,
                                  has_stop, has_dur, has_split, kw,
                                  (t_start, t_stop, dur, maxi, e0))
    rep.count('abstract (method,state) cases', n_cases, floor=100)
    _sequences(ctx)


def _private_layout(world, cls):
    """The layout the one-step table is written for: five private
    attributes set by the constructor, two state tags, Split(_elapsed,
    _length)."""
    from ..core.absint import AbsRaise, Inexact
    import os
    if os.environ.get('SA_C13_SEQUENCES_ONLY'):
        return False        # self-test of the sequence form on its own
    try:
        split_cls = world.cls(MOD, 'Split')
    except AnalysisError:
        return False
    a, _o = cls.lookup('_STARTED')
    b, _o = cls.lookup('_STOPPED')
    if not isinstance(a, K) or not isinstance(b, K) or a == b or \
            a.v is None or b.v is None:
        return False
    interp = Interp(world, inline_depth=4)
    probe = {}

    def thunk(i):
        probe['watch'] = i.call(cls, [])
        probe['split'] = i.call(split_cls, [K(1.0), K(1.0)])
        return K(None)
    try:
        outs = interp.explore(thunk)
    except (AnalysisError, AbsRaise, Inexact):
        return False
    if len(outs) != 1 or outs[0].kind != 'return' or not outs[0].exact:
        return False
    w, sp = probe.get('watch'), probe.get('split')
    return isinstance(w, Obj) and set(w.fields) == {
        '_state', '_started_at', '_stopped_at', '_splits', '_duration'} \
        and isinstance(sp, Obj) and set(sp.fields) == {'_elapsed', '_length'}


def _case(ctx, cls, split_cls, method, state, tags, has_stop, has_dur,
          has_split, kw, syms):
    rep, world = ctx.report, ctx.world
    t_start, t_stop, dur, maxi, e0 = syms
    label = '%s state=%s stopped_at=%s duration=%s splits=%s args=%s' % (
        method, state, 'set' if has_stop else 'None',
        'set' if has_dur else 'None', has_split,
        kw or '-')
    key = 'StopWatch.%s[state=%s]' % (method, state)
    holder = {}

    def thunk(interp):
        sp = K(())
        if has_split:
            s0 = Obj(split_cls, {'_elapsed': e0, '_length': e0},
                     label='Split0')
            sp = TupleV([s0])
        if has_split == 2:
            s1 = Obj(split_cls, {'_elapsed': E1, '_length': E1},
                     label='Split1')
            sp = TupleV([s0, s1])
        obj = Obj(cls, {
            '_state': tags[state],
            '_started_at': t_start if state is not None else K(None),
            '_stopped_at': t_stop if has_stop else K(None),
            '_duration': dur if has_dur else K(None),
            '_splits': sp}, label='watch')
        holder['obj'] = obj
        interp.effects[:] = []
        m = interp.get_attr(obj, method)
        if method == 'splits':
            return m
        args = []
        if method == '__exit__':
            args = [K(None), K(None), K(None)]
        kwargs = {}
        for k, v in kw.items():
            kwargs[k] = maxi if v == 'M' else K(v)
        return interp.call(m, args, kwargs)

    def capture(interp):
        return dict(holder['obj'].fields), holder['obj']

    interp = Interp(world, inline_depth=5)
    for s in (t_start, t_stop, dur, maxi, e0, E1):
        interp.types[s] = 'float'
    outcomes = interp.explore(thunk, capture=capture)
    inexact = [o for o in outcomes if not o.exact]
    if inexact:
        rep.undecided('R13.table', key, '%s: interpretation inexact: %s' % (
            label, inexact[0].notes))
        return
    # raise-before-write
    for o in outcomes:
        if o.kind == 'raise':
            writes = [e for e in o.effects if e[0] == 'write' and
                      e[1] == 'watch']
            rep.check('R13.raise-before-write', key, not writes,
                      '%s: path raising %s stores %s first' % (
                          label, o.exc_class, [w[2] for w in writes]),
                      case=label)
    # compare with the reference over the grid
    used = [t_start] if state is not None else []
    if has_stop:
        used.append(t_stop)
    if has_dur:
        used.append(dur)
    if has_split:
        used.append(e0)
    if has_split == 2:
        used.append(E1)
    if 'maximum' in kw:
        used.append(maxi)
    n_now = max(len([e for e in o.effects if e[0] == 'call' and
                     e[1] == 'time.monotonic']) for o in outcomes)
    bad = None
    nontrivial = set()
    GRID = GRID_THOROUGH if ctx.thorough else GRID_QUICK
    for vals in itertools.product(GRID, repeat=len(used)):
        for nowvals in itertools.product(GRID, repeat=min(n_now, 2)):
            val = dict(zip(used, vals))
            try:
                msg, sig = _compare(outcomes, val, nowvals, method, state,
                                    has_stop, has_dur, has_split, kw, syms,
                                    tags)
            except CannotEval as e:
                rep.undecided('R13.table', key, '%s: %s' % (label, e))
                return
            nontrivial.add(sig)
            if msg and bad is None:
                bad = (msg, {show(k): v for k, v in val.items()}, nowvals)
    if bad is None and method in ('elapsed', 'leftover', 'expired') and \
            not has_split and state is not None:
        # non-dyadic readings: results may differ from the reference in the
        # last place, but the stated inequalities are exact
        APPROX[0] = True
        try:
            for vals in itertools.product(FGRID, repeat=len(used)):
                for nowvals in itertools.product(FGRID,
                                                 repeat=min(n_now, 1)):
                    val = dict(zip(used, vals))
                    try:
                        msg, sig = _compare(outcomes, val, nowvals, method,
                                            state, has_stop, has_dur,
                                            has_split, kw, syms, tags)
                    except CannotEval as e:
                        rep.undecided('R13.table', key, '%s: %s' % (label,
                                                                    e))
                        return
                    if msg and bad is None:
                        bad = (msg, {show(k): v for k, v in val.items()},
                               nowvals)
        finally:
            APPROX[0] = False
    for sig in nontrivial:
        rep.case({'case': label, 'outcome': sig}, (label, sig))
    rep.check('R13.table', key, bad is None,
              '%s: %s' % (label, 'agrees with the reference on the grid'
                          if bad is None else
                          '%s for %s with clock readings %s' % bad),
              case=label)


def _now_terms(o):
    return [T('ret', 'time.monotonic', e_n) for e_n in
            sorted(set(_collect_now(o)))]


def _collect_now(o):
    out = []

    def walk(v):
        if isinstance(v, T):
            if v.op == 'ret' and v.args[0] == 'time.monotonic':
                out.append(v.args[1])
            for a in v.args:
                walk(a)
        elif isinstance(v, (TupleV, ListV)):
            for x in v.items:
                walk(x)
        elif isinstance(v, Obj):
            for x in v.fields.values():
                walk(x)
    for t, _b in o.assumptions:
        walk(t)
    walk(o.value)
    fields, _obj = o.state
    for x in fields.values():
        walk(x)
    return out


def _compare(outcomes, val, nowvals, method, state, has_stop, has_dur,
             has_split, kw, syms, tags):
    t_start, t_stop, dur, maxi, e0 = syms
    # clock readings: the k-th reading of the path takes nowvals[k]
    full = dict(val)
    ids = sorted(set(i for o in outcomes for i in _collect_now(o)))
    # readings are numbered per path in call order
    for o in outcomes:
        for k, i in enumerate(sorted(set(_collect_now(o)))):
            pass
    o = None
    chosen = None
    for cand in outcomes:
        v2 = dict(full)
        own = sorted(set(_collect_now(cand)))
        calls = [e for e in cand.effects if e[0] == 'call' and
                 e[1] == 'time.monotonic']
        readings = []
        for k, i in enumerate(own):
            x = nowvals[min(k, len(nowvals) - 1)] if nowvals else 0.0
            v2[T('ret', 'time.monotonic', i)] = x
        try:
            from ..core.termeval import path_matches
            if path_matches(cand, v2):
                if o is not None:
                    raise CannotEval('two paths match %s' % (val,))
                o, chosen = cand, v2
        except Raised:
            continue
    if o is None:
        raise CannotEval('no path matches %s' % (val,))
    own = sorted(set(_collect_now(o)))
    n_calls = len([e for e in o.effects if e[0] == 'call' and
                   e[1] == 'time.monotonic'])
    nows = [chosen[T('ret', 'time.monotonic', i)] for i in own]
    if n_calls and not nows:
        nows = [nowvals[0]] * n_calls if nowvals else []
    ref = Ref(state, val.get(t_start), val.get(t_stop),
              [(val[e0], val[e0])] + ([(val[E1], val[E1])]
                                      if has_split == 2 else [])
              if has_split else [],
              val.get(dur) if has_dur else None)
    args = {k: (val[maxi] if v == 'M' else v) for k, v in kw.items()}
    LIMIT[0] = args.get('maximum') if method == 'elapsed' else None
    kind, want, snap = ref.call(method, args, nows)
    sig = '%s' % (kind if kind == 'raise' else 'return')
    fields, obj = o.state
    # outcome kind
    if o.kind != kind:
        return ('path %s but the property requires %s %s' % (
            o.brief(), kind, want), sig)
    if kind == 'raise':
        if o.exc_class != want:
            return ('raises %s, required %s' % (o.exc_class, want), sig)
    else:
        msg = _cmp_value(o.value, want, chosen, obj, nows)
        if msg:
            return (msg, sig)
        sig += ':' + (want if isinstance(want, str) else
                      type(want).__name__)
    # next state
    got_state = fields.get('_state')
    want_state = tags[snap[0]]
    if got_state != want_state:
        return ('next state %s, required %s' % (show(got_state), snap[0]),
                sig)
    sig += '->%s' % snap[0]
    for name, wantv in (('_started_at', snap[1]), ('_stopped_at', snap[2])):
        gv = fields.get(name)
        try:
            g = ev(gv, chosen)
        except CannotEval:
            return ('%s is %s' % (name, show(gv)), sig)
        if wantv == 'NOW':
            if not (isinstance(gv, T) and gv.op == 'ret' and
                    gv.args[0] == 'time.monotonic'):
                return ('%s = %s is not a reading of the clock taken in '
                        'this call' % (name, show(gv)), sig)
        elif g != wantv:
            return ('%s = %r, required %r' % (name, g, wantv), sig)
    # splits
    sp = fields.get('_splits')
    items = sp.items if isinstance(sp, (TupleV, ListV)) else (
        [K(x) for x in sp.v] if isinstance(sp, K) and
        isinstance(sp.v, tuple) else None)
    if items is None:
        return ('_splits is %s' % show(sp), sig)
    want_sp = snap[3]
    if len(items) != len(want_sp):
        return ('%d splits recorded, required %d' % (len(items),
                                                     len(want_sp)), sig)
    for it, (we, wl) in zip(items, want_sp):
        if not isinstance(it, Obj):
            return ('split entry %s' % show(it), sig)
        ge = ev(it.fields.get('_elapsed'), chosen)
        gl = ev(it.fields.get('_length'), chosen)
        if ge != we:
            return ('split elapsed %r, required %r' % (ge, we), sig)
        if gl != wl:
            return ('split length %r, required %r' % (gl, wl), sig)
    return (None, sig)


def _cmp_value(v, want, val, obj, nows):
    if want == 'self':
        if v is not obj:
            return 'returns %s, required the watch itself' % show(v)
        return None
    if want == 'falsy':
        if not (isinstance(v, K) and not v.v):
            return 'returns %s, required a falsy constant' % show(v)
        return None
    if isinstance(want, tuple) and want[0] == 'error':
        return want[1]
    if isinstance(want, tuple) and want[0] == 'split':
        if not isinstance(v, Obj):
            return 'returns %s, required a Split' % show(v)
        ge = ev(v.fields.get('_elapsed'), val)
        gl = ev(v.fields.get('_length'), val)
        if ge != want[1] or gl != want[2]:
            return 'returns Split(%r, %r), required Split(%r, %r)' % (
                ge, gl, want[1], want[2])
        return None
    if isinstance(want, tuple) and want[0] == 'splits':
        items = v.items if isinstance(v, (TupleV, ListV)) else (
            list(v.v) if isinstance(v, K) and isinstance(v.v, tuple)
            else None)
        if items is None or len(items) != len(want[1]):
            return 'splits accessor returns %s' % show(v)
        return None
    try:
        g = ev(v, val)
    except CannotEval as e:
        return 'result %s cannot be evaluated (%s)' % (show(v), e)
    if isinstance(want, bool) or want is None:
        if g is not want and not (isinstance(want, bool) and g == want and
                                  isinstance(g, bool)):
            return 'returns %r, required %r' % (g, want)
        return None
    if APPROX[0] and isinstance(g, float) and isinstance(want, float):
        import math
        if g < 0:
            return 'returns %r, which is negative' % (g,)
        if LIMIT[0] is not None and g > max(0.0, LIMIT[0]):
            return 'returns %r, which exceeds the requested maximum %r' % (
                g, LIMIT[0])
        if not math.isclose(g, want, rel_tol=1e-9, abs_tol=1e-15):
            return 'returns %r, required %r' % (g, want)
        return None
    if g != want:
        return 'returns %r, required %r' % (g, want)
    return None


# ---------------------------------------------------------------------------
# Sequence form of the table: states are reached through the public API and
# observed through it, so nothing depends on how a watch stores its state.

PREFIXES = (
    ('new', ()), ('started', ('start',)),
    ('started, one split', ('start', 'split')),
    ('started, two splits', ('start', 'split', 'split')),
    ('stopped', ('start', 'stop')),
    ('stopped, one split', ('start', 'split', 'stop')),
    ('stopped, two splits', ('start', 'split', 'split', 'stop')),
    ('resumed', ('start', 'stop', 'resume')),
    ('resumed, one split', ('start', 'split', 'stop', 'resume')),
    # queries in between (a watch that caches an answer shows here)
    ('resumed after queries', ('start', 'stop', 'expired', 'elapsed',
                               'has_stopped', 'resume')),
    ('stopped again after queries', ('start', 'stop', 'expired', 'elapsed',
                                     'resume', 'expired', 'stop')),
    ('restarted', ('start', 'split', 'stop', 'restart')),
    ('entered twice', ('__enter__', 'split', '__enter__')),
)
DUR, MAXI = T('sym', 'duration'), T('sym', 'maximum')


class RefWatch:
    """The watch of the property statement, driven with the clock readings
    the implementation took in each call."""

    def __init__(self, duration):
        self.duration = duration
        self.state = None
        self.started = self.stopped = None
        self.splits = []

    def _elapsed(self, reads):
        if self.state == 'STOPPED':
            return max(0.0, self.stopped - self.started)
        if self.state == 'STARTED':
            if not reads:
                raise AnalysisError('no clock reading in a call that needs '
                                    'one')
            return max(0.0, reads[-1] - self.started)
        raise RuntimeError()

    def observe(self, reads):
        out = [self.state == 'STARTED', self.state == 'STOPPED',
               tuple(self.splits)]
        if self.state is not None:
            out.append(self._elapsed(reads))
        return out

    def call(self, method, args, reads):
        st = self.state
        if method in ('start', '__enter__'):
            if st != 'STARTED':
                self._begin(reads)
            return 'self'
        if method == 'restart':
            self._begin(reads)
            return 'self'
        if method == 'stop':
            if st == 'STOPPED':
                return 'self'
            if st != 'STARTED':
                raise RuntimeError()
            self.stopped, self.state = self._now(reads), 'STOPPED'
            return 'self'
        if method == '__exit__':
            if st == 'STARTED':
                self.stopped, self.state = self._now(reads), 'STOPPED'
            return 'falsy'
        if method == 'resume':
            if st != 'STOPPED':
                raise RuntimeError()
            self.state = 'STARTED'
            return 'self'
        if method == 'has_started':
            return st == 'STARTED'
        if method == 'has_stopped':
            return st == 'STOPPED'
        if method == 'splits':
            return ('splits', tuple(self.splits))
        if method in ('leftover', 'split') and st != 'STARTED':
            raise RuntimeError()
        if st is None:
            raise RuntimeError()
        if method == 'leftover' and self.duration is None:
            if args.get('return_none'):
                return None
            raise RuntimeError()
        if method == 'expired' and self.duration is None:
            return False
        e = self._elapsed(reads)
        if method == 'elapsed':
            m = args.get('maximum')
            return e if m is None else min(e, m)
        if method == 'leftover':
            return max(0.0, self.duration - e)
        if method == 'expired':
            return e > self.duration
        if method == 'split':
            length = max(0.0, e - self.splits[-1][0]) if self.splits else e
            self.splits.append((e, length))
            return ('split', e, length)
        raise AnalysisError('reference watch has no method %s' % method)

    def _now(self, reads):
        if not reads:
            raise AnalysisError('no clock reading in a call that needs one')
        return reads[-1]

    def _begin(self, reads):
        self.started, self.stopped = self._now(reads), None
        self.state, self.splits = 'STARTED', []


def _sequences(ctx):
    """R13.seq: prefix (reaching a state through the public API) x method x
    arguments x duration, observed through the public API afterwards."""
    from ..core.absint import AbsRaise
    from ..core.table import extract, inexact_notes, outcome_at, \
        outcome_value
    rep, world = ctx.report, ctx.world
    rep.rule('R13.seq', 'after any prefix of public calls, every public '
             'method answers and leaves the watch (as seen through '
             'has_started / has_stopped / splits / elapsed) as the watch of '
             'the property statement does; the watch is unchanged after a '
             'call that raises')
    cls = world.cls(MOD, 'StopWatch')
    grid = GRID_THOROUGH if ctx.thorough else GRID_QUICK
    n_cases = 0
    for pname, prefix in PREFIXES:
        for method, arglist in sorted(METHODS.items()):
            for kw in arglist:
                for has_dur in (False, True):
                    n_cases += 1
                    _sequence_case(ctx, cls, pname, prefix, method, kw,
                                   has_dur, grid, extract, inexact_notes,
                                   outcome_at, outcome_value, AbsRaise)
    rep.count('call-sequence cases', n_cases, floor=200)


def _sequence_case(ctx, cls, pname, prefix, method, kw, has_dur, grid,
                   extract, inexact_notes, outcome_at, outcome_value,
                   AbsRaise):
    rep, world = ctx.report, ctx.world
    label = 'after [%s] %s(%s)%s' % (
        pname, method, ', '.join('%s=%s' % kv for kv in sorted(kw.items())),
        ' on a watch with a duration' if has_dur else '')
    key = 'StopWatch.%s[after %s]' % (method, pname.split(',')[0])
    holder = {}

    def thunk(interp):
        st = {'clock': 0, 'step': -1, 'reads': {}}
        holder['st'] = st

        def on_call(i, name, fv, args, kwargs):
            if name == 'time.monotonic':
                t = T('sym', 'clock%d' % st['clock'])
                i.types[t] = 'float'
                st['reads'].setdefault(st['step'], []).append(t)
                st['clock'] += 1
                return t
            return NotImplemented
        interp.on_call = on_call
        interp.types[DUR] = interp.types[MAXI] = 'float'
        watch = interp.call(cls, [DUR] if has_dur else [])
        for i, m in enumerate(prefix):
            st['step'] = i
            try:
                interp.call(interp.get_attr(watch, m), [])
            except AbsRaise:
                pass
        st['step'] = 'call'
        args = [K(None)] * 3 if method == '__exit__' else []
        kwargs = {k: (MAXI if v == 'M' else K(v)) for k, v in kw.items()}
        try:
            if method == 'splits':
                r = interp.get_attr(watch, 'splits')
            else:
                r = interp.call(interp.get_attr(watch, method), args,
                                kwargs)
            if r is watch:
                r = K('<the watch itself>')
            elif isinstance(r, Obj):
                r = TupleV([K('<split>'), interp.get_attr(r, 'elapsed'),
                            interp.get_attr(r, 'length')])
            elif isinstance(r, (TupleV, ListV)) or (
                    isinstance(r, K) and isinstance(r.v, tuple)):
                r = TupleV([K('<splits>'), K(len(interp.iterate(r)))])
            res = TupleV([K('return'), r])
        except AbsRaise as e:
            cname = interp.exc_class_of(e.exc)
            res = TupleV([K('raise'), K(getattr(cname, 'name', None) or
                                        show(cname))])
        # what the public API shows afterwards
        st['step'] = 'observe'
        obs = [interp.call(interp.get_attr(watch, 'has_started'), []),
               interp.call(interp.get_attr(watch, 'has_stopped'), [])]
        sp = interp.get_attr(watch, 'splits')
        obs.append(TupleV([TupleV([interp.get_attr(x, 'elapsed'),
                                   interp.get_attr(x, 'length')])
                           for x in interp.iterate(sp)]))
        try:
            obs.append(TupleV([K('elapsed'), interp.call(
                interp.get_attr(watch, 'elapsed'), [])]))
        except AbsRaise as e:
            obs.append(TupleV([K('elapsed raises')]))
        reads = {k: tuple(v) for k, v in st['reads'].items()}
        holder['reads'] = reads
        return TupleV([res, TupleV(obs)])

    def capture(interp):
        return dict(holder.get('reads', {}))
    outcomes, _i = extract(world, thunk, capture=capture, depth=6,
                           max_paths=4096)
    notes = inexact_notes(outcomes)
    if notes:
        rep.undecided('R13.seq', key, '%s: interpretation inexact: %s' % (
            label, notes))
        return
    n_clock = max([sum(len(v) for v in (o.state or {}).values())
                   for o in outcomes] or [0])
    syms = [T('sym', 'clock%d' % i) for i in range(n_clock)]
    extra = []
    if has_dur:
        extra.append(DUR)
    if 'maximum' in kw:
        extra.append(MAXI)
    bad = None
    sigs = set()
    n = 0
    for cvals in itertools.product(grid, repeat=len(syms)):
        for evals in itertools.product(grid, repeat=len(extra)):
            val = dict(zip(syms, cvals))
            val.update(zip(extra, evals))
            n += 1
            try:
                o = outcome_at(outcomes, val)
                got = outcome_value(o, val)
            except CannotEval as e:
                rep.undecided('R13.seq', key, '%s: %s' % (label, e))
                return
            msg, sig = _seq_compare(o, got, val, prefix, method, kw, has_dur)
            sigs.add(sig)
            if msg and bad is None:
                bad = (msg, {show(k): v for k, v in sorted(
                    val.items(), key=lambda kv: show(kv[0]))})
    if bad is None and method in ('elapsed', 'leftover', 'expired') and \
            len(prefix) <= 2 and prefix:
        # non-dyadic readings: equality with the reference is relaxed to
        # the last place, the stated inequalities stay exact
        for cvals in itertools.product(FGRID, repeat=len(syms)):
            for evals in itertools.product(FGRID, repeat=len(extra)):
                val = dict(zip(syms, cvals))
                val.update(zip(extra, evals))
                n += 1
                try:
                    o = outcome_at(outcomes, val)
                    got = outcome_value(o, val)
                except CannotEval as e:
                    rep.undecided('R13.seq', key, '%s: %s' % (label, e))
                    return
                APPROX[0] = True
                try:
                    msg, sig = _seq_compare(o, got, val, prefix, method, kw,
                                            has_dur)
                finally:
                    APPROX[0] = False
                if msg and bad is None:
                    bad = (msg, {show(k): v for k, v in sorted(
                        val.items(), key=lambda kv: show(kv[0]))})
    rep.evaluations += n
    for s_ in sorted(sigs)[:4]:
        rep.case({'case': label, 'outcome': s_}, (label, s_))
    rep.check('R13.seq', key, bad is None,
              '%s: %s' % (label, 'agrees with the watch of the property on '
                          '%d clock / argument valuations' % n
                          if bad is None else '%s for %s' % bad),
              case=label)


def _seq_compare(o, got, val, prefix, method, kw, has_dur):
    """-> (message or None, signature)"""
    if got[0] != 'return':
        return ('the driver itself raises %s' % (got[1],), 'driver-raise')
    (kind, result), obs = got[1][0], got[1][1]
    reads = {k: [val[t] for t in v] for k, v in (o.state or {}).items()}
    ref = RefWatch(val.get(DUR) if has_dur else None)
    try:
        for i, m in enumerate(prefix):
            try:
                ref.call(m, {}, reads.get(i, []))
            except RuntimeError:
                pass
        args = {k: (val[MAXI] if v == 'M' else v) for k, v in kw.items()}
        try:
            want = ('return', ref.call(method, args, reads.get('call', [])))
        except RuntimeError:
            want = ('raise', 'RuntimeError')
        want_obs = ref.observe(reads.get('observe', []))
    except AnalysisError as e:
        return (str(e), 'no-reading')
    sig = want[0] + (':' + (want[1] if isinstance(want[1], str) else
                            type(want[1]).__name__))
    if kind != want[0]:
        return ('the call %s %s, required %s %s' % (
            'returns' if kind == 'return' else 'raises', result,
            'a return of' if want[0] == 'return' else 'raise', want[1]), sig)
    if kind == 'raise':
        if result != want[1]:
            return ('raises %s, required %s' % (result, want[1]), sig)
    else:
        w = want[1]
        if w == 'self':
            if result != '<the watch itself>':
                return ('returns %r, required the watch itself' % (result,),
                        sig)
        elif w == 'falsy':
            if result:
                return ('returns %r, required a falsy value' % (result,),
                        sig)
        elif isinstance(w, tuple) and w[0] == 'split':
            if not (isinstance(result, tuple) and result[0] == '<split>' and
                    _close(result[1], w[1]) and _close(result[2], w[2])):
                return ('returns %r, required a split (elapsed %r, length '
                        '%r)' % (result, w[1], w[2]), sig)
        elif isinstance(w, tuple) and w[0] == 'splits':
            if not (isinstance(result, tuple) and result[0] == '<splits>'
                    and result[1] == len(w[1])):
                return ('splits gives %r, required %d splits' % (
                    result, len(w[1])), sig)
        elif isinstance(w, bool) or w is None:
            if result is not w:
                return ('returns %r, required %r' % (result, w), sig)
        elif not _close(result, w):
            return ('returns %r, required %r' % (result, w), sig)
        elif method == 'elapsed' and 'maximum' in kw and \
                result > max(0.0, val[MAXI]) and val[MAXI] >= 0:
            return ('returns %r, above the requested maximum %r' % (
                result, val[MAXI]), sig)
    # the watch afterwards, through the public API
    if bool(obs[0]) is not want_obs[0] or bool(obs[1]) is not want_obs[1]:
        return ('afterwards has_started/has_stopped are %r/%r, required '
                '%r/%r' % (obs[0], obs[1], want_obs[0], want_obs[1]), sig)
    if len(obs[2]) != len(want_obs[2]) or not all(
            _close(a[0], b[0]) and _close(a[1], b[1])
            for a, b in zip(obs[2], want_obs[2])):
        return ('afterwards the splits are %r, required %r' % (
            tuple(obs[2]), want_obs[2]), sig)
    if len(want_obs) == 4:
        if not (obs[3][0] == 'elapsed' and _close(obs[3][1], want_obs[3])):
            return ('afterwards elapsed() gives %r, required %r' % (
                obs[3], want_obs[3]), sig)
    elif obs[3][0] != 'elapsed raises':
        return ('afterwards elapsed() gives %r on a watch that was never '
                'started' % (obs[3],), sig)
    return (None, sig)


def _close(a, b):
    if isinstance(a, bool) or isinstance(b, bool):
        return a is b
    if APPROX[0] and isinstance(a, float) and isinstance(b, float):
        import math
        return a >= 0 and math.isclose(a, b, rel_tol=1e-9, abs_tol=1e-15)
    try:
        return a == b
    except Exception:
        return False
