"""C14 - scalar parsers and validators classify every input exactly."""
import uuid as _uuid

from ..core.loader import AnalysisError
from ..core import rxmodel
from ..core.table import extract, grid_compare, inexact_notes
from ..core.termeval import ev, Raised, CannotEval
from ..core.values import K, T, Obj, TupleV, ListV, ExtRef, FuncRef, show

TRUE_DOC = ('1', 't', 'true', 'on', 'y', 'yes')
FALSE_DOC = ('0', 'f', 'false', 'off', 'n', 'no')
HEX = '0123456789abcdef0123456789abcdef'
UUID_GRID = (
    '12345678-1234-5678-1234-567812345678',
    '12345678123456781234567812345678',
    '12345678-1234-5678-1234-56781234567',      # 31 digits
    '12345678-1234-5678-1234-5678123456789',    # 33 digits
    '{12345678-1234-5678-1234-567812345678}',
    'urn:uuid:12345678-1234-5678-1234-567812345678',
    'URN:UUID:12345678-1234-5678-1234-567812345678',
    'ABCDEF12-1234-5678-1234-567812345678',
    '{123456781234567812345678123456}',
    '0x345678123456781234567812345678',
    '+2345678123456781234567812345678',
    ' 234567812345678123456781234567 ',
    '1234_678123456781234567812345678',
    'g2345678123456781234567812345678',
    '1234-5678-1234-5678-1234-5678-1234-5678',
    '', 'not a uuid', None, 5, 1.5, b'12345678123456781234567812345678',
)


def _decorated():
    """Every decoration uuid.UUID() strips, in every nesting order."""
    out = []
    dashed = '12345678-1234-5678-1234-567812345678'
    for body in (dashed, dashed.replace('-', ''), 'ABCDEFab' + dashed[8:],
                 dashed[:-1], dashed + '9'):
        for pre in ('', 'urn:', 'uuid:', 'urn:uuid:', 'uuid:urn:'):
            out += [pre + body, '{' + pre + body + '}',
                    pre + '{' + body + '}', pre + body + '}',
                    '{' + pre + body, '{{' + pre + body + '}}',
                    pre + body + '\n', ' ' + pre + body]
    return tuple(out)


UUID_GRID = UUID_GRID + tuple(x for x in _decorated() if x not in UUID_GRID)


def memo_check(rep, rule, world, modname, fname, why=None):
    """A memoising decorator on a function whose result depends on the
    argument *type* conflates ==/hash-equal arguments (True, 1, 1.0)."""
    f = world.func(modname, fname)
    decs = getattr(f, 'decorators', [])
    memo = [d for d in decs if 'lru_cache' in d or d.endswith('.cache')]
    if memo:
        rep.check(rule, '%s:decorators' % fname, False,
                  '%s is memoised (%s): arguments that compare equal share '
                  'one cache entry, %s' % (
                      fname, memo[0], why or 'e.g. %s(1.0) followed by '
                      '%s(True)' % (fname, fname)))
    elif decs:
        rep.undecided(rule, '%s:decorators' % fname,
                      'wrapped by unrecognised decorator(s) %s' % decs)
    else:
        rep.check(rule, '%s:decorators' % fname, True, 'not wrapped')
    return f


def run(ctx):
    rep, world = ctx.report, ctx.world
    rep.explanation = (
        'Word tables compared with the documented sets; bool_from_string, '
        'is_valid_boolstr, is_int_like, validate_integer, '
        'check_string_length, is_uuid_like and generate_uuid are extracted '
        'as decision tables (abstract interpretation with int()/uuid.UUID '
        'kept symbolic, their failures forked explicitly) and compared '
        'with oracles written from the property on grids of spellings, '
        'paddings, bounds and decorations.  int()/uuid.UUID parsing itself '
        'is the stdlib\'s and is evaluated on grid constants only.')
    rep.rule('R14.1', 'TRUE/FALSE word tables equal the documented sets and '
             'are disjoint')
    rep.rule('R14.2', 'bool_from_string: bool passes through; otherwise '
             'str() -> strip -> lower; TRUE -> True, FALSE -> False, else '
             'strict -> ValueError, else default; is_valid_boolstr agrees on '
             'unpadded input')
    rep.rule('R14.3', 'validate_integer / check_string_length / is_int_like '
             'decision tables (inclusive bounds, conversion errors)')
    rep.rule('R14.4', 'is_uuid_like accepts exactly the values that are 32 '
             'hex digits once the documented decoration is removed; '
             'generate_uuid returns str(uuid4()) or its hex')
    _tables(ctx)
    _bool(ctx)
    _ints(ctx)
    _strlen(ctx)
    _uuid_rules(ctx)
    _history(ctx)


def _history(ctx):
    """No validator / converter remembers an earlier call (module-level memo
    tables conflate 1, 1.0, True and '1', or freeze an answer given under
    other keyword arguments)."""
    from ..core.table import history_family
    rep, world = ctx.report, ctx.world
    rep.rule('R14.6', 'no state between calls: a value is judged the same '
             'whatever was judged before, by this or a sibling function')
    funcs = {n: world.func('strutils', n) for n in (
        'bool_from_string', 'is_valid_boolstr', 'validate_integer',
        'check_string_length', 'is_int_like')}
    funcs['is_uuid_like'] = world.func('uuidutils', 'is_uuid_like')
    u = '12345678-9abc-4def-8123-456789abcdef'

    def setup(interp):
        rxmodel.install(interp)
        interp.pure_calls.add('uuid.UUID')
        interp.call_raises['uuid.UUID'] = ['ValueError', 'TypeError',
                                           'AttributeError']
        interp.call_raises['int'] = ['ValueError', 'TypeError']
    b, v, i = 'bool_from_string', 'is_valid_boolstr', 'is_int_like'
    pairs = [
        ((b, ['yes'], {}), (b, ['yes'], {'strict': True})),
        ((b, ['maybe'], {'default': True}), (b, ['maybe'], {})),
        ((b, ['maybe'], {}), (b, ['maybe'], {'strict': True})),
        ((b, ['maybe'], {}), (b, ['maybe'], {'default': True})),
        ((b, [1], {}), (b, [True], {})),
        ((b, ['1'], {}), (b, [1], {})),
        ((b, [0], {'default': True}), (b, [False], {'default': True})),
        ((b, ['2'], {}), (v, ['2'], {})),
        ((v, ['on'], {}), (v, ['On '], {})),
        ((v, ['on'], {}), (b, ['on'], {})),
        ((i, [1], {}), (i, [1.0], {})),
        ((i, [1], {}), (i, [True], {})),
        ((i, ['1'], {}), (i, [1], {})),
        ((i, [1.0], {}), (i, [1], {})),
        (('validate_integer', [5, 'n', 0, 10], {}),
         ('validate_integer', [5, 'n', 6, 10], {})),
        (('validate_integer', ['5', 'n'], {}),
         ('validate_integer', [5.0, 'n'], {})),
        (('validate_integer', [5, 'n'], {}),
         ('validate_integer', [5, 'n', None, 4], {})),
        (('check_string_length', ['abc', 'n', 0, 5], {}),
         ('check_string_length', ['abc', 'n', 0, 2], {})),
        (('check_string_length', ['abc', 'n'], {}),
         ('check_string_length', ['abc', 'n', 4], {})),
        (('is_uuid_like', [u], {}), ('is_uuid_like', [u[:-1] + 'g'], {})),
        (('is_uuid_like', ['{%s}' % u], {}), ('is_uuid_like', [u], {})),
        (('is_uuid_like', [u], {}), ('is_uuid_like', [u.upper()], {})),
    ]
    n = history_family(rep, 'R14.6', 'validators[after an earlier call]',
                       world, funcs, pairs, setup=setup)
    rep.count('call histories decided', n, floor=len(pairs))


def _tables(ctx):
    rep, world = ctx.report, ctx.world
    t = world.const('strutils', 'TRUE_STRINGS')
    f = world.const('strutils', 'FALSE_STRINGS')
    rep.check('R14.1', 'TRUE_STRINGS', set(t) == set(TRUE_DOC),
              'true words %s (documented %s)' % (sorted(t),
                                                 sorted(TRUE_DOC)))
    rep.check('R14.1', 'FALSE_STRINGS', set(f) == set(FALSE_DOC),
              'false words %s (documented %s)' % (sorted(f),
                                                  sorted(FALSE_DOC)))
    rep.check('R14.1', 'TRUE/FALSE disjoint', not (set(t) & set(f)),
              'words in both tables: %s' % sorted(set(t) & set(f)))


STR_SUBJECTS = ('true', ' True ', 'YES', '0', 'off', 'maybe', '', 'tru', 't',
                'FALSE\n', '\ty', 'on', 'No', 'n', '1', 'f', 'yes ', '2',
                'truee', 'o n', 'ye\u017f', 'o\ufb00', 'fal\u017fe', 'TRUE',
                '\uff54rue', 'O\u0130', 'true\xa0', '\u3000no', 'YES\x1f',
                '\x1cf', 'on\u2028', '\x85t\x85')


def str_subjects(thorough):
    if not thorough:
        return STR_SUBJECTS
    out = set(STR_SUBJECTS)
    words = TRUE_DOC + FALSE_DOC
    for w in words:
        forms = {w, w.upper(), w.title(), w.swapcase(), w[:1].upper() + w[1:]}
        for f in forms:
            for pre, post in (('', ''), (' ', ''), ('', ' '), ('\t', '\n'),
                              ('\u00a0', ''), ('', '\u2003'), ('\r\n', ''),
                              ('\x00', ''), ('', '\x0b'), ('\ufeff', '')):
                out.add(pre + f + post)
        # near misses
        for i in range(len(w)):
            out.add(w[:i] + w[i + 1:])
            out.add(w[:i] + w[i] * 2 + w[i + 1:])
        out.update((w + 's', 'x' + w, w + '.', w + '!', '"%s"' % w,
                    w + ' ' + w, w.replace('e', '\u0435')))
    out.update(('-1', '01', '1.0', '0.0', 'None', 'null', 'nil', 'enabled',
                'disabled', '\u0661', '\u0660', 'y e s'))
    return tuple(sorted(out))


def _ref_bool(subject, strict, default):
    if isinstance(subject, bool):
        return ('return', subject)
    s = subject if isinstance(subject, str) else str(subject)
    low = s.strip().lower()
    if low in TRUE_DOC:
        return ('return', True)
    if low in FALSE_DOC:
        return ('return', False)
    if strict:
        return ('raise', 'ValueError')
    return ('return', default)


def _bool(ctx):
    rep, world = ctx.report, ctx.world
    f = memo_check(rep, 'R14.2', world, 'strutils', 'bool_from_string')
    rep.analysed('strutils.bool_from_string', 'strutils.is_valid_boolstr',
                 'strutils.int_from_bool_as_string')
    subj, strict, default = (T('sym', 'subject'), T('sym', 'strict'),
                             T('sym', 'default'))
    for kind, grid in (('bool', (True, False)),
                       ('str', str_subjects(ctx.thorough)),
                       ('int', (0, 1, 2, -1)), ('NoneType', (None,)),
                       ('float', (1.0, 0.0))):
        def thunk(interp):
            return interp.call(f, [subj, strict, default])

        def setup(interp):
            interp.types[subj] = kind
            interp.types[strict] = 'bool'
        outcomes, _i = extract(world, thunk, setup=setup)

        def oracle(v):
            return _ref_bool(v['subject'], v['strict'], v['default'])
        grid_compare(rep, 'R14.2', 'bool_from_string[%s]' % kind,
                     '%s subject x strict x default' % kind, outcomes,
                     {subj: grid, strict: (True, False),
                      default: (True, False, None)}, oracle)
    # is_valid_boolstr agrees with strict bool_from_string on unpadded input
    g = memo_check(rep, 'R14.2', world, 'strutils', 'is_valid_boolstr')
    val = T('sym', 'value')

    def thunk2(interp):
        return interp.call(g, [val])

    for kind, grid in (('str', str_subjects(ctx.thorough)),
                       ('bool', (True, False)), ('int', (0, 1, 2, -1)),
                       ('NoneType', (None,)), ('float', (1.0, 0.5))):
        def setup2(interp, kind=kind):
            interp.types[val] = kind
        outcomes, _i = extract(world, thunk2, setup=setup2)

        def oracle2(v):
            s = v['value']
            if isinstance(s, str) and s != s.strip():
                return None
            return ('return', _ref_bool(s, True, None)[0] == 'return')
        grid_compare(rep, 'R14.2', 'is_valid_boolstr[%s]' % kind,
                     'unpadded words / %s values' % kind, outcomes,
                     {val: grid}, oracle2)


def _ints(ctx):
    rep, world = ctx.report, ctx.world
    f = memo_check(rep, 'R14.3', world, 'strutils', 'validate_integer')
    rep.analysed('strutils.validate_integer', 'strutils.is_int_like')
    value, lo, hi = T('sym', 'value'), T('sym', 'min_value'), \
        T('sym', 'max_value')

    def thunk(interp):
        return interp.call(f, [value, K('n'), lo, hi])

    def setup(interp):
        interp.call_raises['int'] = ['ValueError', 'TypeError']
    outcomes, _i = extract(world, thunk, setup=setup)

    def oracle(v):
        try:
            n = int(str(v['value']))
        except ValueError:
            return ('raise', 'ValueError')
        if v['min_value'] is not None and n < v['min_value']:
            return ('raise', 'ValueError')
        if v['max_value'] is not None and n > v['max_value']:
            return ('raise', 'ValueError')
        return ('return', n)
    grid_compare(rep, 'R14.3', 'validate_integer', 'value x min x max',
                 outcomes,
                 {value: ('5', 5, '-1', -1, '0', 0, 'a', '1.5', 1.5, ' 7 ',
                          None, '6', '4', '+5', '1_0', 2 ** 63,
                          str(2 ** 64), -(2 ** 63) - 1, 10 ** 30,
                          '-9223372036854775809', '007', True),
                  lo: (None, 0, 5, -1), hi: (None, 0, 5, -1)}, oracle)
    g = memo_check(rep, 'R14.3', world, 'strutils', 'is_int_like')
    val = T('sym', 'val')

    def thunk2(interp):
        return interp.call(g, [val])

    def setup2(interp):
        rxmodel.install(interp)
        interp.call_raises['int'] = ['ValueError', 'TypeError']
    outcomes, _i = extract(world, thunk2, setup=setup2)

    def oracle2(v):
        x = v['val']
        try:
            return ('return', str(int(x)) == str(x))
        except (TypeError, ValueError):
            return ('return', False)
    grid_compare(rep, 'R14.3', 'is_int_like', 'values', outcomes,
                 {val: ('1', '01', '1.0', 1, 1.0, None, 'a', ' 1', '-5',
                        '+5', '1_000', '', '-0', 0, (1,), True, False,
                        10 ** 20, '\u0661', '5\n', '-12\n', '0\n',
                        '1\u0662', '5 ', '\t5', '--5', '-', '0x5', '5e0',
                        -0.0, -7, b'5')}, oracle2, hooks=[rxmodel.hook])


def _strlen(ctx):
    rep, world = ctx.report, ctx.world
    f = memo_check(rep, 'R14.3', world, 'strutils', 'check_string_length')
    rep.analysed('strutils.check_string_length')
    value, lo, hi = T('sym', 'value'), T('sym', 'min_length'), \
        T('sym', 'max_length')

    def thunk(interp):
        return interp.call(f, [value, K('name'), lo, hi])
    outcomes, _i = extract(world, thunk)

    def oracle(v):
        x = v['value']
        if not isinstance(x, str):
            return ('raise', 'TypeError')
        if len(x) < v['min_length']:
            return ('raise', 'ValueError')
        if v['max_length'] is not None and len(x) > v['max_length']:
            return ('raise', 'ValueError')
        return ('return', None)
    grid_compare(rep, 'R14.3', 'check_string_length', 'value x min x max',
                 outcomes,
                 {value: ('', 'a', 'abc', 'abcd', 'abcdef', 5, None, b'ab',
                          ['a']),
                  lo: (0, 1, 3, 4), hi: (None, 3, 5)}, oracle)


def _uuid_hook(v, val):
    if isinstance(v, T) and v.op == 'call' and v.args[0] == 'uuid.UUID':
        x = ev(v.args[1], val, [_uuid_hook])
        try:
            return _uuid.UUID(x)
        except (TypeError, ValueError, AttributeError) as e:
            raise Raised(type(e).__name__)
    return NotImplemented


def _uuid_rules(ctx):
    rep, world = ctx.report, ctx.world
    f = memo_check(rep, 'R14.4', world, 'uuidutils', 'is_uuid_like')
    rep.analysed('uuidutils.is_uuid_like', 'uuidutils._format_uuid_string',
                 'uuidutils.generate_uuid')
    val = T('sym', 'val')
    for kind in ('str', 'other'):
        def thunk(interp):
            return interp.call(f, [val])

        def setup(interp):
            interp.pure_calls.add('uuid.UUID')
            interp.call_raises['uuid.UUID'] = ['ValueError', 'TypeError',
                                               'AttributeError']
            interp.call_raises['int'] = ['ValueError', 'TypeError']
            interp.types[val] = kind
            if kind == 'other':
                # str methods applied to a non-str argument: evaluated on
                # the grid value (AttributeError for most, TypeError for
                # bytes with str operands)
                from ..core.models import PURE_STR_METHODS
                interp.pure_methods.update(PURE_STR_METHODS)
                for m in PURE_STR_METHODS:
                    interp.method_raises[m] = ['AttributeError', 'TypeError']
        outcomes, _i = extract(world, thunk, setup=setup)

        def oracle(v):
            x = v['val']
            if not isinstance(x, str):
                return ('return', False)
            body = x.replace('urn:', '').replace('uuid:', '').strip('{}') \
                .replace('-', '').lower()
            ok = len(body) == 32 and all(c in '0123456789abcdef'
                                         for c in body)
            try:
                _uuid.UUID(x)
            except ValueError:
                ok = False
            return ('return', ok)
        grid = tuple(x for x in UUID_GRID
                     if isinstance(x, str) == (kind == 'str'))
        if kind == 'other':
            # a non-string reaches uuid.UUID() first, which rejects it; the
            # string methods of the formatter are never applied
            pass
        grid_compare(rep, 'R14.4', 'is_uuid_like[%s]' % kind,
                     '%s values in every decoration' % kind, outcomes,
                     {val: grid}, oracle, hooks=[_uuid_hook])
    g = world.func('uuidutils', 'generate_uuid')
    for dashed in (True, False):
        def thunk(interp):
            return interp.call(g, [K(dashed)])
        outcomes, _i = extract(world, thunk)
        notes = inexact_notes(outcomes)
        if notes or len(outcomes) != 1:
            rep.undecided('R14.4', 'generate_uuid[dashed=%s]' % dashed,
                          'inexact: %s (%d paths)' % (notes, len(outcomes)))
            continue
        o = outcomes[0]
        v = o.value if o.kind == 'return' else None
        # the result is evaluated with every fresh uuid4() standing for one
        # fixed UUID: it must be that UUID's canonical text / its 32 digits,
        # however it is spelled in the code, and uuid4() is called once
        fixeds = (_uuid.UUID('12345678-9abc-4def-8123-456789abcdef'),
                  _uuid.UUID('00000000-0000-4000-8000-00000000000a'),
                  _uuid.UUID('0fedcba9-0765-4321-a000-0a0b0c0d0e0f'))
        fresh = [e for e in o.effects if e[0] == 'call' and
                 e[1] == 'uuid.uuid4']

        good, got, fixed, failed = True, None, None, None
        for fixed in fixeds:
            def fresh_hook(t, val, fixed=fixed):
                if isinstance(t, T) and t.op == 'ret' and \
                        t.args[0] == 'uuid.uuid4':
                    return fixed
                return NotImplemented
            try:
                got = ev(v, {}, [fresh_hook, _uuid_hook]) \
                    if v is not None else None
            except (CannotEval, Raised) as e:
                failed = e
                break
            want = str(fixed) if dashed else fixed.hex
            good = len(fresh) == 1 and type(got) is str and got == want
            if not good:
                break
        if failed is not None:
            rep.undecided('R14.4', 'generate_uuid[dashed=%s]' % dashed,
                          'cannot evaluate %s: %s' % (show(v), failed))
            continue
        rep.check('R14.4', 'generate_uuid[dashed=%s]' % dashed, bool(good),
                  'returns %s of one fresh uuid.uuid4(); found %s (%r for '
                  '%s)' % ('the canonical text' if dashed else
                           'the 32 hex digits', show(v), got, fixed))
        rep.case({'dashed': dashed, 'result': show(v)}, ('gen', dashed))
