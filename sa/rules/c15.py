"""C15 - EUI-64, host:port and URL helpers round-trip."""
import ipaddress
import re
from urllib import parse as _parse

from ..core import rxmodel
from ..core.loader import AnalysisError
from ..core.table import memo_shared, extract, grid_compare, inexact_notes
from ..core.termeval import ev, Raised, CannotEval
from ..core.values import (K, T, Obj, TupleV, ListV, DictV, ExtRef, NTupleV,
                           show)
from .c11 import _netaddr_hook, _v6

MOD = 'netutils'
LIB_RAISES = ['netaddr.AddrFormatError', 'ValueError', 'TypeError']
MACS = ('00:16:3e:33:44:55', 'fa:16:3e:33:44:55', '02:00:00:00:00:00',
        'ff:ff:ff:ff:ff:ff', '00:00:00:00:00:00', '01:23:45:67:89:ab',
        'fd:ff:ff:ff:ff:ff')
PREFIXES = ('2001:db8::/64', 'fe80::/64', '2001:db8:1:2::/64',
            'fe80::1/64', '2001:db8::/48', 'fe80::/10',
            # networks whose address is numerically tiny (an integer below
            # 2**32 is an IPv4 address to netaddr.IPAddress) or all ones
            '::/64', '::/0', '::1:0:0:0:0/64',
            'ffff:ffff:ffff:ffff::/64',
            # no length given: the address is its own /128 network
            '2001:db8:0:1:8000::', '2001:db8::1', 'fe80::')


def _hook(v, val):
    import netaddr
    hooks = [_hook, rxmodel.hook]
    if isinstance(v, ExtRef) and v.name == 'netaddr.mac_unix_expanded':
        return netaddr.mac_unix_expanded
    if isinstance(v, T) and v.op == 'call' and isinstance(v.args[0], str):
        name = v.args[0]
        fn = {'netaddr.EUI': netaddr.EUI,
              'urllib.parse.urlsplit': _parse.urlsplit,
              'urllib.parse.parse_qsl': _parse.parse_qsl}.get(name)
        if fn is not None:
            pos, kw = [], {}
            for a in v.args[1:]:
                if isinstance(a, T) and a.op == 'kw':
                    kw[a.args[0]] = ev(a.args[1], val, hooks)
                else:
                    pos.append(ev(a, val, hooks))
            try:
                return fn(*pos, **kw)
            except netaddr.AddrFormatError:
                raise Raised('netaddr.AddrFormatError')
            except ValueError:
                raise Raised('ValueError')
            except TypeError:
                raise Raised('TypeError')
    return _netaddr_hook(v, val, hooks)


HOOKS = [_hook, rxmodel.hook]


def _setup(types=None, extra=None):
    def setup(interp):
        rxmodel.install(interp)
        for n in ('netaddr.valid_ipv4', 'netaddr.valid_ipv6',
                  'netaddr.IPNetwork', 'netaddr.EUI', 'netaddr.IPAddress'):
            interp.pure_calls.add(n)
            interp.call_raises[n] = LIB_RAISES
        interp.pure_calls.update({'urllib.parse.urlsplit',
                                  'urllib.parse.parse_qsl'})
        interp.pure_methods.update({'eui64'})
        interp.call_raises['int'] = ['ValueError', 'TypeError']
        interp.types.update(types or {})
        if extra:
            extra(interp)
    return setup


MAC_NOTATIONS = re.compile(
    r'(?:[0-9a-f]{2}([:-])(?:[0-9a-f]{2}\1){4}[0-9a-f]{2}|'
    r'[0-9a-f]{4}\.[0-9a-f]{4}\.[0-9a-f]{4}|[0-9a-f]{12})\Z', re.I)


def modified_eui64(mac):
    if MAC_NOTATIONS.match(mac):
        # IEEE dash / colon pairs, Cisco dotted quads, bare hexadecimal
        h = re.sub('[-:.]', '', mac)
        mac = ':'.join(h[i:i + 2] for i in range(0, 12, 2))
    elif mac != mac.strip() or re.match(r'[0-9a-f]{1,2}(:[0-9a-f]{1,2}){5}\Z',
                                        mac.strip(), re.I):
        # padded or single-digit groups: neither clearly well-formed nor
        # clearly malformed - outside the decided domain
        raise LookupError(mac)
    if len(mac.split(':')) != 6:
        raise ValueError(mac)
    b = bytes(int(x, 16) for x in mac.split(':'))
    iid = bytes([b[0] ^ 0x02]) + b[1:3] + b'\xff\xfe' + b[3:]
    return int.from_bytes(iid, 'big')


def run(ctx):
    rep, world = ctx.report, ctx.world
    rep.explanation = (
        'get_ipv6_addr_by_EUI64 / get_mac_addr_by_ipv6 are extracted as '
        'terms (netaddr objects symbolic, evaluated by netaddr on grids) and '
        'compared with RFC 4291 App. A computed independently, including '
        'locally-administered MACs and prefixes with host bits; the error '
        'closure (TypeError / ValueError only) is part of the table.  '
        'parse_host_port, escape_ipv6, urlsplit and params() are extracted '
        'over symbolic strings and compared with the documented results / '
        'the stdlib on grids (default_port 0 and None, scoped IPv6, '
        'allow_fragments off, repeated query names).')
    rep.rule('R15.1', 'forward EUI-64 = network address + modified EUI-64 '
             '(U/L bit inverted, ff:fe inserted); inverse recovers the MAC')
    rep.rule('R15.2', 'IPv4 prefix / malformed prefix or MAC -> ValueError '
             'or TypeError and nothing else')
    rep.rule('R15.3', 'parse_host_port / escape_ipv6 round trip; urlsplit '
             'equals the stdlib on every component; params() last / all '
             'values')
    _forward(ctx)
    _inverse(ctx)
    _host_port(ctx)
    _urlsplit(ctx)
    _params(ctx)
    _history(ctx)


def _history(ctx):
    from ..core.table import history_family
    rep, world = ctx.report, ctx.world
    rep.rule('R15.6', 'no state between calls: an address / endpoint / URL '
             'is answered the same whatever was asked before')
    funcs = {n: world.func(MOD, n) for n in (
        'parse_host_port', 'get_ipv6_addr_by_EUI64', 'urlsplit',
        'escape_ipv6')}
    e, h, m = 'get_ipv6_addr_by_EUI64', 'parse_host_port', \
        '00:16:3e:33:44:55'
    pairs = [
        ((h, ['[::1]:80'], {}), (h, ['[::1]'], {'default_port': 81})),
        ((h, ['h:80'], {}), (h, ['h'], {})),
        ((h, ['h'], {'default_port': 5}), (h, ['h'], {})),
        ((h, ['h'], {}), (h, ['h'], {'default_port': 5})),
        ((e, ['2001:db8::', m], {}), (e, ['2001:db8::', m[:-1] + '6'], {})),
        ((e, ['2001:db8::', m], {}), (e, ['fe80::', m], {})),
        ((e, ['1.2.3.4', m], {}), (e, ['2001:db8::', m], {})),
        ((e, ['2001:db8::/64', m], {}), (e, ['2001:db8::/48', m], {})),
        (('urlsplit', ['http://h/p?q#f'], {}),
         ('urlsplit', ['http://h/p?q#f'], {'allow_fragments': False})),
        (('urlsplit', ['//h/p', 'http'], {}), ('urlsplit', ['//h/p'], {})),
        (('escape_ipv6', ['::1'], {}), ('escape_ipv6', ['1.2.3.4'], {})),
    ]
    pairs = [p for p in pairs if p[0][0] in funcs and p[1][0] in funcs]
    n = history_family(rep, 'R15.6', 'netutils[after an earlier call]',
                       world, funcs, pairs, setup=_setup())
    rep.count('call histories decided', n, floor=len(pairs))


def _forward(ctx):
    rep, world = ctx.report, ctx.world
    f = world.func(MOD, 'get_ipv6_addr_by_EUI64')
    rep.analysed('netutils.get_ipv6_addr_by_EUI64')
    prefix, mac = T('sym', 'prefix'), T('sym', 'mac')
    for kind in ('str', 'other'):
        def thunk(interp):
            return interp.call(f, [prefix, mac])
        outcomes, _i = extract(world, thunk, setup=_setup(
            {prefix: kind, mac: 'str'}))

        def oracle(v):
            p, m = v['prefix'], v['mac']
            if not isinstance(p, str):
                return ('raise', 'TypeError')
            try:
                net = ipaddress.ip_network(p, strict=False)
            except ValueError:
                try:
                    ipaddress.ip_address(p)
                    net = None
                    is4 = ipaddress.ip_address(p).version == 4
                except ValueError:
                    return ('raise', ('ValueError', 'TypeError'))
                if is4:
                    return ('raise', 'ValueError')
                return ('raise', ('ValueError', 'TypeError'))
            if net.version == 4:
                return ('raise', 'ValueError')
            if net.prefixlen > 64 and net.prefixlen != 128 or '%' in p:
                # no room for a 64-bit interface identifier / zoned network:
                # the statement does not say what happens
                return None
            try:
                iid = modified_eui64(m)
            except LookupError:
                return None
            except (ValueError, IndexError):
                return ('raise', ('ValueError', 'TypeError'))
            return ('return', int(net.network_address) + iid)

        def eq(g, w):
            try:
                return int(g) == w
            except (TypeError, ValueError):
                return False
        if kind == 'str':
            grid = {prefix: PREFIXES + ('10.0.0.0/8', '1.2.3.4', 'garbage',
                                        '2001:db8::/129', '',
                                        '2001:db8::/ 64', '2001:db8::/64\n',
                                        '2001:db8::/+64', '2001:db8::/',
                                        '2001:db8::/\u0666\u0664',
                                        '2001:db8::/\uff16\uff14',
                                        '2001:db8::/6\u0664'),
                    mac: MACS + ('garbage', '00:16:3e:33:44',
                                 '00-16-3E-33-44-55', '0016.3e33.4455',
                                 '00163e334455', 'FA:16:3E:33:44:55')}
            if ctx.thorough:
                grid[prefix] += (
                    '::/0', '::/128', '2001:db8::ffff/127', 'ff00::/8',
                    '2001:db8::', '::ffff:1.2.3.4/96', '2001:db8::/-1',
                    '2001:db8::/ 64', '2001:db8::/64 ', '2001:db8::/+64',
                    '2001:db8::/64\n', '2001:db8::/64/64', '2001:db8::/',
                    '/64', '2001:db8::/ffff::', '0.0.0.0/0', '1.2.3.4/32',
                    '1.2.3', 'fe80::1%eth0/64', '[2001:db8::]/64',
                    '2001:db8::/064')
                grid[mac] += tuple(
                    '%02x:16:3e:00:00:01' % b for b in (
                        0x00, 0x01, 0x02, 0x03, 0x7f, 0x80, 0xfc, 0xfe)) + (
                    'FA:16:3E:33:44:55', '00-16-3e-33-44-55',
                    '0016.3e33.4455', '00163e334455', '00:16:3e:33:44:5g',
                    '00:16:3e:33:44:55:66', ' 00:16:3e:33:44:55', '',
                    '0:16:3e:33:44:55', '00:16:3e:33:44:55\n')
        else:
            grid = {prefix: (None, 5, b'fe80::/64'), mac: MACS[:1]}
        grid_compare(rep, 'R15.1' if kind == 'str' else 'R15.2',
                     'get_ipv6_addr_by_EUI64[%s prefix]' % kind,
                     'prefix x MAC', outcomes, grid, oracle, hooks=HOOKS,
                     value_eq=eq)


def _inverse(ctx):
    rep, world = ctx.report, ctx.world
    f = world.func(MOD, 'get_mac_addr_by_ipv6')
    rep.analysed('netutils.get_mac_addr_by_ipv6')
    import netaddr
    addr = T('sym', 'ipv6')

    def thunk(interp):
        return interp.call(f, [addr])
    outcomes, _i = extract(world, thunk, setup=_setup())
    cases = {}
    for p in PREFIXES[:3]:
        net = ipaddress.ip_network(p, strict=False)
        for m in MACS:
            a = netaddr.IPAddress(int(net.network_address) +
                                  modified_eui64(m))
            cases[a] = m

    def oracle(v):
        return ('return', int(netaddr.EUI(cases[v['ipv6']])))

    def eq(g, w):
        try:
            return int(g) == w
        except (TypeError, ValueError):
            return False
    grid_compare(rep, 'R15.1', 'get_mac_addr_by_ipv6',
                 'addresses built from every grid MAC', outcomes,
                 {addr: tuple(cases)}, oracle, hooks=HOOKS, value_eq=eq)


def _ref_host_port(address, default_port):
    if not address:
        return (None, None)
    if address[0] == '[':
        host, _, rest = address[1:].partition(']')
        port = rest[1:] if rest.startswith(':') else None
    elif address.count(':') == 1:
        host, port = address.split(':')
    else:
        host, port = address, None
    if port is None:
        port = default_port
    return (host, None if port is None else int(port))


def _host_port(ctx):
    rep, world = ctx.report, ctx.world
    f = world.func(MOD, 'parse_host_port')
    g = world.func(MOD, 'escape_ipv6')
    rep.analysed('netutils.parse_host_port', 'netutils.escape_ipv6')
    address, default = T('sym', 'address'), T('sym', 'default_port')

    def thunk(interp):
        return interp.call(f, [address, default])
    outcomes, _i = extract(world, thunk, setup=_setup({address: 'str'}))
    hosts = ('server01', '1.2.3.4', '::1', '2001:db8::8a2e:370:7334',
             'fe80::1%eth0', 'fe80::1%12', 'fe80::1%25', 'fe80::1%ab1',
             'host%41',
             # embedded IPv4, dotted zone ids, maximal zone id and spelling
             '::ffff:192.0.2.1', '64:ff9b::198.51.100.7', '::192.0.2.1',
             'fe80::1%eth0.100', 'fe80::1%' + 'z' * 15, 'fe80::1%' + 'z' * 16,
             'fe80:0000:0000:0000:0204:61ff:fe9d:f156%enp3s0',
             'host.example.org', '1.2.3', 'FE80::1', '::',
             '::ffff:1.2.3.256',
             # seven groups and one compressed zero group at either end
             '1:2:3:4:5:6:7::', '::2:3:4:5:6:7:8', '1:2:3:4:5:6:7::%eth0',
             '1::', '::8', '1:2:3:4:5:6:7:8', '1:2:3:4::6:7:8')
    addrs = ['', 'server01', '::1', '[::1]', '2001:db8::1']
    for h in hosts:
        esc = '[%s]' % h if _v6(h) else h
        for port in ('0', '80', '65535'):
            addrs.append('%s:%s' % (esc, port))
        addrs.append(esc)

    def oracle(v):
        return ('return', _ref_host_port(v['address'], v['default_port']))
    grid_compare(rep, 'R15.3', 'parse_host_port',
                 'escaped/unescaped hosts x ports x default port', outcomes,
                 {address: tuple(addrs), default: (None, 0, 1234)}, oracle,
                 hooks=HOOKS, value_eq=lambda a, b: tuple(a) == tuple(b) and
                 all(type(x) is type(y) for x, y in zip(a, b)))

    def thunk2(interp):
        return interp.call(g, [address])
    outcomes, _i = extract(world, thunk2, setup=_setup({address: 'str'}))

    def oracle2(v):
        a = v['address']
        return ('return', '[%s]' % a if _v6(a) else a)
    grid_compare(rep, 'R15.3', 'escape_ipv6', 'hosts of the three families',
                 outcomes, {address: hosts + ('', 'fe80::1%', 'x:y')},
                 oracle2, hooks=HOOKS)


def _result_class(world):
    """The class urlsplit() hands out (whatever its private name is)."""
    f = world.func(MOD, 'urlsplit')
    outs, _i = extract(world, lambda i: i.call(f, [K('http://h/p?a=1')]),
                       setup=_setup({}))
    for o in outs:
        c = getattr(o.value, 'cls', None)
        if o.kind == 'return' and c is not None:
            return c
    raise AnalysisError('anchor vanished: the class of urlsplit() results')


URLS = ('http://h/p#sec 2 ', 'http://h/p?q=1 ', 'http://h/p ', ' http://h/p',
        'http://h/p\t', 'http://h/p#f\x1f', '\x00http://h/p', 'http://h/p\n',
        'http://host/path#frag', 'http://h/p?q=1#f', 'http://h/p#f?x',
        'svn+ssh://u:pw@h:22/p;x?a=1&a=2#f', '//[::1]:80/x', 'p?x#y',
        'http://h', '', 'mailto:a@b', 'http://h/a%23b?c#d#e',
        'HTTP://User@[fe80::1%25eth0]:8080/p?x=1')


def _urlsplit(ctx):
    rep, world = ctx.report, ctx.world
    f = world.func(MOD, 'urlsplit')
    rep.analysed('netutils.urlsplit')
    url, scheme, af = T('sym', 'url'), T('sym', 'scheme'), \
        T('sym', 'allow_fragments')

    def thunk(interp):
        return interp.call(f, [url, scheme, af])
    outcomes, _i = extract(world, thunk, setup=_setup(
        {url: 'str', scheme: 'str', af: 'bool'}))
    notes = inexact_notes(outcomes)
    if notes:
        rep.undecided('R15.3', 'urlsplit', 'inexact: %s' % notes)
        return
    from ..core.table import outcome_at
    bad, n = None, 0
    for u in URLS:
        for sc in ('', 'https'):
            for a in (True, False):
                val = {url: u, scheme: sc, af: a}
                try:
                    o = outcome_at(outcomes, val, HOOKS)
                    if o.kind != 'return' or not isinstance(
                            o.value, (Obj, NTupleV)):
                        bad = bad or (u, sc, a, o.brief(), '')
                        continue
                    args = o.value if isinstance(o.value, NTupleV) else \
                        o.value.fields.get('args')
                    got = tuple(ev(x, val, HOOKS) for x in args.items)
                except (CannotEval, Raised) as e:
                    rep.undecided('R15.3', 'urlsplit', str(e))
                    return
                want = tuple(_parse.urlsplit(u, sc, a))
                n += 1
                if got != want:
                    bad = bad or (u, sc, a, got, want)
                if n <= 3:
                    rep.case({'url': u, 'components': list(got)},
                             ('urlsplit', u, sc, a))
    rep.evaluations += n
    rep.check('R15.3', 'urlsplit', bad is None,
              'urlsplit agrees with urllib.parse.urlsplit on %d cases%s' % (
                  n, '' if bad is None else ': urlsplit(%r, %r, %r) yields '
                  '%s, stdlib %s' % bad),
              case=None if bad is None else {'url': bad[0],
                                             'allow_fragments': bad[2]})
    cls = _result_class(world)
    for o in outcomes:
        if o.kind == 'return':
            rep.check('R15.3', 'urlsplit:result-type',
                      isinstance(o.value, (Obj, NTupleV)) and
                      o.value.cls is cls,
                      'the result is the params()-capable split result')


def _params(ctx):
    rep, world = ctx.report, ctx.world
    cls = _result_class(world)
    rep.analysed('netutils._ModifiedSplitResult.params')
    queries = ('', 'a=1', 'a=1&b=2', 'a=1&b=2&a=3', 'a=1&a=2&a=3', 'a=&b',
               'x=1&y=2&x=3&y=4&x=5', 'a=1&a=2&b=3&a=4', 'a=2&a=1',
               'b=9&a=3&b=1&a=2', 'z=1&a=2', 'a=b&a=B&a=a', 'k=&k=v&k=',
               'sort=name;desc&sort=age;asc', 'v=1;v=2&v=3', 'a=1;b=2',
               'a=%3B&b=%26&a=+', 'a=1&&b=2', '&a=1', 'a', 'a=1=2',
               # values longer than one character, three and more times
               'a=b&a=c&a=de', 'k=one&k=two&k=three&k=four',
               'a=xy&b=1&a=zw&a=uv&b=22&b=333',
               # the same value twice (equal strings may or may not be one
               # object: both occurrences count)
               'v=1&v=1', 'a=xy&a=xy', 'v=1&v=1&v=1', 'a=&a=', 'v=1&w=1&v=1')
    for q in queries:
        for collapse in (True, False):
            def thunk(interp):
                obj = interp.call(cls, [K('http'), K('host'), K('/p'), K(q),
                                        K('')])
                return interp.call(interp.get_attr(obj, 'params'),
                                   [K(collapse)])
            outcomes, _i = extract(world, thunk, setup=_setup())
            key = 'params[%r, collapse=%s]' % (q, collapse)
            notes = inexact_notes(outcomes)
            if notes or not outcomes:
                rep.undecided('R15.3', key, 'inexact: %s' % (notes,))
                continue
            # several paths: the code asked something the language leaves
            # open (whether two equal strings are one object); each answer
            # is possible, so each path is held to the statement
            o = outcomes[0]
            shared = memo_shared(outcomes)
            if shared:
                rep.check('R15.3', key + ':memoised', False,
                          'params() hands out the %s kept by the cache of '
                          '%s: a caller changing it changes what the next '
                          'call for the same query returns' % (shared[1],
                                                               shared[0]))
            want = {}
            for k, v in _parse.parse_qsl(q):
                if collapse or k not in want:
                    want[k] = v
                elif isinstance(want[k], list):
                    want[k].append(v)
                else:
                    want[k] = [want[k], v]
            for o in outcomes:
                try:
                    got = ev(o.value, {}, HOOKS) if o.kind == 'return' \
                        else None
                except CannotEval as e:
                    rep.undecided('R15.3', key, str(e))
                    break
                rep.case({'query': q, 'collapse': collapse,
                          'params': str(got)}, ('params', q, collapse))
                rep.check('R15.3', key, got == want,
                          'params() yields %r%s, required %r' % (
                              got, ' when %s' % [
                                  (show(t), b) for t, b in o.assumptions]
                              if len(outcomes) > 1 else '', want))
