"""C16 - text coding helpers: type contracts and to_slug alphabet /
idempotence."""
import re
import unicodedata

from ..core import regex as R
from ..core.loader import AnalysisError
from ..core.table import (extract, grid_compare, outcome_at, outcome_value,
                          guided_outcome)
from ..core.termeval import ev, Raised, CannotEval
from ..core.values import K, T, RegexV, show

TEXTS = ('abc', '\xe9', '€', '')
BYTESV = (b'abc', b'', b'\xc3\xa9', b'\xe9', b'a\x00b\x00', b'\xff\xfe',
          b'\x82\xa0', b'\xef\xbb\xbfni\xc3\xb1o',
          b'\x81\xf0')     # U+212B in shift_jis: not stable under NFC
ENCODINGS = ('utf-8', 'UTF-8', 'latin-1', 'utf-16-le', 'ascii', 'cp1252',
             'shift_jis')
ERRORS = ('strict', 'ignore', 'replace')
OTHERS = (5, None, 1.5, ['a'], bytearray(b'abc'), memoryview(b'abc'), True,
          ('a',), {'a': 1})
UERR = ('UnicodeDecodeError', 'UnicodeEncodeError')


def widen(thorough):
    """Thorough tier: more texts, byte strings and codec spellings."""
    global TEXTS, BYTESV, ENCODINGS
    if not thorough or len(TEXTS) > 8:
        return
    TEXTS += ('\U0001f600', 'e\u0301', 'a\u200db', '\u3042\u3044',
              '\ufeffbom', 'line\nbreak', '\x00nul', '\udc80'[:0] + 'z' * 300,
              '\u0130', '\u00df', 'A\u030a')
    BYTESV += (b'\xf0\x9f\x98\x80', b'\xed\xa0\x80', b'\xc0\xaf', b'\x80',
               b'\xff' * 3, b'a' * 300, b'\x00\xd8\x00\xdc', b'\xfe\xff\x00a',
               b'\x1b$B', b'\x81', b'\x8f\xa2\xc2')
    ENCODINGS += ('Latin-1', 'ISO-8859-1', 'utf_8', 'UTF8', 'utf-16',
                  'utf-32', 'cp437', 'euc_jp', 'big5', 'utf-7', 'ASCII',
                  'utf-8-sig', 'iso2022_jp', 'mac-roman')


def _setup_types(kind, syms):
    def setup(interp):
        interp.types[syms[0]] = kind
        for s in syms[1:]:
            interp.types[s] = 'str'
        interp.method_raises['decode'] = ['UnicodeDecodeError', 'TypeError',
                                          'LookupError']
        interp.method_raises['encode'] = ['UnicodeEncodeError', 'TypeError',
                                          'LookupError']
        if kind == 'other':
            # duck typing: whatever has the method gets it called
            interp.pure_methods.update({'decode', 'encode'})
            interp.method_raises['decode'] = ['UnicodeDecodeError',
                                              'AttributeError', 'TypeError']
            interp.method_raises['encode'] = ['UnicodeEncodeError',
                                              'AttributeError', 'TypeError']
        interp.not_none.update({s: True for s in syms[1:]})
        interp.decide = lambda i, t: True if t in syms[1:] else None
        # the process environment read by the default-encoding paths

        def on_attr(i, base, name):
            from ..core.values import ExtRef
            if isinstance(base, ExtRef) and base.name == 'sys.stdin' and \
                    name == 'encoding':
                return ENV
            return None
        interp.on_attr = on_attr
        interp.pure_calls.add('unicodedata.normalize')
        interp.types[ENV] = 'str'

        def on_call(i, name, f, args, kwargs):
            if name == 'sys.getdefaultencoding':
                return K('utf-8')       # fixed since Python 3
            return NotImplemented
        interp.on_call = on_call
    return setup


ENV = T('sym', 'sys.stdin.encoding')
ENV_GRID = ('utf-8', 'latin-1', 'ascii', 'utf-16', None, 'UTF-8', 'Latin-1')


def _env_hook(v, val):
    """The process environment the default-encoding paths consult."""
    from ..core.values import ExtRef
    if isinstance(v, ExtRef) and v.name == 'sys.stdin.encoding':
        return val.get(ENV, 'utf-8')
    if isinstance(v, T) and v.op in ('ret', 'call') and \
            v.args[0] == 'sys.getdefaultencoding':
        return 'utf-8'
    if isinstance(v, T) and v.op in ('ret', 'call') and \
            v.args[0] == 'getattr' and len(v.args) >= 3:
        return NotImplemented
    return NotImplemented


def _py_decode(b, enc, errors):
    try:
        return ('return', b.decode(enc, errors))
    except UnicodeDecodeError:
        try:
            return ('return', b.decode('utf-8', errors))
        except UnicodeDecodeError:
            return ('raise', 'UnicodeDecodeError')


def run(ctx):
    rep, world = ctx.report, ctx.world
    rep.explanation = (
        'safe_decode / safe_encode / to_utf8 are extracted as decision '
        'tables over the type tag of the argument (str, bytes, other) with '
        'the codec calls kept symbolic and their UnicodeErrors forked; the '
        'tables are compared with the stated contract on grids of texts, '
        'byte strings, encodings (any letter case, ASCII-incompatible ones '
        'included) and error policies.  to_slug is extracted as a term '
        '(normalise -> ascii -> strip-regex -> strip -> lower -> hyphenate); '
        'its output alphabet and idempotence are checked on a grid of '
        'compatibility characters, and the two regular expressions are '
        'checked by character-set algebra.  Codec tables are the stdlib\'s.')
    rep.rule('R16.1', 'type contracts of safe_decode / safe_encode / to_utf8')
    rep.rule('R16.3', 'safe_decode gives the same answer whatever was decoded '
             'before (no state is carried between calls)')
    rep.rule('R16.2', 'to_slug output is in [a-z0-9_-] without "--" and '
             'to_slug is idempotent')
    widen(ctx.thorough)
    _decode(ctx)
    _history(ctx)
    _encode(ctx)
    _to_utf8(ctx)
    _slug(ctx)


def _decode(ctx):
    rep, world = ctx.report, ctx.world
    f = world.func('encodeutils', 'safe_decode')
    rep.analysed('encodeutils.safe_decode')
    text, inc, err = T('sym', 'text'), T('sym', 'incoming'), T('sym', 'errors')
    for kind, grid in (('str', TEXTS), ('bytes', BYTESV), ('other', OTHERS)):
        def thunk(interp):
            return interp.call(f, [text, inc, err])
        outcomes, _i = extract(world, thunk,
                               setup=_setup_types(kind, (text, inc, err)))

        def oracle(v):
            t = v['text']
            if isinstance(t, str):
                return ('return', t)
            if not isinstance(t, bytes):
                return ('raise', 'TypeError')
            return _py_decode(t, v['incoming'], v['errors'])
        grid_compare(rep, 'R16.1', 'safe_decode[%s]' % kind,
                     '%s text x incoming x errors' % kind, outcomes,
                     {text: grid, inc: ENCODINGS, err: ERRORS}, oracle)
        if kind == 'other':
            continue
        # incoming left out: the encoding of stdin, else the default one

        def thunk_d(interp):
            return interp.call(f, [text, K(None), err])
        outcomes, _i = extract(world, thunk_d,
                               setup=_setup_types(kind, (text, err)))

        def oracle_d(v):
            t = v['text']
            if isinstance(t, str):
                return ('return', t)
            return _py_decode(t, v['sys.stdin.encoding'] or 'utf-8',
                              v['errors'])
        grid_compare(rep, 'R16.1', 'safe_decode[%s, default incoming]' % kind,
                     '%s text x stdin encoding x errors' % kind, outcomes,
                     {text: grid, ENV: ENV_GRID, err: ERRORS}, oracle_d)


def _history(ctx):
    """A call's result does not depend on the calls made before it."""
    from ..core.absint import AbsRaise
    rep, world = ctx.report, ctx.world
    f = world.func('encodeutils', 'safe_decode')
    t1, t2, err = T('sym', 'earlier_text'), T('sym', 'text'), \
        T('sym', 'errors')

    def thunk(interp):
        try:
            interp.call(f, [t1, K(None), err])
        except AbsRaise:
            pass
        return interp.call(f, [t2, K(None), err])

    def setup(interp):
        _setup_types('bytes', (t1, err))(interp)
        interp.types[t2] = 'bytes'
    outcomes, _i = extract(world, thunk, setup=setup, max_paths=20000)

    def oracle(v):
        return _py_decode(v['text'], v['sys.stdin.encoding'] or 'utf-8',
                          v['errors'])
    grid_compare(rep, 'R16.3', 'safe_decode[after an earlier call]',
                 'earlier bytes x bytes x stdin encoding', outcomes,
                 {t1: BYTESV[:8], t2: BYTESV[:8],
                  ENV: ENV_GRID + ('cp1252',), err: ('strict', 'replace')},
                 oracle)


def _encode(ctx):
    rep, world = ctx.report, ctx.world
    f = world.func('encodeutils', 'safe_encode')
    rep.analysed('encodeutils.safe_encode')
    text, inc, enc, err = (T('sym', 'text'), T('sym', 'incoming'),
                           T('sym', 'encoding'), T('sym', 'errors'))
    for kind, grid in (('str', TEXTS), ('bytes', BYTESV), ('other', OTHERS)):
        def thunk(interp):
            return interp.call(f, [text, inc, enc, err])
        outcomes, _i = extract(world, thunk,
                               setup=_setup_types(kind,
                                                  (text, inc, enc, err)))

        def oracle(v):
            t = v['text']
            e, i = v['encoding'].lower(), v['incoming'].lower()
            if isinstance(t, str):
                try:
                    return ('return', t.encode(e, v['errors']))
                except UnicodeEncodeError:
                    return ('raise', 'UnicodeEncodeError')
            if not isinstance(t, bytes):
                return ('raise', 'TypeError')
            if not t or e == i:
                return ('return', t)
            d = _py_decode(t, i, v['errors'])
            if d[0] == 'raise':
                return d
            try:
                return ('return', d[1].encode(e, v['errors']))
            except UnicodeEncodeError:
                return ('raise', 'UnicodeEncodeError')
        if kind != 'other':
            def thunk_d(interp):
                return interp.call(f, [text, K(None), enc, err])
            outs_d, _i = extract(world, thunk_d, setup=_setup_types(
                kind, (text, enc, err)))

            def oracle_d(v):
                v = dict(v)
                v['incoming'] = v['sys.stdin.encoding'] or 'utf-8'
                return oracle(v)
            grid_compare(rep, 'R16.1',
                         'safe_encode[%s, default incoming]' % kind,
                         '%s text x stdin encoding x encoding x errors' %
                         kind, outs_d, {text: grid, ENV: ENV_GRID,
                                        enc: ENCODINGS, err: ERRORS},
                         oracle_d)
        encs = ENCODINGS if kind != 'other' else ('utf-8',)
        grid_compare(rep, 'R16.1', 'safe_encode[%s]' % kind,
                     '%s text x incoming x encoding x errors' % kind,
                     outcomes, {text: grid, inc: encs, enc: encs,
                                err: ERRORS if kind != 'other'
                                else ('strict',)}, oracle)


def _to_utf8(ctx):
    rep, world = ctx.report, ctx.world
    f = world.func('encodeutils', 'to_utf8')
    rep.analysed('encodeutils.to_utf8')
    text = T('sym', 'text')
    for kind, grid in (('str', TEXTS), ('bytes', BYTESV), ('other', OTHERS)):
        def thunk(interp):
            return interp.call(f, [text])
        outcomes, _i = extract(world, thunk,
                               setup=_setup_types(kind, (text,)))

        def oracle(v):
            t = v['text']
            if isinstance(t, bytes):
                return ('return', t)
            if isinstance(t, str):
                return ('return', t.encode('utf-8'))
            return ('raise', 'TypeError')
        # an encode that cannot fail on this grid: drop the forked raise
        grid_compare(rep, 'R16.1', 'to_utf8[%s]' % kind, '%s text' % kind,
                     outcomes, {text: grid, ENV: ENV_GRID}, oracle,
                     hooks=[_env_hook])


SLUG_INPUTS = ('Hello World', '\xc0\xc9 caf\xe9', '™ trade', '№5',
               'a--b', ' x ', 'ＡＢＣ', 'ℝeal',
               'MHz ㎒', 'foo_bar', 'tab\tsep', '\xdf', 'İ', '',
               'A  B', '-a-', 'a - b', 'x\n\ny', '\U0001d400bold',
               'Cℂ', 'already-a-slug_1', 'UPPER', 'hello\n', 'a-b\n',
               'slug\r\n', 'x_y-z', '-', '--', '_', 'a\tb', 'Ångström',
               # letters / numbers whose compatibility decomposition
               # contains ASCII punctuation
               '\u2474', 'x\u2488y', '\U0001f102', '\u3220', '\u2160.',
               '\u00bd', '\u2100', '\u33c2', '1\u2044 2',
               # every ASCII character that is neither a word character,
               # white space nor a hyphen is dropped - the first and the
               # last of them too
               '\x7f', 'a\x7fb', '\x00a', 'a\x01b', 'a~b', 'a!b', 'a\x1fb',
               '\x7f-\x7f', 'a\x80b', 'a\x85b', 'a\xa0b')
SLUG_OK = re.compile(r'[a-z0-9_-]*\Z')


def _rx_hook(v, val):
    from ..core import rxmodel
    return rxmodel.hook(v, val)


def _slug_hook(v, val):
    if isinstance(v, T) and v.op == 'call' and \
            v.args[0] == 'unicodedata.normalize':
        form = ev(v.args[1], val, [_slug_hook, _rx_hook])
        s = ev(v.args[2], val, [_slug_hook, _rx_hook])
        return unicodedata.normalize(form, s)
    if isinstance(v, T) and v.op == 'call' and \
            v.args[0] == 're.Pattern.sub':
        rx = v.args[1]
        if isinstance(rx, T) and rx.op == 'regex':
            repl = ev(v.args[2], val, [_slug_hook, _rx_hook])
            s = ev(v.args[3], val, [_slug_hook, _rx_hook])
            return re.compile(rx.args[0], rx.args[1]).sub(repl, s)
    return NotImplemented


def _slug(ctx):
    rep, world = ctx.report, ctx.world
    f = world.func('strutils', 'to_slug')
    rep.analysed('strutils.to_slug')
    value = T('sym', 'value')

    def thunk(interp):
        return interp.call(f, [value])

    def setup(interp):
        from ..core import rxmodel
        rxmodel.install(interp)
        interp.types[value] = 'str'
        interp.pure_calls.update({'unicodedata.normalize',
                                  're.Pattern.sub'})
    outcomes, _i = extract(world, thunk, setup=setup)
    exact = [o for o in outcomes if o.exact]
    singly = len(outcomes) != len(exact) or not outcomes
    hooks = [_slug_hook, _rx_hook]

    def slug_of(s):
        if singly:
            # the symbolic table is inexact (loops over the characters of
            # the text): every input is followed through the code by itself
            return guided_outcome(outcomes.recipe, {value: s}, hooks)
        return outcome_value(outcome_at(outcomes, {value: s}, hooks),
                             {value: s}, hooks)
    bad = None
    for s in SLUG_INPUTS:
        try:
            r1 = slug_of(s)
            if r1[0] != 'return' or not isinstance(r1[1], str):
                bad = bad or (s, 'yields %r' % (r1,))
                continue
            out = r1[1]
            r2 = slug_of(out)
        except CannotEval as e:
            rep.undecided('R16.2', 'to_slug', 'cannot evaluate the '
                          'extracted term: %s' % e)
            return
        rep.case({'input': s, 'slug': out}, ('slug', s, out))
        if not SLUG_OK.match(out) or '--' in out:
            bad = bad or (s, 'yields %r, which is outside [a-z0-9_-] / has '
                          'a double hyphen' % out)
        elif r2 != ('return', out):
            bad = bad or (s, 'is not idempotent: %r -> %r' % (out, r2[1]))
    rep.check('R16.2', 'to_slug', bad is None,
              'to_slug(%r) %s' % bad if bad else
              'alphabet and idempotence hold on %d inputs' %
              len(SLUG_INPUTS), case=bad[0] if bad else None)
    # set algebra on the two regular expressions (ASCII, after the
    # ascii/ignore stage)
    strip = world.get('strutils', 'SLUGIFY_STRIP_RE')
    hyph = world.get('strutils', 'SLUGIFY_HYPHENATE_RE')
    if not isinstance(strip, RegexV) or not isinstance(hyph, RegexV):
        rep.undecided('R16.2', 'SLUGIFY_*_RE', 'not constant regexes')
        return
    ascii_u = frozenset(range(128))
    st = R.parse(strip.pattern, strip.flags)
    hy = R.parse(hyph.pattern, hyph.flags)
    try:
        if len(st) == 1 and R.is_char(st[0]):
            removed = R.charset(st[0], strip.flags) & ascii_u
        else:
            raise AnalysisError('strip regex is not a single class')
        node = hy[0]
        if len(hy) == 1 and node[0] in (R.C.MAX_REPEAT, R.C.MIN_REPEAT) \
                and node[1][0] == 1 and node[1][1] is R.C.MAXREPEAT and \
                len(node[1][2]) == 1 and R.is_char(node[1][2][0]):
            hyset = R.charset(node[1][2][0], hyph.flags) & ascii_u
        else:
            raise AnalysisError('hyphenate regex is not a single class+')
    except AnalysisError as e:
        rep.undecided('R16.2', 'SLUGIFY_*_RE', str(e))
        return
    survivors = ascii_u - removed
    word = R.category(R.C.CATEGORY_WORD, False) & ascii_u
    space = R.category(R.C.CATEGORY_SPACE, False) & ascii_u
    allowed = (word | space | {ord('-')}) & ascii_u
    rep.check('R16.2', 'SLUGIFY_STRIP_RE:survivors', survivors <= allowed,
              'ASCII characters surviving the strip stage outside '
              '\\w\\s-: %r' % ''.join(chr(c) for c in
                                      sorted(survivors - allowed)))
    rest = survivors - hyset
    rep.check('R16.2', 'SLUGIFY_HYPHENATE_RE:covers',
              (space | {ord('-')}) <= hyset and rest <= word,
              'whitespace/hyphen not collapsed by the hyphenate stage: %r' %
              ''.join(chr(c) for c in sorted((space | {ord('-')}) - hyset)))
