"""C17 - version helpers: radix agreement of the int/str conversions,
operator map <-> predicate regex, is_compatible / VersionPredicate logic."""
import operator as _o
import re

from ..core import regex as R
from ..core.absint import AbsRaise
from ..core.loader import AnalysisError
from ..core.table import extract, grid_compare, inexact_notes
from ..core.values import (K, T, Obj, TupleV, ListV, DictV, ExtRef, RegexV,
                           show)

MOD = 'versionutils'
RADIX = 1000
COMP = {'<': 'operator.lt', '<=': 'operator.le', '==': 'operator.eq',
        '>': 'operator.gt', '>=': 'operator.ge', '!=': 'operator.ne'}
PYOP = {'<': _o.lt, '<=': _o.le, '==': _o.eq, '>': _o.gt, '>=': _o.ge,
        '!=': _o.ne}
VGRID = [None]
SUFFIXES = {'a', 'alpha', 'b', 'beta', 'rc'}
VERSIONS = ('1.0', '1.2', '1.5', '1.5.0', '2.0', '0.9', '1.0rc1', '1!1.0',
            '1!0.5', '1.0.post1', '2.0rc1', '2.0.dev1', '2.0.post1',
            # releases that differ only by trailing zeros, with a marker
            '1.0.0rc1', '1.0.0', '1.0.0.post1', '1.0.0.dev1')
VERSIONS_THOROUGH = VERSIONS + (
    '2a1', '1.0.0.0', '1', '0', '0.0', '1.0+local.1', 'v1.0', '1.0.dev0',
    '1.0a1.dev2', '1.0.post1.dev3', '2!0.1', '1.10', '1.9', '01.0', '1.0-1',
    '1_0', '1.0c1', '1.0.0rc1', '10.0', '1.0b2', '1!2.0rc1', '3.0.0.0.1')


def _version_hook():
    import packaging.version as pv

    def hook(v, val):
        if isinstance(v, T) and v.op == 'call' and \
                v.args[0] == 'packaging.version.Version':
            from ..core.termeval import ev, Raised
            s = ev(v.args[1], val, [hook])
            try:
                return pv.Version(s)
            except pv.InvalidVersion:
                raise Raised('packaging.version.InvalidVersion')
        if isinstance(v, T) and v.op == 'call' and v.args[0] in (
                'packaging.specifiers.Specifier',
                'packaging.specifiers.SpecifierSet'):
            # other packaging objects a rewrite may compare with
            import packaging.specifiers as ps
            from ..core.termeval import ev, Raised
            pos, kw = [], {}
            for a in v.args[1:]:
                if isinstance(a, T) and a.op == 'kw':
                    kw[a.args[0]] = ev(a.args[1], val, [hook])
                else:
                    pos.append(ev(a, val, [hook]))
            try:
                return getattr(ps, v.args[0].rsplit('.', 1)[1])(*pos, **kw)
            except ps.InvalidSpecifier:
                raise Raised('packaging.specifiers.InvalidSpecifier')
        return NotImplemented
    return hook, pv


def run(ctx):
    rep, world = ctx.report, ctx.world
    VGRID[0] = VERSIONS_THOROUGH if ctx.thorough else VERSIONS
    rep.explanation = (
        'convert_version_to_int is extracted on symbolic component tuples '
        '(length 1..4) and convert_version_to_str on a symbolic integer '
        '(loop unrolled to 4 components); both are compared with base-1000 '
        'positional notation on grids including 0/1/999 components and the '
        '999/1000 boundaries, so a radix or boundary disagreement between '
        'the two is exact.  The pre-release suffix regex, the operator map '
        'and the predicate regex are compared as tables/finite languages; '
        'is_compatible and VersionPredicate are extracted with '
        'packaging.version.Version kept symbolic and compared with the '
        'PEP 440 ordering supplied by the packaging library on a grid of '
        'versions.  packaging semantics are trusted, not decided.')
    rep.rule('R17.1', 'int/str conversions are base-1000 positional notation '
             'of the component tuple; suffix regex strips '
             '(a|alpha|b|beta|rc)<digits> at the end; failures -> ValueError')
    rep.rule('R17.2', 'when the class keeps an operator table (_COMP_MAP), '
             'every operator maps to the comparison of that name (the '
             'predicate syntax itself is decided end to end under R17.3)')
    rep.rule('R17.3', 'is_compatible == (cur >= req) and (not same_major or '
             'majors equal); satisfied_by is the conjunction of all '
             'comparisons; bad syntax -> ValueError')
    _to_int(ctx)
    _to_str(ctx)
    _to_tuple(ctx)
    _tables(ctx)
    _is_compatible(ctx)
    _predicate(ctx)
    _history(ctx)


def _history(ctx):
    """A predicate object (and is_compatible) answers the same whatever it
    was asked before."""
    from ..core.absint import AbsRaise
    from ..core.table import history_compare
    import packaging.version as pv
    rep, world = ctx.report, ctx.world
    rep.rule('R17.4', 'no state is shared between calls: a predicate object '
             'asked about a version answers as a new one would')
    cls = world.cls(MOD, 'VersionPredicate')
    compat = world.func(MOD, 'is_compatible')

    def setup(interp):
        def on_call(i, name, fv, args, kwargs):
            if name == 'packaging.version.Version' and len(args) == 1 and \
                    isinstance(args[0], K):
                try:
                    return K(pv.Version(args[0].v))
                except pv.InvalidVersion:
                    raise AbsRaise(T('exc',
                                     'packaging.version.InvalidVersion'))
                except TypeError:
                    raise AbsRaise(T('exc', 'TypeError'))
            return NotImplemented
        interp.on_call = on_call
    for pred, first, second in (
            ('>=1.0', '1.0', '1.0rc1'), ('>=1.0', '1.0rc1', '1.0'),
            ('>=1.0,<2.0', '1.5', '2.0.dev1'), ('==1.0', '1.0', '1.0.0'),
            ('<2.0', '1!0.5', '0.5'), ('>1.0', '1.0.post1', '1.0'),
            ('!=1.5', 'bad', '1.5')):
        history_compare(
            rep, 'R17.4', 'VersionPredicate.satisfied_by[asked before]',
            world, lambda i, p=pred: i.get_attr(i.call(cls, [K(p)]),
                                                'satisfied_by'),
            ([K(first)], {}), ([K(second)], {}), setup=setup,
            label='%r asked %r then %r' % (pred, first, second))
    for a, b in ((('1.0', '1.0.0rc1'), ('1.0', '1.0.0')),
                 (('1.0', '2.0'), ('2.0', '1.0')),
                 (('1.0rc1', '1.0'), ('1.0', '1.0rc1'))):
        history_compare(
            rep, 'R17.4', 'is_compatible[called before]', world,
            lambda i: compat, ([K(a[0]), K(a[1])], {}),
            ([K(b[0]), K(b[1])], {}), setup=setup,
            label='%r then %r' % (a, b))


def _to_int(ctx):
    rep, world = ctx.report, ctx.world
    f = world.func(MOD, 'convert_version_to_int')
    rep.analysed('versionutils.convert_version_to_int')
    for n in (1, 2, 3, 4, 5):
        comps = [T('sym', 'c%d' % i) for i in range(n)]

        def thunk(interp):
            return interp.call(f, [TupleV(list(comps))])

        def setup(interp):
            for c in comps:
                interp.types[c] = 'int'
        outcomes, _i = extract(world, thunk, setup=setup)

        def oracle(v):
            val = 0
            for i in range(n):
                val = val * RADIX + v['c%d' % i]
            return ('return', val)
        grid_compare(rep, 'R17.1', 'convert_version_to_int/tuple%d' % n,
                     '%d-component tuple' % n, outcomes,
                     {c: ((0, 1, 9, 10, 99, 100, 999) if ctx.thorough
                          else (0, 1, 999)) for c in comps}, oracle)
    # string input goes through convert_version_to_tuple; its failures (and
    # any other) surface as ValueError
    FAIL = T('sym', 'tuple_fails')
    comps = [T('sym', 'c0'), T('sym', 'c1')]

    def stub(interp, args, kwargs):
        interp.effect('call', 'convert_version_to_tuple',
                      tuple(interp.termify(a) for a in args))
        if interp.truth(FAIL):
            raise AbsRaise(T('exc', 'ValueError', 'invalid literal'))
        return TupleV(list(comps))

    def thunk(interp):
        return interp.call(f, [T('sym', 'version')])

    def setup(interp):
        interp.stubs['convert_version_to_tuple'] = stub
        interp.types[T('sym', 'version')] = 'str'
        for c in comps:
            interp.types[c] = 'int'
    outcomes, _i = extract(world, thunk, setup=setup)

    def oracle(v):
        if v['tuple_fails']:
            return ('raise', 'ValueError')
        return ('return', v['c0'] * RADIX + v['c1'])
    grid_compare(rep, 'R17.1', 'convert_version_to_int/str',
                 'string input', outcomes,
                 {FAIL: (False, True), comps[0]: (1, 999),
                  comps[1]: (0, 999)}, oracle)
    for o in outcomes:
        calls = o.calls('convert_version_to_tuple')
        rep.check('R17.1', 'convert_version_to_int/str:delegates',
                  len(calls) == 1 and calls[0][2] == (T('sym', 'version'),),
                  'a string is parsed by convert_version_to_tuple(version)')


def _ref_to_str(n):
    parts = []
    while n != 0:
        parts.insert(0, str(n % RADIX))
        n //= RADIX
    return '.'.join(parts)


def _to_str(ctx):
    rep, world = ctx.report, ctx.world
    f = world.func(MOD, 'convert_version_to_str')
    rep.analysed('versionutils.convert_version_to_str')
    v = T('sym', 'version_int')

    def thunk(interp):
        return interp.call(f, [v])

    def setup(interp):
        interp.types[v] = 'int'
    old = world.loop_bound
    world.loop_bound = 7
    try:
        outcomes, _i = extract(world, thunk, setup=setup)
    finally:
        world.loop_bound = old
    grid = (1, 9, 999, 1000, 1001, 1999, 2000, 999999, 1000000, 1000001,
            1000999, 1001000, 999999999, 1000000000, 6007000, 1000000001,
            123045067, 999000999, 1000 ** 4, 1000 ** 4 + 1, 999 * 1000 ** 4,
            5004003002001, 1000 ** 5 - 1)
    if ctx.thorough:
        grid += tuple(a * 1000 ** k + b for k in (1, 2, 3, 4, 5)
                      for a in (1, 9, 10, 99, 100, 999)
                      for b in (0, 1, 999, 1000 ** k - 1)) + (
            10 ** 15, 10 ** 15 - 1, 999999999999999, 1000000000000)

    def oracle(val):
        return ('return', _ref_to_str(val['version_int']))
    grid_compare(rep, 'R17.1', 'convert_version_to_str',
                 'integers around every 1000^k boundary', outcomes,
                 {v: grid}, oracle, allow_cut=True)


def _to_tuple(ctx):
    rep, world = ctx.report, ctx.world
    f = world.func(MOD, 'convert_version_to_tuple')
    rep.analysed('versionutils.convert_version_to_tuple')
    vs = T('sym', 'version_str')

    def thunk(interp):
        return interp.call(f, [vs])

    def setup(interp):
        interp.types[vs] = 'str'
        interp.pure_calls.update({'re.sub', 're.Pattern.sub',
                                  'packaging.version.Version',
                                  'packaging.version.parse'})
        interp.call_raises['int'] = ['ValueError']
        for n_ in ('packaging.version.Version', 'packaging.version.parse'):
            interp.call_raises[n_] = ['packaging.version.InvalidVersion']
    old = world.sym_iter_max
    world.sym_iter_max = 5
    try:
        outcomes, _i = extract(world, thunk, setup=setup)
    finally:
        world.sym_iter_max = old
    gen = ()
    if ctx.thorough:
        gen = tuple('%s%s%s%s' % (a, suf, n, tail)
                    for a in ('1', '1.2', '10.0.3', '0')
                    for suf in ('a', 'alpha', 'b', 'beta', 'rc', 'RC', 'c',
                                'dev', 'post', '.rc', '-rc', 'r', 'pre')
                    for n in ('', '0', '1', '12')
                    for tail in ('', '.0', '.dev1'))
    samples = gen + ('1.2.3', '1.2.3a1', '1.0rc2', '1.0beta12', '2.0alpha1',
               '1.0b3', '1.0.dev1', '1.2a', '1a1.2', '7rc1', '1.0c1',
               '1.0rc', '10.20.30', '1.0RC1', '1.0post1', '6.7rc1.0',
               '5a.6b', '1', '0.0.1', '1..2', '', '1.2.', 'a', '999.999',
               '1.2.3.4', '3b2', '1.0alpha', '2.0beta1')

    def oracle(v):
        s_ = re.sub(r'(\d+)(a|alpha|b|beta|rc)\d+$', r'\1', v['version_str'])
        try:
            return ('return', tuple(int(p) for p in s_.split('.')))
        except ValueError:
            return ('raise', 'ValueError')

    def sub_hook(v, val):
        if isinstance(v, T) and v.op == 'call' and v.args[0] in (
                're.sub', 're.Pattern.sub'):
            from ..core.termeval import ev
            rx = v.args[1]
            repl = ev(v.args[2], val, [sub_hook])
            subj = ev(v.args[3], val, [sub_hook])
            if isinstance(rx, T) and rx.op == 'regex':
                return re.compile(rx.args[0], rx.args[1]).sub(repl, subj)
            return re.sub(ev(rx, val, [sub_hook]), repl, subj)
        return NotImplemented
    grid_compare(rep, 'R17.1', 'convert_version_to_tuple',
                 'version strings with and without pre-release suffixes',
                 outcomes, {vs: samples}, oracle,
                 hooks=[sub_hook, _version_hook()[0]],
                 value_eq=lambda g, w: tuple(g) == tuple(w),
                 allow=('symbolic iteration bounded',))


def _is_split_of_sub(t):
    return isinstance(t, T) and t.op == 'mcall' and t.args[1] == 'split' \
        and t.args[2:] == (K('.'),) and isinstance(t.args[0], T) and \
        t.args[0].op == 'call' and t.args[0].args[0] == 're.sub'


def _tables(ctx):
    rep, world = ctx.report, ctx.world
    cls = world.cls(MOD, 'VersionPredicate')
    cmap, _o1 = cls.lookup('_COMP_MAP')
    # The operator table is compared when the class keeps one; the syntax
    # and the meaning of every operator are decided end to end by
    # _predicate() whatever the class uses to parse (regex, str methods).
    if not isinstance(cmap, DictV) or cmap.unknown:
        return
    got = {}
    for k, v in zip(cmap.keys, cmap.vals):
        if not isinstance(k, K):
            return
        got[k.v] = v.name if isinstance(v, ExtRef) else show(v)
    if set(got) != set(COMP):
        return
    rep.count('_COMP_MAP rows', len(got), floor=6)
    for op, fn in sorted(COMP.items()):
        if not got.get(op, '').startswith('operator.'):
            continue
        rep.check('R17.2', '_COMP_MAP[%s]' % op, got.get(op) == fn,
                  'operator %s maps to %s (required %s)' % (
                      op, got.get(op), fn))


def _is_compatible(ctx):
    rep, world = ctx.report, ctx.world
    f = world.func(MOD, 'is_compatible')
    rep.analysed('versionutils.is_compatible')
    req, cur, sm = T('sym', 'req'), T('sym', 'cur'), T('sym', 'same_major')
    hook, pv = _version_hook()

    def thunk(interp):
        return interp.call(f, [req, cur, sm])

    def setup(interp):
        interp.pure_calls.add('packaging.version.Version')
        interp.types[req] = 'str'
        interp.types[cur] = 'str'
        interp.types[sm] = 'bool'
    outcomes, _i = extract(world, thunk, setup=setup)

    def oracle(v):
        try:
            r, c = pv.Version(v['req']), pv.Version(v['cur'])
        except pv.InvalidVersion:
            return None         # not a version: outside the domain
        if v['same_major'] and r.major != c.major:
            return ('return', False)
        return ('return', c >= r)
    grid_compare(rep, 'R17.3', 'is_compatible', 'requested x current x '
                 'same_major', outcomes,
                 {req: VGRID[0], cur: VGRID[0], sm: (True, False)}, oracle,
                 hooks=[hook])


def _predicate(ctx):
    rep, world = ctx.report, ctx.world
    cls = world.cls(MOD, 'VersionPredicate')
    rep.analysed('versionutils.VersionPredicate.__init__',
                 'versionutils.VersionPredicate.satisfied_by')
    hook, pv = _version_hook()
    cand = T('sym', 'candidate')
    if ctx.thorough:
        extra = ['>=1!2.0', '>=1.0, <1!2.0', '<2.0rc1', '>=1.0.dev1',
                 '==1.0.post1', '!=1.0+local.1', '>=1.0;', '>=1.0 ,<2.0 ',
                 '>1', '<=0', '~=1.0', '===1.0', '>=v1.0', '>=1.0,<=1.0',
                 ',>=1.0', '>=1.0,,<2.0', '>=1.0\n', '\t>=1.0']
    else:
        extra = ['>=1!2.0', '<2.0rc1', '>2.0', '<2.0', '>1.0,<2.0']
    # every operator, white space in every position the syntax allows,
    # and the malformed shapes (anchoring, doubled operators, two tokens)
    extra += ['>=1.0', ' >= 1.0 ', '<1', '<=1', '==1.0', '!=1', '>1', '=1',
              '1.0', '>= 1.0 2.0', '', '>=', '~=1.0', 'x>=1.0', '<<1',
              '\t<=\t1.0\t', '> =1.0', '<= 1', '!= 1.5', '== 1.0', '=>1.0',
              '><1', '>=1.0 x', '>=\n1.0']
    preds = extra + ['>=1.0', '<1.0,<1.5.0', '>=1.0,<2.0,!=1.5', '==1.0', ' > 1.0 ',
             '<=1.5 , >=1.2', '!=1.0,!=2.0', '>1.0,>1.2', 'bad', '>=', '=1.0',
             '>=1.0,', '>= 1.0 2.0',
             # every comparison counts, wherever it stands in the list
             '==1.0,!=1.0', '==2.0,<1.5', '<1.5,==2.0', '!=1.0,==1.0',
             '==1.0,>=1.0,<1.0', '>=1.0,==1.5,<=1.2', '==1.0,==2.0']
    ref_rx = re.compile(r"^\s*(<=|>=|<|>|!=|==)\s*([^\s]+)\s*$")

    def on_call(interp, name, fv, args, kwargs):
        if name == 're.Pattern.match' and isinstance(args[0], RegexV) and \
                isinstance(args[1], K):
            m = re.compile(args[0].pattern, args[0].flags).match(args[1].v)
            if m is None:
                return K(None)
            groups = K(tuple(m.groups()))
            return Obj(None, {
                'groups': _const_func(groups),
                'group': _group_func(m)}, label='match')
        return NotImplemented

    for p in preds:
        def thunk(interp):
            obj = interp.call(cls, [K(p)])
            return interp.call(interp.get_attr(obj, 'satisfied_by'), [cand])

        def setup(interp):
            interp.on_call = on_call
            interp.pure_calls.add('packaging.version.Version')
            interp.call_raises['packaging.version.Version'] = [
                'packaging.version.InvalidVersion']
            for n in ('Specifier', 'SpecifierSet'):
                interp.pure_calls.add('packaging.specifiers.' + n)
                interp.call_raises['packaging.specifiers.' + n] = [
                    'packaging.specifiers.InvalidSpecifier']
            interp.pure_methods.update({'contains'})
            interp.types[cand] = 'str'
        outcomes, _i = extract(world, thunk, setup=setup, depth=6)

        def oracle(v):
            parsed = []
            for part in p.split(','):
                m = ref_rx.match(part)
                if not m:
                    return ('raise', 'ValueError')
                try:
                    parsed.append((m.group(1), pv.Version(m.group(2))))
                except pv.InvalidVersion:
                    return ('raise', ('ValueError',
                                      'packaging.version.InvalidVersion'))
            try:
                c = pv.Version(v['candidate'])
            except pv.InvalidVersion:
                return None
            return ('return', all(PYOP[op](c, b) for op, b in parsed))
        grid_compare(rep, 'R17.3', 'VersionPredicate[%s]' % p,
                     'predicate %r over candidate versions' % p, outcomes,
                     {cand: VGRID[0]}, oracle, hooks=[hook])


def _const_func(value):
    from ..core.values import AbsFunc
    return AbsFunc('groups', lambda interp, args, kwargs: value)


def _group_func(m):
    from ..core.values import AbsFunc

    def g(interp, args, kwargs):
        if len(args) > 1 and all(isinstance(a, K) for a in args):
            try:
                return K(m.group(*[a.v for a in args]))
            except (IndexError, error):
                raise AbsRaise(T('exc', 'IndexError', 'no such group'))
        if len(args) == 1 and isinstance(args[0], K):
            try:
                return K(m.group(args[0].v))
            except (IndexError, error):
                raise AbsRaise(T('exc', 'IndexError', 'no such group'))
        return K(m.group(0))
    error = re.error
    return AbsFunc('group', g)
