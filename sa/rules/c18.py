"""C18 - the spec matcher implements its documented operator table."""
import ast as _ast

from ..core.absint import AbsRaise
from ..core.loader import AnalysisError
from ..core.table import extract, grid_compare, inexact_notes
from ..core.values import (K, T, Obj, TupleV, ListV, DictV, FuncRef, ExtRef,
                           AbsFunc, show)

MOD = 'specs_matcher'

STRS = ('1', '2', '1.0', '01', '10', 'a', 'b', 'ab', '', '4000000000',
        '4000000001', '2.5', '2.5000000001')
NUMERIC = {'=': '>=', '!=': '!=', '<=': '<=', '<': '<', '==': '==',
           '>=': '>=', '>': '>'}
STRING = {'s!=': '!=', 's<': '<', 's<=': '<=', 's==': '==', 's>': '>',
          's>=': '>='}
import operator as _o
REL = {'>=': _o.ge, '!=': _o.ne, '<=': _o.le, '<': _o.lt, '==': _o.eq,
       '>': _o.gt}
DOCUMENTED = set(NUMERIC) | set(STRING) | {'<all-in>', '<in>', '<or>',
                                           '<range-in>'}
RAISES = {'float': ['ValueError', 'TypeError'],
          'ast.literal_eval': ['ValueError', 'SyntaxError']}
LISTS = ("['aes', 'mmx']", "['aes']", "[]", "'aes'", "aes", "5")
ITEMS = ('aes', 'mmx', 'txt')


def doc_semantics(op, x, ys):
    """Documented meaning of ``op`` applied to value x and operands ys
    -> ('return', bool) | ('raise', names)."""
    if op in NUMERIC:
        if len(ys) != 1:
            return None
        try:
            return ('return', REL[NUMERIC[op]](float(x), float(ys[0])))
        except ValueError:
            return ('raise', 'ValueError')
    if op in STRING:
        if len(ys) != 1:
            return None
        return ('return', REL[STRING[op]](x, ys[0]))
    if op == '<in>':
        if len(ys) != 1:
            return None
        return ('return', ys[0] in x)
    if op == '<or>':
        return ('return', any(x == a for a in ys))
    if op == '<all-in>':
        try:
            lst = _ast.literal_eval(x)
        except (ValueError, SyntaxError):
            return ('raise', ('ValueError', 'SyntaxError'))
        if not isinstance(lst, list):
            return ('raise', 'TypeError')
        return ('return', all(v in lst for v in ys))
    if op == '<range-in>':
        try:
            vx = _ast.literal_eval(x)
        except (ValueError, SyntaxError):
            return ('raise', ('ValueError', 'SyntaxError'))
        if len(ys) != 4:
            return ('raise', 'TypeError')
        try:
            nx, lo, hi = float(vx), float(ys[1]), float(ys[2])
        except (ValueError, TypeError):
            return ('raise', ('ValueError', 'TypeError'))
        if lo > hi or ys[0] not in '[(' or ys[3] not in '])' or \
                len(ys[0]) != 1 or len(ys[3]) != 1:
            return ('raise', 'TypeError')
        lower = nx >= lo if ys[0] == '[' else nx > lo
        upper = nx <= hi if ys[3] == ']' else nx < hi
        return ('return', lower and upper)
    return None


def run(ctx):
    rep, world = ctx.report, ctx.world
    rep.explanation = (
        'Every row of op_methods is extracted as a decision table (abstract '
        'interpretation of the lambda / helper on symbolic operands) and '
        'compared with the documented meaning on a grid of operand strings '
        'covering equal / adjacent / differently-spelled numbers, ordering '
        'of strings, list literals, all bracket combinations and arities; '
        'the pyparsing grammar is folded to a term and its literal set and '
        'MatchFirst ordering are checked against the table; match() is '
        'extracted with injected parse results.  pyparsing tokenisation is '
        'not decided.')
    rep.rule('R18.1', 'each op_methods row implements the documented '
             'relation on the documented operand domain')
    rep.rule('R18.2', '<range-in>: bracket table, arity and ordering '
             'errors, conjunction of both ends')
    rep.rule('R18.3', 'grammar literals == op_methods keys; no literal is '
             'preceded in a MatchFirst chain by a proper prefix of itself')
    rep.rule('R18.4', 'match(): parse failure or single token -> equality '
             'with the value; otherwise op_methods[tree[0]](value, '
             '*tree[1:])')
    table = world.get(MOD, 'op_methods')
    if not isinstance(table, DictV) or table.unknown:
        raise AnalysisError('op_methods does not fold to a constant table')
    keys = [k.v for k in table.keys]
    rep.count('op_methods rows', len(keys), floor=17)
    missing = sorted(DOCUMENTED - set(keys))
    rep.check('R18.1', 'op_methods:keys', not missing,
              'documented operators missing from the table: %s' % missing)
    for k in sorted(set(keys) - DOCUMENTED):
        rep.info('R18.1', 'op_methods[%s]' % k, 'operator without an oracle '
                 'row (open world): only grammar agreement is checked')
    x = T('sym', 'x')
    for k, fn in zip(keys, table.vals):
        if k not in DOCUMENTED:
            continue
        rep.analysed('specs_matcher.op_methods[%s]' % k)
        if k in NUMERIC or k in STRING or k == '<in>':
            _row(ctx, k, fn, x, [T('sym', 'y')],
                 {x: STRS, T('sym', 'y'): STRS})
        elif k == '<or>':
            for n in (1, 2, 3):
                ys = [T('sym', 'y%d' % i) for i in range(n)]
                g = {x: ('a', 'b', '1')}
                g.update({y: ('a', 'b', '1.0') for y in ys})
                _row(ctx, k, fn, x, ys, g)
        elif k == '<all-in>':
            for n in (1, 2, 3):
                ys = [T('sym', 'y%d' % i) for i in range(n)]
                g = {x: LISTS}
                g.update({y: ITEMS for y in ys})
                _row(ctx, k, fn, x, ys, g)
                for m in (0, 1, 2):
                    _all_in_row(ctx, fn, m, ys)
        elif k == '<range-in>':
            b0, lo, hi, b1 = (T('sym', 'y0'), T('sym', 'y1'), T('sym', 'y2'),
                              T('sym', 'y3'))
            g = {x: ('5', '10', '15', '20', '25', '10.0', "'a'"),
                 b0: ('[', '(', '{', ']'), lo: ('10', '20', 'z'),
                 hi: ('10', '20'), b1: (']', ')', '}', '[')}
            _row(ctx, k, fn, x, [b0, lo, hi, b1], g, rule='R18.2')
            for n in (2, 3, 5):
                ys = [T('sym', 'y%d' % i) for i in range(n)]
                g = {x: ('5',)}
                g.update({y: ('[', '10') for y in ys})
                _row(ctx, k, fn, x, ys, g, rule='R18.2')
    _grammar(ctx, keys)
    _match(ctx, keys)
    rep.rule('R18.5', 'match() end to end: the grammar term is instantiated '
             'with the installed pyparsing and match(value, spec) is '
             'followed for value x spec strings (operators glued or spaced, '
             '1..4 <or> alternatives, padded bare words)')
    _end_to_end(ctx, keys)


def _row(ctx, k, fn, x, ys, grids, rule='R18.1'):
    rep, world = ctx.report, ctx.world

    def thunk(interp):
        return interp.call(fn, [x] + list(ys))

    def setup(interp):
        interp.pure_calls.add('ast.literal_eval')
        interp.call_raises.update(RAISES)
        for s in [x] + list(ys):
            interp.types[s] = 'str'
    outcomes, _i = extract(world, thunk, setup=setup)
    names = ['x'] + [show(y) for y in ys]

    def oracle(v):
        return doc_semantics(k, v['x'], [v[n] for n in names[1:]])
    grid_compare(rep, rule, 'op_methods[%s]/%d' % (k, len(ys)),
                 'operator %s with %d operand(s)' % (k, len(ys)),
                 outcomes, grids, oracle, value_eq=_bool_eq)


def _all_in_row(ctx, fn, m, ys):
    """<all-in> with the value abstracted as a list literal of *m* symbolic
    string members (the literal is what ast.literal_eval returns)."""
    rep, world = ctx.report, ctx.world
    members = [T('sym', 'm%d' % i) for i in range(m)]
    x = T('sym', 'x')

    def hook(interp, name, f, args, kwargs):
        if name == 'ast.literal_eval':
            return ListV(list(members))
        return NotImplemented

    def thunk(interp):
        return interp.call(fn, [x] + list(ys))

    def setup(interp):
        interp.on_call = hook
        for s in [x] + list(ys) + members:
            interp.types[s] = 'str'
    outcomes, _i = extract(world, thunk, setup=setup)
    grids = {y: ITEMS for y in ys}
    grids.update({mm: ITEMS for mm in members})

    def oracle(v):
        lst = [v['m%d' % i] for i in range(m)]
        return ('return', all(v[show(y)] in lst for y in ys))
    grid_compare(rep, 'R18.1', 'op_methods[<all-in>]/list%d/%d' % (
        m, len(ys)), '<all-in> on a %d-member list with %d operand(s)' % (
        m, len(ys)), outcomes, grids, oracle, value_eq=_bool_eq)


def _bool_eq(g, w):
    return isinstance(g, bool) and g is w


# ------------------------------------------------------------------ grammar
def _grammar(ctx, keys):
    rep, world = ctx.report, ctx.world
    f = world.func(MOD, 'make_grammar')
    rep.analysed('specs_matcher.make_grammar')

    def thunk(interp):
        return interp.call(f, [])

    def setup(interp):
        for n in ('Literal', 'Regex', 'OneOrMore', 'ZeroOrMore', 'Optional',
                  'Word', 'Keyword', 'oneOf', 'one_of', 'MatchFirst', 'Or',
                  'And', 'Group', 'Suppress', 'CaselessLiteral'):
            interp.pure_calls.add('pyparsing.' + n)
    outcomes, _i = extract(world, thunk, setup=setup)
    if len(outcomes) != 1 or outcomes[0].kind != 'return' or \
            not outcomes[0].exact:
        rep.undecided('R18.3', 'make_grammar', 'grammar construction is not '
                      'a single straight-line path: %s' % [
                          (o.brief(), o.notes) for o in outcomes][:3])
        return
    expr = outcomes[0].value
    try:
        alts = _alternatives(expr)
        firsts = []
        for a in alts:
            firsts.extend(_first_literals(a))
        lits = _all_literals(expr)
    except AnalysisError:
        # the grammar is not written with the | / + / ~ operators this
        # structural cross-check reads; what it accepts and how its tokens
        # are interpreted is decided end to end (R18.5) on the instantiated
        # grammar, whatever its spelling
        rep.case({'grammar': 'shape not read structurally; decided end to '
                  'end under R18.5'}, ('grammar', 'unread'))
        return
    rep.count('grammar operator literals', len(lits), floor=17)
    rep.check('R18.3', 'make_grammar:literals', set(lits) == set(keys),
              'grammar literals %s vs op_methods keys: only in grammar %s, '
              'only in table %s' % (sorted(set(lits)),
                                    sorted(set(lits) - set(keys)),
                                    sorted(set(keys) - set(lits))))
    rep.check('R18.3', 'make_grammar:reachable', set(firsts) >= set(keys),
              'operators that can never start an expression: %s' %
              sorted(set(keys) - set(firsts)))
    for j, lit in enumerate(firsts):
        for i in range(j):
            p = firsts[i]
            if p != lit and lit.startswith(p):
                rep.check('R18.3', 'make_grammar:order[%s]' % lit, False,
                          'literal %r is tried after its proper prefix %r '
                          'in the first-match ordering, so %r can never '
                          'match' % (lit, p, lit))
                break
        else:
            rep.check('R18.3', 'make_grammar:order[%s]' % lit, True,
                      'no earlier alternative is a proper prefix of %r'
                      % lit)
    # the negative look-ahead of ``atom`` must cover every operator
    neg = _negated_literals(expr)
    rep.check('R18.3', 'make_grammar:atom-excludes-operators',
              neg is None or set(neg) >= set(keys),
              'operands exclude every operator keyword (missing: %s)' %
              (sorted(set(keys) - set(neg)) if neg is not None else []))
    rep.case({'first-match order': firsts}, ('grammar', tuple(firsts)))


def _alternatives(t):
    if isinstance(t, T) and t.op == 'binop' and t.args[0] == '|':
        return _alternatives(t.args[1]) + _alternatives(t.args[2])
    return [t]


def _lit(t):
    if isinstance(t, T) and t.op == 'call' and t.args[0] in (
            'pyparsing.Literal', 'pyparsing.Keyword') and \
            len(t.args) >= 2 and isinstance(t.args[1], K):
        return t.args[1].v
    return None


def _first_literals(t):
    """Ordered literals that can start alternative *t*."""
    if _lit(t) is not None:
        return [_lit(t)]
    if isinstance(t, T):
        if t.op == 'binop' and t.args[0] == '|':
            out = []
            for a in _alternatives(t):
                out.extend(_first_literals(a))
            return out
        if t.op == 'binop' and t.args[0] == '+':
            left = t.args[1]
            if isinstance(left, T) and left.op == 'unop':
                return _first_literals(t.args[2])
            return _first_literals(left)
        if t.op == 'call' and t.args[0] in ('pyparsing.OneOrMore',
                                            'pyparsing.Group'):
            return _first_literals(t.args[1])
        if t.op == 'call' and t.args[0] == 'pyparsing.Regex':
            return []
        if t.op == 'unop':
            return []
    raise AnalysisError('unrecognised grammar element %s' % show(t))


def _all_literals(t, acc=None, in_neg=False):
    acc = [] if acc is None else acc
    if _lit(t) is not None:
        if not in_neg and _lit(t) not in acc:
            acc.append(_lit(t))
        return acc
    if isinstance(t, T):
        neg = in_neg or t.op == 'unop'
        for a in t.args:
            _all_literals(a, acc, neg)
    return acc


def _negated_literals(t):
    found = []

    def walk(v):
        if isinstance(v, T):
            if v.op == 'unop' and v.args[0] == 'Invert':
                found.append(_all_literals(v.args[1], [], False))
            for a in v.args:
                walk(a)
    walk(t)
    if not found:
        return None
    out = set(found[0])
    for f in found[1:]:
        out &= set(f)
    return sorted(out)


# ------------------------------------------------------------------ match()
def _match(ctx, keys):
    rep, world = ctx.report, ctx.world
    f = world.func(MOD, 'match')
    rep.analysed('specs_matcher.match')
    value, spec = T('sym', 'value'), T('sym', 'spec')
    PARSE = T('sym', 'parse')     # 'error' or number of tokens
    toks = [T('sym', 'tok%d' % i) for i in range(5)]

    def on_method(base, name, args, kwargs):
        if name in ('parseString', 'parse_string'):
            interp = holder['interp']
            if args[:1] != [spec]:
                interp.inexact('parseString is applied to %s, not to the '
                               'spec' % [show(a) for a in args])
            for n in ('error', 1, 2, 3, 5):
                if interp.truth(T('cmp', '==', PARSE, K(n))):
                    if n == 'error':
                        raise AbsRaise(T('exc', 'pyparsing.ParseException'))
                    return ListV(toks[:n])
            return ListV(toks[:4])
        return NotImplemented
    holder = {}

    def thunk(interp):
        holder['interp'] = interp
        interp.on_method = on_method
        return interp.call(f, [value, spec])

    def setup(interp):
        interp.pure_calls.add('ast.literal_eval')
        interp.call_raises.update(RAISES)
        for s in [value, spec] + toks:
            interp.types[s] = 'str'
        for n in ('Literal', 'Regex', 'OneOrMore'):
            interp.pure_calls.add('pyparsing.' + n)
    outcomes, _i = extract(world, thunk, setup=setup, depth=6,
                           max_paths=4096)
    ops = [k for k in keys if k in DOCUMENTED]

    def oracle(v):
        p = v['parse']
        if p == 'error':
            return ('return', v['spec'] == v['value'])
        if p == 1:
            return ('return', v['tok0'] == v['value'])
        op = v['tok0']
        ys = [v['tok%d' % i] for i in range(1, p)]
        if op not in ops:
            return None
        return doc_semantics(op, v['value'], ys)

    def veq(g, w):
        return isinstance(g, bool) and g is w

    def derive(v):
        # the tokens are what the grammar made of the spec
        if v['parse'] == 'error':
            return {}
        return {spec: ' '.join(v['tok%d' % i] for i in range(v['parse']))}

    def skip(v):
        return v['parse'] != 'error' and v['spec'] not in ('1', 's')
    # two grids: operators with scalar operands, and list / range forms
    g1 = {PARSE: ('error', 1, 2), value: ('1', '2', '1.0', 'a'),
          spec: ('1', 'a'), toks[0]: tuple(ops) + ('1', 'a'),
          toks[1]: ('1', '2', '1.0', 'a'), toks[2]: ('x',), toks[3]: ('x',),
          toks[4]: ('x',)}
    grid_compare(rep, 'R18.4', 'match:scalar', 'match() with parse outcome '
                 'x operator x operands', outcomes, g1, oracle,
                 value_eq=veq, derive=derive, skip=skip)
    g2 = {PARSE: (3, 5), value: ("['aes', 'mmx']", '15', '10'),
          spec: ('s',), toks[0]: ('<or>', '<all-in>', '<range-in>'),
          toks[1]: ('aes', '[', '('), toks[2]: ('mmx', '10', '15'),
          toks[3]: ('20', '10'), toks[4]: (']', ')')}
    grid_compare(rep, 'R18.4', 'match:nary', 'match() with 3/5-token parse '
                 'results', outcomes, g2, oracle, value_eq=veq, derive=derive,
                 skip=skip)


# ------------------------------------------------------------ end to end
def _pp_hook(v, val):
    """Instantiates the extracted grammar term with the installed pyparsing
    (trusted) so that match() can be evaluated end to end on spec strings."""
    import pyparsing as pp
    from ..core.termeval import ev, Raised
    hooks = [_pp_hook]
    if isinstance(v, T) and v.op in ('call', 'parseaction', 'binop',
                                     'unop', 'mcall') and v in _PP_CACHE:
        return _PP_CACHE[v]
    r = _pp_build(v, val, pp, ev, Raised, hooks)
    if r is not NotImplemented and isinstance(v, T) and (v.op in (
            'call', 'parseaction', 'unop') or (
                v.op == 'mcall' and v.args[1] in PP_CONFIGURATORS)) and \
            isinstance(r, pp.ParserElement):
        _PP_CACHE[v] = r
    return r


_PP_CACHE = {}


def _pp_build(v, val, pp, ev, Raised, hooks):
    from ..core.values import ExtRef
    if isinstance(v, ExtRef) and v.name.startswith('pyparsing.'):
        obj = pp
        for part in v.name.split('.')[1:]:
            obj = getattr(obj, part)
        return obj
    if isinstance(v, T) and v.op == 'call' and isinstance(v.args[0], str) \
            and v.args[0].startswith('pyparsing.'):
        fn = pp
        for part in v.args[0].split('.')[1:]:
            # a method of a module-level element ("quotedString.copy")
            fn = getattr(fn, part)
        pos, kw = [], {}
        for a in v.args[1:]:
            if isinstance(a, T) and a.op == 'kw':
                kw[a.args[0]] = ev(a.args[1], val, hooks)
            else:
                pos.append(ev(a, val, hooks))
        return fn(*pos, **kw)
    if isinstance(v, T) and v.op == 'unop' and v.args[0] == 'Invert':
        return ~ev(v.args[1], val, hooks)
    if isinstance(v, T) and v.op == 'parseaction':
        base = ev(v.args[0], val, hooks).copy()
        params, body = v.args[1], v.args[2]
        if isinstance(body, ExtRef):
            base.setParseAction(ev(body, val, hooks))
            return base

        def action(s_, l_, t_):
            v2 = dict(val)
            # pyparsing hands the last len(params) of (s, loc, toks)
            for p_, x in zip(params, (s_, l_, t_)[3 - len(params):]):
                v2[p_] = x
            return ev(body, v2, hooks)
        base.setParseAction(action)
        return base
    if isinstance(v, T) and v.op == 'mcall' and \
            v.args[1] in PP_CONFIGURATORS:
        # a configuring method changes the element it is called on: applied
        # to a private deep copy, once (the result is cached), so that the
        # shared instantiated elements are not configured again and again
        import copy
        g = copy.deepcopy(ev(v.args[0], val, hooks))
        args_ = [ev(a_, val, hooks) for a_ in v.args[2:]]
        r = getattr(g, v.args[1])(*args_)
        return g if r is None else r
    if isinstance(v, T) and v.op == 'mcall' and v.args[1] in (
            'parseString', 'parse_string'):
        g = ev(v.args[0], val, hooks)
        pos_, kw_ = [], {}
        for a_ in v.args[2:]:
            if isinstance(a_, T) and a_.op == 'kw':
                kw_[a_.args[0]] = ev(a_.args[1], val, hooks)
            else:
                pos_.append(ev(a_, val, hooks))
        try:
            return list(getattr(g, v.args[1])(*pos_, **kw_))
        except pp.ParseException:
            raise Raised('pyparsing.ParseException')
    return NotImplemented


# pyparsing methods that configure the element they are called on (and
# return it): called as a statement, they change what the grammar accepts
PP_CONFIGURATORS = (
    'ignore', 'setName', 'set_name', 'setDebug', 'set_debug',
    'leaveWhitespace', 'leave_whitespace', 'ignoreWhitespace',
    'ignore_whitespace', 'setWhitespaceChars', 'set_whitespace_chars',
    'parseWithTabs', 'parse_with_tabs', 'addCondition', 'add_condition',
    'setFailAction', 'set_fail_action', 'setBreak', 'set_break',
    'streamline', 'setDefaultWhitespaceChars')


def install_configurators(interp):
    def make(name):
        def rebind(i2, base, margs):
            return T('mcall', base, name, *[i2.termify(a) for a in margs])
        return rebind
    for n in PP_CONFIGURATORS:
        interp.rebind_methods[n] = make(n)


def _rebind_parse_action(interp, base, margs):
    from ..core.values import FuncRef
    f = margs[0]
    from ..core.values import ExtRef
    if isinstance(f, ExtRef) and f.name.startswith('pyparsing.'):
        # one of pyparsing's own parse actions (removeQuotes, ...)
        return T('parseaction', base, (), f)
    if isinstance(f, Obj) and f.cls is not None and isinstance(
            f.cls.lookup('__call__')[0], FuncRef):
        # an instance of a callable repo class
        f = f.cls.lookup('__call__')[0].bind(f)
    if not isinstance(f, FuncRef):
        interp.inexact('parse action is not a function')
        return base
    n = len(f.node.args.args) - (1 if f.bound is not None else 0)
    params = tuple(T('sym', 'pa%d' % i) for i in range(n))
    body = None
    if isinstance(f.node, _ast.Lambda):
        # a lambda is one expression: kept as a pure term when possible (no
        # forking on the tokens, which are not known yet)
        from ..core.absint import Frame, Inexact
        binding = {a.arg: p for a, p in zip(f.node.args.args, params)}
        try:
            body = interp._pure_term(
                f.node.body, binding,
                Frame(f, dict(f.closure or {}), len(interp.frames)))
        except Inexact:
            body = None
    if body is None:
        body = interp.termify(interp.call(f, list(params)))
    return T('parseaction', base, params, body)


def _end_to_end(ctx, keys):
    from ..core.table import guided_compare
    rep, world = ctx.report, ctx.world
    f = world.func(MOD, 'match')
    value, spec = T('sym', 'value'), T('sym', 'spec')

    def thunk(interp):
        return interp.call(f, [value, spec])

    def setup(interp):
        interp.pure_calls.add('ast.literal_eval')
        interp.call_raises.update(RAISES)
        for n in ('Literal', 'Regex', 'OneOrMore', 'ZeroOrMore', 'Optional',
                  'Suppress', 'Group', 'Word', 'Keyword', 'MatchFirst',
                  'And', 'Or', 'oneOf', 'one_of', 'Combine', 'Opt'):
            interp.pure_calls.add('pyparsing.' + n)
        interp.pure_methods.update({'parseString', 'parse_string'})
        interp.pure_prefixes = ('pyparsing.',)
        interp.method_raises['parseString'] = ['pyparsing.ParseException']
        interp.method_raises['parse_string'] = ['pyparsing.ParseException']
        interp.rebind_methods['setParseAction'] = _rebind_parse_action
        interp.rebind_methods['set_parse_action'] = _rebind_parse_action
        install_configurators(interp)
        interp.types[value] = 'str'
        interp.types[spec] = 'str'
    specs = []
    for op in sorted(NUMERIC) + sorted(STRING):
        specs += ['%s 5' % op, '%s  5.0' % op, '%s5' % op]
    specs += ['<in> bc', '<in>  x', '<or> a <or> b', '<or> a',
              '<or> a <or> b <or> 17', '<or> a <or> b <or> c <or> 5',
              "<all-in> aes mmx", '<all-in> aes', '<range-in> [ 1 5 ]',
              '<range-in> ( 1 5 )', '<range-in> ( 5 9 ]', 'abc', ' abc',
              'abc ', '5', '', 'a b', '= ', 's== a b',
              # operands that begin like an operator without being one
              's== !abc', 's!= !abc', '<in> !9', '<or> !b <or> a',
              '<or> a <or> s=x', '<all-in> !x s=y', 's== s=x', 's== s!x',
              's== sx', '<in> s', '<or> s', '!abc', 's=x', '<all-in> aes aes',
              # letters outside ASCII
              'caf\u00e9', 's== caf\u00e9', '<or> \u00e9t\u00e9 <or> a',
              '<in> \u00e9', '<all-in> a\u00e9s mmx',
              # punctuation at the end of an operand belongs to it
              's== abc,', 'abc,', '<in> bc,', '<or> a, <or> b', 's!= abc.',
              '<all-in> aes, mmx',
              # operands with regex metacharacters are plain text
              '<in> 4.8', '<in> a+b', '<in> (x', '<in> [a', '<in> a|b',
              's== a.c', '<or> a.c <or> x*',
              # zero as the value of a range test
              '<range-in> [ -1 1 ]', '<range-in> [ 0 5 ]', '<range-in> ( -5 0 ]',
              '<range-in> ( 0 5 )',
              # negative and decimal range limits
              '<range-in> [ -20 -10 ]', '<range-in> ( -5 5 ]',
              '<range-in> [ -1.5 4.5 )', '<range-in> [ 4 +6 ]',
              # negative numbers of equal width, numbers of different
              # width, operands that start like a comment
              '>= -3', '<= -3', '= -5', '> -9', '< -3', '>= 10', '<= 9',
              '-3', 's== #1', '<in> #b', '<or> a <or> #b', '<all-in> #x y',
              '#abc', 's!= #', '>= 1#',
              # quotes are ordinary operand characters
              "s== 'q'", 's== "q"', '"ab"cd', "''", "<or> 'a' <or> b",
              "<all-in> 'aes' mmx", "<in> 'b'", "'abc'", "s!= 'q'x",
              "it's", 'a"b',
              # white space before / after / inside
              ' >= 5', '  <or> a <or> b', ' s== abc', '\t<in> bc', '>= 5 ',
              ' <range-in> [ 1 5 ] ', '<or>  a  <or>  b', ' <all-in> aes']
    values = ('5', '5.0', '6', '4', 'abc', '17', 'a', "['aes', 'mmx']",
              ' abc', '!abc', 'x!9y', '!b', 's=x', "['!x', 's=y']", 's',
              '-15', '-5', '4.5', '-20', 'caf\u00e9', 'caf', '0', '0.0',
              '-0.0', 'gcc-4x8', 'a+b', 'f(x)', 'abc', 'aac', 'a|b', '[a]',
              'abc,', 'a,', "['aes,', 'mmx']",
              "['a\u00e9s', 'mmx']", '\u00e9t\u00e9',
              '-3', '-9', '-2', '10', '9', '#1', '#b', 'a#b', "['#x', 'y']",
              '#abc', '#', "'q'", 'q', '"q"', '"ab"cd', 'ab', "''", "'a'",
              "['aes', 'mmx']", "'b'", "'abc'", "it's", 'a"b')

    if ctx.thorough:
        operands = ('-1', '0', '4', '6', '5.0', '4.99', '5.01', '1e1', 'abc',
                    'ABC', 'abd', '05', '+5', '5.')
        for op in sorted(NUMERIC) + sorted(STRING):
            specs += ['%s %s' % (op, y) for y in operands]
        specs += ['<in> %s' % y for y in ('a', 'bc', '5', '.', 'abcd')]
        specs += ['<or> %s' % ' <or> '.join(ys) for ys in (
            ('5', '6'), ('abc', '5', 'x'), ('a', 'b', 'c', 'd', 'abc'),
            ('4.99', '5.0'))]
        specs += ['<all-in> %s' % ' '.join(ys) for ys in (
            ('aes',), ('mmx', 'aes'), ('aes', 'mmx', 'sse'), ('a',))]
        specs += ['<range-in> %s %s %s %s' % (lo_b, lo, hi, hi_b)
                  for lo_b in '[(' for hi_b in '])'
                  for lo, hi in (('4', '5'), ('5', '6'), ('5', '5'),
                                 ('6', '4'), ('4.99', '5.01'), ('-1', '17'))]
        values += ('-1', '0', '4.99', '5.01', '1e1', 'ABC', 'abd', '10',
                   '05', "['aes']", "['aes', 'mmx', 'sse']", 'abcd')

    def oracle(v):
        sp, x = v['spec'], v['value']
        toks = sp.split()
        if not toks:
            return ('return', sp == x)
        op = toks[0]
        rest = toks[1:]
        glued = None
        for cand in ([] if op in DOCUMENTED else
                     sorted(DOCUMENTED, key=len, reverse=True)):
            if op.startswith(cand) and op != cand and \
                    cand not in ('<or>', '<in>', '<all-in>', '<range-in>'):
                glued = cand
                break
        if glued:
            rest = [op[len(glued):]] + rest
            op = glued
        if op not in DOCUMENTED or not rest:
            if len(toks) == 1:
                return ('return', toks[0] == x)
            return None     # several bare words: not in the grammar's domain
        if op == '<or>':
            alts = [t for t in rest if t != '<or>']
            return doc_semantics(op, x, alts)
        if op in NUMERIC or op in STRING or op == '<in>':
            if len(rest) != 1:
                return None
        return doc_semantics(op, x, rest)
    guided_compare(rep, 'R18.5', 'match:end-to-end', 'match(value, spec) '
                   'through the real grammar', world, thunk,
                   {value: values, spec: tuple(specs)}, oracle,
                   hooks=[_pp_hook], value_eq=_bool_eq, setup=setup, depth=7)
    # the same through a history: an earlier match() with another value and
    # spec leaves nothing behind (parser objects, parse results and operator
    # tables may be shared between calls, what they answer may not)
    rep.rule('R18.7', 'match() keeps no state: after an earlier match() with '
             'another value / spec it answers as documented')
    value1, spec1 = T('sym', 'earlier_value'), T('sym', 'earlier_spec')

    def thunk2(interp):
        try:
            interp.call(f, [value1, spec1])
        except AbsRaise:
            pass
        return interp.call(f, [value, spec])

    def setup2(interp):
        setup(interp)
        interp.types[value1] = 'str'
        interp.types[spec1] = 'str'
    guided_compare(rep, 'R18.7', 'match[after an earlier call]',
                   'match(value, spec) after match(earlier_value, '
                   'earlier_spec)', world, thunk2,
                   {value1: ('5', 'abc'),
                    spec1: ('>= 4', '<= 4', '<in> b', 'abc',
                            '<range-in> [ 1 10 ]', '<or> 5 <or> abc'),
                    value: ('5', '3', 'abc', '10'),
                    spec: ('>= 4', '<= 4', '<in> b', '<in> x', 's== abc',
                           'abc', '<range-in> [ 1 10 ]',
                           '<range-in> [ 1 10 )', '<or> 5 <or> abc',
                           '<or> 3')}, oracle,
                   hooks=[_pp_hook], value_eq=_bool_eq, setup=setup2, depth=7)
    # specs that differ only in where their white space stands
    guided_compare(rep, 'R18.7', 'match[after an earlier call]',
                   'match(value, spec) after match() with a spec of the '
                   'same characters, spaced differently', world, thunk2,
                   {value1: ('x',),
                    spec1: ('<all-in> ab c', '<range-in> [ 1 234 ]',
                            '<or> ab <or> c', 's== ab', '>= 12'),
                    value: ("['a', 'bc']", "['ab', 'c']", '20', 'bc', 'ab',
                            '5'),
                    spec: ('<all-in> a bc', '<range-in> [ 12 34 ]',
                           '<or> a <or> bc', 's== a b', '>= 1 2',
                           '<all-in> ab c')}, oracle,
                   hooks=[_pp_hook], value_eq=_bool_eq, setup=setup2, depth=7)
