"""C19 - path and list splitting honour their contracts for every input."""
import itertools

from ..core.loader import AnalysisError
from ..core.table import extract, grid_compare, inexact_notes
from ..core.termeval import ev, Raised, CannotEval
from ..core.values import K, T, ExtRef, show

MOD = 'strutils'


# ------------------------------------------------------------------ split_path
def ref_split_path(path, minsegs, maxsegs, rest_with_last):
    """Reference written from the property statement."""
    if not maxsegs:
        maxsegs = minsegs
    if minsegs > maxsegs:
        return ('raise', 'ValueError')
    if not path.startswith('/'):
        return ('raise', 'ValueError')
    body = path[1:]
    if rest_with_last:
        # at most maxsegs entries, the remainder stays in the last one
        parts = body.split('/', maxsegs - 1)
        if len(parts) < minsegs:
            return ('raise', 'ValueError')
    else:
        parts = body.split('/')
        if len(parts) == maxsegs + 1 and parts[-1] == '':
            parts = parts[:-1]          # a single trailing slash
        if len(parts) > maxsegs or len(parts) < minsegs:
            return ('raise', 'ValueError')
    if any(p == '' for p in parts[:minsegs]):
        return ('raise', 'ValueError')
    return ('return', parts + [None] * (maxsegs - len(parts)))


def paths(thorough=False):
    segs = ('a', '', 'b.c', 'x y')
    out = set(['', '/', 'a', 'a/b', '//', '///', '/a//', '//a',
               # white space at either end is part of a segment
               '/ ', '/a/ ', ' /a', '/a/b ', '/ a', '/a/ /b', '/\t', '/a\n',
               '/a/b/ ', ' ', '\n/a', '/a /b', '/ /', '/a/\x0b'])
    for n in range(1, 8 if thorough else 6):
        for combo in itertools.product(segs, repeat=n):
            if n > (4 if thorough else 3) and len(set(combo)) > 2:
                continue
            if n > 5 and combo.count('') > 2:
                continue
            p = '/' + '/'.join(combo)
            out.add(p)
            out.add(p + '/')
            if n <= 2:
                out.add('/'.join(combo))
    return tuple(sorted(out))


def _split_path(ctx):
    rep, world = ctx.report, ctx.world
    f = world.func(MOD, 'split_path')
    rep.analysed('strutils.split_path')
    path = T('sym', 'path')
    grid = paths(ctx.thorough)
    n = 0
    for minsegs in (1, 2, 3, 4):
        for maxsegs in (None, 0, minsegs - 1, minsegs, minsegs + 1,
                        minsegs + 2):
            for rest in (False, True):
                def thunk(interp):
                    return interp.call(f, [path, K(minsegs), K(maxsegs),
                                           K(rest)])

                def setup(interp):
                    interp.types[path] = 'str'
                outcomes, _i = extract(world, thunk, setup=setup)

                def oracle(v):
                    return ref_split_path(v['path'], minsegs, maxsegs, rest)
                n += 1
                grid_compare(
                    rep, 'R19.1', 'split_path[rest_with_last=%s]' % rest,
                    'minsegs=%s maxsegs=%s rest_with_last=%s' % (
                        minsegs, maxsegs, rest), outcomes, {path: grid},
                    oracle, value_eq=lambda g, w: list(g) == list(w))
    rep.count('split_path configurations', n, floor=40)


# ------------------------------------------------------------------ commas
def quote(item):
    if item == '' or any(c in item for c in ',"\\ '):
        return '"' + item.replace('\\', '\\\\').replace('"', '\\"') + '"'
    return item


def _pp_hook(v, val):
    import pyparsing as pp
    hooks = [_pp_hook, _pa_hook]
    if isinstance(v, ExtRef) and v.name.startswith('pyparsing.'):
        obj = pp
        for part in v.name.split('.')[1:]:
            obj = getattr(obj, part)
        return obj
    if isinstance(v, T) and v.op == 'call' and isinstance(v.args[0], str) \
            and v.args[0].startswith('pyparsing.'):
        fn = pp
        for part in v.args[0].split('.')[1:]:
            fn = getattr(fn, part)
        pos, kw = [], {}
        for a in v.args[1:]:
            if isinstance(a, T) and a.op == 'kw':
                kw[a.args[0]] = ev(a.args[1], val, hooks)
            else:
                pos.append(ev(a, val, hooks))
        return fn(*pos, **kw)
    if isinstance(v, T) and v.op == 'mcall' and v.args[1] in (
            'parseString', 'parse_string'):
        g = ev(v.args[0], val, hooks)
        pos_, kw_ = [], {}
        for a_ in v.args[2:]:
            if isinstance(a_, T) and a_.op == 'kw':
                kw_[a_.args[0]] = ev(a_.args[1], val, hooks)
            else:
                pos_.append(ev(a_, val, hooks))
        try:
            return getattr(g, v.args[1])(*pos_, **kw_)
        except pp.ParseException:
            raise Raised('pyparsing.ParseException')
    if isinstance(v, T) and v.op == 'attr' and isinstance(v.args[0], T) \
            and v.args[0].op == 'exc' and \
            v.args[0].args[0] == 'pyparsing.ParseException' and \
            len(v.args[0].args) > 1:
        # an attribute of the ParseException a parse raised (loc, msg ...)
        call = v.args[0].args[1]
        g = ev(call.args[0], val, hooks)
        s = ev(call.args[2], val, hooks)
        try:
            g.parseString(s)
        except pp.ParseException as e:
            return getattr(e, v.args[1])
        raise CannotEval('the parse does not fail')
    if isinstance(v, T) and v.op == 'call' and v.args[0] == 'list':
        return list(ev(v.args[1], val, hooks))
    return NotImplemented


def _pa_hook(v, val):
    """Elements configured with a parse action (shared with C18)."""
    if isinstance(v, T) and v.op == 'parseaction':
        from .c18 import _pp_hook as h18
        import pyparsing as pp
        base = ev(v.args[0], val, [_pp_hook, _pa_hook]).copy()
        params, body = v.args[1], v.args[2]

        def action(s_, l_, t_):
            v2 = dict(val)
            # pyparsing hands the last len(params) of (s, loc, toks)
            for p_, x in zip(params, (s_, l_, t_)[3 - len(params):]):
                v2[p_] = x
            return ev(body, v2, [_pp_hook, _pa_hook])
        base.setParseAction(action)
        return base
    return NotImplemented


def _pp_setup(interp):
    for n in ('QuotedString', 'Word', 'delimitedList', 'delimited_list',
              'DelimitedList', 'Literal', 'Regex', 'OneOrMore',
              'ZeroOrMore', 'Optional', 'Suppress', 'Group', 'Combine',
              'CharsNotIn', 'StringStart', 'StringEnd', 'And', 'Or',
              'MatchFirst', 'Each', 'White', 'LineEnd', 'Empty',
              'SkipTo', 'Opt', 'NotAny', 'FollowedBy'):
        interp.pure_calls.add('pyparsing.' + n)
    interp.pure_methods.update({'parseString', 'parse_string'})
    interp.pure_prefixes = ('pyparsing.',)
    interp.method_raises['parseString'] = ['pyparsing.ParseException']
    interp.method_raises['parse_string'] = ['pyparsing.ParseException']
    interp.call_raises['[]'] = ['IndexError']
    from .c18 import _rebind_parse_action
    for n in ('setParseAction', 'set_parse_action', 'addParseAction',
              'add_parse_action'):
        interp.rebind_methods[n] = _rebind_parse_action
    from .c18 import install_configurators
    install_configurators(interp)


def _split_by_commas(ctx):
    rep, world = ctx.report, ctx.world
    f = world.func(MOD, 'split_by_commas')
    rep.analysed('strutils.split_by_commas')
    value = T('sym', 'value')

    def thunk(interp):
        return interp.call(f, [value])

    def setup(interp):
        interp.types[value] = 'str'
        _pp_setup(interp)
    outcomes, _i = extract(world, thunk, setup=setup)
    alphabet = ('a', 'b', ',', '"', '\\', ' ', 'a b', 'x,y', '', 'ab',
                'a,,b', ',,', 'a\\"b', '\\"', '"\\', '\\\\"')
    cases = {}
    for n in (1, 2, 3):
        for items in itertools.product(alphabet, repeat=n):
            if n == 3 and len(set(items)) == 3 and ',' not in items:
                continue
            items = [i for i in items]
            if any(i == '' for i in items):
                # an empty item can only be written quoted; the property
                # speaks of items (non-empty); skip
                continue
            if any(i != i.strip() or i.strip() == '' for i in items):
                # leading/trailing blanks only survive inside quotes: they
                # are quoted by quote(), fine
                pass
            cases[','.join(quote(i) for i in items)] = ('return', items)
    import string
    for c in string.punctuation + string.digits + 'zZ':
        if c in ',"':
            continue
        # every other printable character may appear in a bare item
        cases['x%sy' % c] = ('return', ['x%sy' % c])
        cases['%s,q' % c] = ('return', [c, 'q'])
        cases['q,"a b",%s%s' % (c, c)] = ('return', ['q', 'a b', c + c])
    for bad in ('a,', ',a', 'a,,b', '"a', 'a"b', '"a"b', 'a b', '', ',',
                ' ', '  ', '\t', '\n',
                '"a",', 'a,"b', '"a""b"', 'a,b"'):
        cases[bad] = ('raise', 'ValueError')
    grid = tuple(cases)

    def oracle(v):
        return cases[v['value']]
    grid_compare(rep, 'R19.2', 'split_by_commas', 'joined item lists and '
                 'malformed quoting', outcomes, {value: grid}, oracle,
                 hooks=[_pp_hook, _pa_hook],
                 value_eq=lambda g, w: list(g) == list(w))


def run(ctx):
    rep = ctx.report
    rep.explanation = (
        'split_path is extracted for every (minsegs, maxsegs, '
        'rest_with_last) configuration of the quantifier with the path '
        'symbolic (str.split / len / slices / in-place extend kept as '
        'terms) and compared with a reference written from the statement on '
        '~700 paths of 0..5 segments over {plain, empty, dotted, spaced} '
        'with and without leading / trailing slashes.  split_by_commas is '
        'extracted with the pyparsing constructors symbolic; the grammar '
        'term is instantiated with the installed pyparsing and evaluated on '
        'joined item lists (items over the quoting characters) and on '
        'malformed quoting.  pyparsing itself is trusted.')
    rep.rule('R19.1', 'split_path returns exactly maxsegs entries (leading '
             'segments padded with None) for admissible paths and raises '
             'ValueError for every other path and for minsegs > maxsegs')
    rep.rule('R19.2', 'split_by_commas inverts comma-joining with '
             'double-quote / backslash escaping and rejects malformed '
             'quoting and empty unquoted items with ValueError')
    _split_path(ctx)
    _split_by_commas(ctx)
    _history(ctx)


def _history(ctx):
    from ..core.table import history_family
    rep, world = ctx.report, ctx.world
    rep.rule('R19.5', 'no state between calls: a path / list is split the '
             'same whatever was split before (with other bounds, by the '
             'sibling function)')
    funcs = {n: world.func(MOD, n) for n in ('split_path',
                                             'split_by_commas')}
    s, c = 'split_path', 'split_by_commas'
    pairs = [
        ((s, ['/a/c/o', 1, 3, True], {}), (s, ['/a/c/o', 1, 3, False], {})),
        ((s, ['/a/c/o', 1, 3], {}), (s, ['/a/c/o', 1, 2], {})),
        ((s, ['/a/c/o/x', 1, 3, True], {}),
         (s, ['/a/c/o/x', 1, 3, False], {})),
        ((s, ['/a/c/o/x', 1, 3, False], {}),
         (s, ['/a/c/o/x', 1, 3, True], {})),
        ((s, ['/a', 1, 1], {}), (s, ['/a', 2, 2], {})),
        ((s, ['/a/c', 2, 2], {}), (s, ['/a/c'], {})),
        ((s, ['/a/c'], {}), (s, ['/a/c/'], {})),
        ((c, ['a,b'], {}), (c, ['a,"b,c"'], {})),
        ((c, ['"a"'], {}), (c, ['a'], {})),
        ((c, ['a,'], {}), (c, ['a'], {})),
        ((s, ['/a,b'], {}), (c, ['/a,b'], {})),
    ]
    n = history_family(rep, 'R19.5', 'splitters[after an earlier call]',
                       world, funcs, pairs, setup=_pp_setup)
    rep.count('call histories decided', n, floor=len(pairs))
