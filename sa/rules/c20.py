"""C20 - file helpers: errno decision tables, checksum loop dataflow,
last_bytes seek/tell/read order, write_to_tempfile event order."""
import errno

from ..core.absint import AbsRaise
from ..core.loader import AnalysisError
from ..core.models import lin, _ladd
from ..core.table import extract, grid_compare, inexact_notes
from ..core.termeval import ev
from ..core.values import K, T, Obj, TupleV, AbsFunc, ExtRef, show

MOD = 'fileutils'
ERRNO = T('sym', 'errno')
RAISES = T('sym', 'fails')
ISDIR = T('call', 'os.path.isdir', T('sym', 'path'))
ERRNOS = (errno.EEXIST, errno.ENOENT, errno.EINVAL, errno.EACCES,
          errno.ENOTDIR, errno.EISDIR, errno.EPERM, errno.EROFS,
          errno.ENOSPC, errno.EBUSY, errno.ELOOP, errno.ENAMETOOLONG,
          errno.ENOTEMPTY, errno.EIO, 0, None)


def _failing(names, holder, count=None):
    """on_call hook: the named external calls fail with an injected OSError
    whose errno is the symbol ERRNO when the symbol RAISES holds."""
    def hook(interp, name, f, args, kwargs):
        if name in names:
            if count is not None:
                holder['n'] = holder.get('n', 0) + 1
                if holder['n'] > count:
                    return NotImplemented
            interp.effect('call', name, tuple(interp.termify(a)
                                              for a in args))
            if interp.truth(RAISES):
                exc = Obj(None, {'errno': ERRNO, '__class_name__': 'OSError'},
                          label='injected-OSError')
                holder['exc'] = exc
                raise AbsRaise(exc)
            interp.fresh_n += 1
            return T('ret', name, interp.fresh_n)
        return NotImplemented
    return hook


# what the path names when the call is made: the stat-family predicates of
# the source are answered from this one abstract fact
KIND = T('sym', 'path_kind')
KINDS = ('directory', 'regular file', 'link to a directory',
         'link to a file', 'dangling link', 'nothing')
_FOLLOW = {'directory': 'dir', 'regular file': 'file',
           'link to a directory': 'dir', 'link to a file': 'file',
           'dangling link': None, 'nothing': None}
_NOFOLLOW = {'directory': 'dir', 'regular file': 'file',
             'link to a directory': 'link', 'link to a file': 'link',
             'dangling link': 'link', 'nothing': None}
_FS_CALLS = {'os.path.isdir': lambda k: _FOLLOW[k] == 'dir',
             'os.path.isfile': lambda k: _FOLLOW[k] == 'file',
             'os.path.exists': lambda k: _FOLLOW[k] is not None,
             'os.path.lexists': lambda k: _NOFOLLOW[k] is not None,
             'os.path.islink': lambda k: _NOFOLLOW[k] == 'link'}
_MODE_TESTS = {'stat.S_ISDIR': 'dir', 'stat.S_ISREG': 'file',
               'stat.S_ISLNK': 'link'}


KIND_BEFORE = T('sym', 'path_kind_before_the_call')


def _fs_model(inner, holder=None, acting=()):
    """on_call hook answering stat-family questions about ``path`` from
    KIND; everything else goes to *inner*.  Questions asked before the
    acting call (makedirs / remove) are answered from KIND_BEFORE: what the
    path names may change in between (the call itself, another process)."""
    def hook(interp, name, f, args, kwargs):
        if name in acting and holder is not None:
            holder['acted'] = True
        kind = KIND
        if acting and holder is not None and not holder.get('acted'):
            kind = KIND_BEFORE
        if name in _FS_CALLS:
            t = T('fs', name, kind)
            interp.types[t] = 'bool'
            return t
        if name in ('os.stat', 'os.lstat'):
            follow = name == 'os.stat' and \
                kwargs.get('follow_symlinks', K(True)) != K(False)
            return Obj(None, {'st_mode': T('fs', 'mode', K(follow), kind)},
                       label='stat_result')
        if name in _MODE_TESTS and args:
            t = T('fs', name, interp.termify(args[0]))
            interp.types[t] = 'bool'
            return t
        return inner(interp, name, f, args, kwargs)
    return hook


def _fs_hook(v, val):
    if isinstance(v, T) and v.op == 'fs':
        if v.args[0] in _FS_CALLS:
            return _FS_CALLS[v.args[0]](val[v.args[1]])
        if v.args[0] == 'mode':
            table = _FOLLOW if v.args[1].v else _NOFOLLOW
            return ('mode', table[val[v.args[2]]])
        if v.args[0] in _MODE_TESTS:
            m = ev(v.args[1], val, [_fs_hook])
            return isinstance(m, tuple) and m[1] == _MODE_TESTS[v.args[0]]
    return NotImplemented


def _same_exception(rep, rule, key, outcomes):
    """every propagating error is the injected object itself."""
    for o in outcomes:
        if o.kind == 'raise':
            ok = isinstance(o.value, Obj) and \
                o.value.label == 'injected-OSError'
            rep.check(rule, key + ':identity', ok,
                      'a path raises %s instead of re-raising the error '
                      'it caught' % show(o.value))


def run(ctx):
    rep, world = ctx.report, ctx.world
    rep.explanation = (
        'ensure_tree / delete_if_exists on an abstract path whose kind '
        '(missing, file, directory) before and after the failing call is '
        'symbolic and whose failing call raises an OSError with symbolic '
        'errno: the decision table is compared with the one the property '
        'states.  last_bytes on an abstract positioned file (seek moves and '
        'returns the position, tell reports it, read hands out the bytes '
        'from it): what is compared is where the returned data starts and '
        'the reported count, as linear forms in size and num, not the calls '
        'that produced them.  compute_file_checksum with scripted reads; '
        'write_to_tempfile on abstract os / tempfile effects with a failing '
        'write.  File-system behaviour itself is not decided.')
    rep.rule('R20.1', 'error table: swallow exactly "already exists and is '
             'a directory" (ensure_tree), "does not exist" (delete_if_exists)'
             ', EINVAL on the first seek -> start of the file (last_bytes); '
             'every other error propagates as the same object')
    rep.rule('R20.2', 'checksum loop: every value produced by '
             'f.read(read_chunksize) reaches checksum.update unmodified '
             'exactly once, loop ends only on the empty sentinel, the digest '
             'object created by hashlib.new(algorithm) is the one finalised')
    rep.rule('R20.3', 'last_bytes: the data returned is everything from '
             'size - num (0 after EINVAL) to the end of the file, the second '
             'element is that position, the file is closed on every path')
    rep.rule('R20.4', 'write_to_tempfile: missing directories created before '
             'mkstemp when a path is given; mkstemp(dir=path) is the file '
             'source; the whole content reaches the descriptor; the '
             'descriptor is closed exactly once on every path (os.close or a '
             'file object wrapped around it)')
    _ensure_tree(ctx)
    _history(ctx)
    _delete_if_exists(ctx)
    _last_bytes(ctx)
    _checksum(ctx)
    _tempfile(ctx)


def _ensure_tree(ctx):
    rep, world = ctx.report, ctx.world
    f = world.func(MOD, 'ensure_tree')
    rep.analysed('fileutils.ensure_tree')
    holder = {}

    def thunk(interp):
        holder.clear()
        return interp.call(f, [T('sym', 'path')])

    def setup(interp):
        interp.on_call = _fs_model(_failing({'os.makedirs'}, holder),
                                   holder, acting=('os.makedirs',))

    outcomes, _i = extract(world, thunk, setup=setup)

    def oracle(v):
        if not v['fails']:
            return ('return', None)
        if v['errno'] == errno.EEXIST and v['path_kind'] in (
                'directory', 'link to a directory'):
            return ('return', None)
        return ('raise', 'OSError')
    grid_compare(rep, 'R20.1', 'ensure_tree', 'os.makedirs outcome x errno '
                 'x what the path names', outcomes,
                 {RAISES: (False, True), ERRNO: ERRNOS, KIND: KINDS,
                  KIND_BEFORE: ('nothing', 'directory', 'regular file')},
                 oracle, hooks=[_fs_hook])
    _same_exception(rep, 'R20.1', 'ensure_tree', outcomes)
    for o in outcomes:
        mk = o.calls('os.makedirs')
        rep.check('R20.1', 'ensure_tree:makedirs', len(mk) == 1 and
                  mk[0][2][0] == T('sym', 'path'),
                  'os.makedirs is called once with the path (calls: %s)' %
                  [show(T('c', *c[2])) for c in mk])


def _history(ctx):
    """The file system is asked on every call: nothing a call learned is
    remembered for the next one (the directory may have been removed, the
    file re-created in between)."""
    from ..core.table import history_compare
    rep, world = ctx.report, ctx.world
    rep.rule('R20.6', 'ensure_tree / delete_if_exists act on the file system '
             'on every call: an earlier call for the same (or another) path '
             'changes neither the result nor the calls made')

    def setup(interp):
        def hook(interp, name, f, args, kwargs):
            if name in ('os.makedirs', 'os.unlink', 'os.remove', 'os.mkdir'):
                interp.effect('call', name, tuple(interp.termify(a)
                                                  for a in args))
                return K(None)
            return NotImplemented
        interp.on_call = _fs_model(hook)

    def acts(e):
        return e[0] == 'call' and e[1] in (
            'os.makedirs', 'os.unlink', 'os.remove', 'os.mkdir')
    for name in ('ensure_tree', 'delete_if_exists'):
        f = world.func(MOD, name)
        for p1, p2 in (('/var/lib/x', '/var/lib/x'), ('/var/lib/x', '/var'),
                       ('/a', '/b')):
            history_compare(
                rep, 'R20.6', '%s[after an earlier call]' % name, world,
                lambda i, f=f: f, ([K(p1)], {}), ([K(p2)], {}), setup=setup,
                label='%s(%r) then %s(%r)' % (name, p1, name, p2),
                effects=acts)


def _delete_if_exists(ctx):
    rep, world = ctx.report, ctx.world
    f = world.func(MOD, 'delete_if_exists')
    rep.analysed('fileutils.delete_if_exists')
    for variant in ('custom remove', 'default remove'):
        holder = {}

        def remove(interp, args, kwargs):
            interp.effect('call', 'remove', tuple(interp.termify(a)
                                                  for a in args))
            if interp.truth(RAISES):
                exc = Obj(None, {'errno': ERRNO,
                                 '__class_name__': 'OSError'},
                          label='injected-OSError')
                raise AbsRaise(exc)
            return K(None)

        def thunk(interp):
            if variant == 'custom remove':
                return interp.call(f, [T('sym', 'path'),
                                       AbsFunc('remove', remove)])
            return interp.call(f, [T('sym', 'path')])

        def setup(interp):
            interp.on_call = _fs_model(
                _failing({'os.unlink', 'os.remove'}, holder))

        outcomes, _i = extract(world, thunk, setup=setup)

        def oracle(v):
            if v['fails'] and v['errno'] != errno.ENOENT:
                return ('raise', 'OSError')
            return ('return', None)
        key = 'delete_if_exists[%s]' % variant
        grid_compare(rep, 'R20.1', key, 'remove outcome x errno x what the '
                     'path names', outcomes,
                     {RAISES: (False, True), ERRNO: ERRNOS, KIND: KINDS},
                     oracle, hooks=[_fs_hook])
        _same_exception(rep, 'R20.1', key, outcomes)
        for o in outcomes:
            calls = [c for c in o.effects if c[0] == 'call' and
                     c[1] in ('remove', 'os.unlink', 'os.remove')]
            rep.check('R20.1', key + ':remove-called', len(calls) == 1 and
                      calls[0][2] and calls[0][2][0] == T('sym', 'path'),
                      'the remove function is called exactly once with the '
                      'path')


def _last_bytes(ctx):
    """The file is an abstract object with a position: seek() moves and
    returns it, tell() reports it, read() hands out the bytes from it to the
    end.  The first seek may fail with an injected OSError (errno symbolic);
    what is compared is the data position and the reported count, whatever
    calls produced them."""
    from ..core.models import binop
    import ast as _ast
    rep, world = ctx.report, ctx.world
    f = world.func(MOD, 'last_bytes')
    rep.analysed('fileutils.last_bytes')
    num, SIZE = T('sym', 'num'), T('sym', 'size')
    holder = {}

    def add(interp, a, b):
        return binop(interp, _ast.Add(), a, b)

    def hook(interp, name, fv, args, kwargs):
        if name != 'open':
            return NotImplemented
        interp.effect('call', 'open', tuple(interp.termify(a) for a in args))
        st = {'pos': K(0), 'seeks': 0, 'closed': False}
        holder['st'] = st
        fobj = Obj(None, {}, label='file')

        def seek(i2, a, kw):
            off = a[0]
            whence = a[1] if len(a) > 1 else kw.get('whence', K(0))
            st['seeks'] += 1
            i2.effect('call', '.seek', (i2.termify(off), i2.termify(whence)))
            if st['seeks'] == 1 and i2.truth(RAISES):
                exc = Obj(None, {'errno': ERRNO, '__class_name__': 'OSError'},
                          label='injected-OSError')
                raise AbsRaise(exc)
            if whence == K(2):
                st['pos'] = add(i2, SIZE, off)
            elif whence == K(1):
                st['pos'] = add(i2, st['pos'], off)
            elif whence == K(0):
                st['pos'] = off
            else:
                i2.inexact('seek with whence %s' % show(whence))
            return st['pos']

        def read(i2, a, kw, name_='read'):
            n = a[0] if a else K(-1)
            i2.effect('call', '.' + name_, tuple(i2.termify(x) for x in a))
            whole = name_ == 'read' and isinstance(n, K) and (
                n.v is None or (isinstance(n.v, int) and n.v < 0))
            t = T('filedata', i2.termify(st['pos']),
                  K('to the end') if whole else T('upto', i2.termify(n),
                                                  K(name_)))
            i2.types[t] = 'bytes'
            if whole:
                st['pos'] = SIZE
            return t

        def close(i2, a, kw):
            st['closed'] = True
            i2.effect('call', '.close', ())
            return K(None)
        fobj.fields['seek'] = AbsFunc('seek', seek)
        fobj.fields['tell'] = AbsFunc('tell', lambda i2, a, kw: (
            i2.effect('call', '.tell', ()), st['pos'])[1])
        fobj.fields['read'] = AbsFunc('read', read)
        for other in ('read1', 'readline', 'readinto', 'peek'):
            fobj.fields[other] = AbsFunc(
                other, lambda i2, a, kw, o=other: read(i2, a, kw, o))
        fobj.fields['close'] = AbsFunc('close', close)
        fobj.fields['__enter__'] = AbsFunc('__enter__',
                                           lambda i2, a, kw: fobj)
        fobj.fields['__exit__'] = AbsFunc(
            '__exit__', lambda i2, a, kw: (close(i2, [], {}), K(False))[1])
        return fobj

    def thunk(interp):
        holder.clear()
        return interp.call(f, [T('sym', 'path'), num])

    def capture(interp):
        return dict(holder.get('st', {}))

    def setup(interp):
        interp.on_call = hook
        interp.types[num] = 'int'
        interp.types[SIZE] = 'int'

    outcomes, _i = extract(world, thunk, setup=setup, capture=capture)
    notes = inexact_notes(outcomes)
    if notes:
        rep.undecided('R20.3', 'last_bytes', 'inexact: %s' % notes)
        return
    rep.count('last_bytes paths', len(outcomes), floor=1)
    for o in outcomes:
        assumed = dict(o.assumptions)
        fails = bool(assumed.get(RAISES))
        einval = None
        for t, b in o.assumptions:
            if isinstance(t, T) and t.op == 'cmp' and t.args[1] == ERRNO \
                    and t.args[2] == K(errno.EINVAL):
                einval = b
        label = 'first seek %s%s' % (
            'fails' if fails else 'succeeds',
            '' if not fails else ' with errno %s EINVAL' % (
                '==' if einval else '!='))
        names = [e[1] for e in o.effects if e[0] == 'call']
        rep.case({'case': label, 'events': names, 'outcome': o.brief()},
                 ('last_bytes', label, tuple(names), o.kind))
        st = o.state or {}
        rep.check('R20.3', 'last_bytes:closed', bool(st.get('closed')),
                  '%s: the file is closed when the function is left' % label)
        if fails and not einval:
            rep.check('R20.1', 'last_bytes:reraise',
                      o.kind == 'raise' and isinstance(o.value, Obj) and
                      o.value.label == 'injected-OSError',
                      '%s: the error propagates as the same object; found '
                      '%s' % (label, o.brief()))
            continue
        want = (0, {}) if fails else (0, {SIZE: 1, num: -1})
        v = o.value
        ok = o.kind == 'return' and isinstance(v, TupleV) and \
            len(v.items) == 2
        data = v.items[0] if ok else None
        ok_data = ok and isinstance(data, T) and data.op == 'filedata' and \
            data.args[1] == K('to the end') and _lin0(data.args[0]) == want
        ok_count = ok and _lin0(v.items[1]) == want
        what = 'the start of the file' if fails else 'size - num'
        rep.check('R20.3', 'last_bytes:data[%s]' % label, bool(ok_data),
                  '%s: the data returned is everything from %s to the end of '
                  'the file; found %s' % (label, what,
                                          show(data) if ok else o.brief()))
        rep.check('R20.3', 'last_bytes:count[%s]' % label, bool(ok_count),
                  '%s: the second element is the number of bytes before that '
                  'point (%s); found %s' % (
                      label, what, show(v.items[1]) if ok else o.brief()))


def _lin0(t):
    if isinstance(t, K) and isinstance(t.v, int) and \
            not isinstance(t.v, bool):
        return (t.v, {})
    r = lin(t) if isinstance(t, T) else None
    if r is None:
        return None
    return (r[0], {k: c for k, c in r[1].items() if c})


def _checksum(ctx):
    """The file object is scripted: read() returns chunk0..chunk(n-1) and
    then b''.  Whatever the loop looks like, the digest must be updated with
    exactly those chunks, in order, and the digest created by
    hashlib.new(algorithm) must be the one finalised."""
    rep, world = ctx.report, ctx.world
    f = world.func(MOD, 'compute_file_checksum')
    rep.analysed('fileutils.compute_file_checksum')
    size, algo = T('sym', 'read_chunksize'), T('sym', 'algorithm')
    for n in (0, 1, 2, 3, 5):
        st = {}

        def hook(interp, name, fv, args, kwargs):
            if name == '.read':
                k = st.get('k', 0)
                st['k'] = k + 1
                interp.effect('call', '.read', tuple(interp.termify(a)
                                                     for a in args))
                if k >= n:
                    return K(b'')
                c = T('sym', 'chunk%d' % k)
                interp.types[c] = 'bytes'
                return c
            return NotImplemented

        def thunk(interp):
            st.clear()
            return interp.call(f, [T('sym', 'path'), size, algo])

        def setup(interp):
            interp.on_call = hook
            interp.concrete_iter2 = True
            interp.decide = lambda i, t: _chunk_truth(t)
        old = world.loop_bound
        world.loop_bound = 10
        try:
            outcomes, _i = extract(world, thunk, setup=setup)
        finally:
            world.loop_bound = old
        label = '%d chunks' % n
        key = 'compute_file_checksum'
        notes = inexact_notes(outcomes)
        if notes or len(outcomes) != 1 or outcomes[0].kind != 'return':
            rep.undecided('R20.2', key, '%s: %d paths %s %s' % (
                label, len(outcomes), notes, [o.brief()[:60]
                                              for o in outcomes][:2]))
            continue
        o = outcomes[0]
        reads = o.calls('.read')
        rep.check('R20.2', key + ':source[%s]' % label,
                  len(reads) == n + 1 and all(r[2][-1] == size
                                              for r in reads),
                  'the file is read with read(read_chunksize) until the '
                  'empty result (%d reads: %s)' % (
                      len(reads), [show(T('a', *r[2][1:])) for r in reads]))
        news = o.calls('hashlib.new')
        rep.check('R20.2', key + ':digest-object[%s]' % label,
                  len(news) == 1 and news[0][2] == (algo,),
                  'one hashlib.new(algorithm) call')
        updates = o.calls('.update')
        want = [T('sym', 'chunk%d' % i) for i in range(n)]
        got = [u[2][1] if len(u[2]) == 2 else None for u in updates]
        rep.check('R20.2', key + ':update[%s]' % label, got == want,
                  'with %s the digest is updated with exactly those chunks '
                  'in order; found %s' % (label, [show(g) for g in got]),
                  case=label)
        objs = set(u[2][0] for u in updates)
        v = o.value
        fin = isinstance(v, T) and v.op == 'ret' and \
            v.args[0] == '.hexdigest'
        same = fin and (not objs or objs == {v.args[2]}) and \
            isinstance(v.args[2], T) and v.args[2].op == 'ret' and \
            v.args[2].args[0] == 'hashlib.new'
        rep.check('R20.2', key + ':finalise[%s]' % label, bool(same),
                  'hexdigest() of the object created by hashlib.new and '
                  'updated in the loop is returned; found %s' % show(v))
        rep.case({'case': label, 'updates': [show(g) for g in got]},
                 ('checksum', n))


def _chunk_truth(t):
    """chunk symbols are non-empty byte strings."""
    if isinstance(t, T) and t.op == 'sym' and \
            str(t.args[0]).startswith('chunk'):
        return True
    if isinstance(t, T) and t.op == 'cmp' and t.args[0] == '==' and \
            isinstance(t.args[1], T) and t.args[1].op == 'sym' and \
            str(t.args[1].args[0]).startswith('chunk') and \
            t.args[2] == K(b''):
        return False
    return None


def _tempfile(ctx):
    rep, world = ctx.report, ctx.world
    f = world.func(MOD, 'write_to_tempfile')
    rep.analysed('fileutils.write_to_tempfile')
    content = T('sym', 'content')
    WRITE_FAILS = T('sym', 'write_fails')
    for with_path in (False, True, ''):
        # '' is tempfile's spelling of "the current directory": nothing to
        # create (os.makedirs('') fails)
        path = T('sym', 'dir') if with_path else K(None if with_path is False
                                                   else '')

        def hook(interp, name, fv, args, kwargs):
            if name == 'os.write':
                interp.effect('call', name, tuple(interp.termify(a)
                                                  for a in args))
                if interp.truth(WRITE_FAILS):
                    raise AbsRaise(Obj(None, {'__class_name__': 'OSError'},
                                       label='injected-OSError'))
                return T('sym', 'written')
            if name == 'os.fdopen' and args:
                # a file object wrapped around the descriptor: its write()
                # and close() are the same events as os.write / os.close
                fd_ = args[0]
                fobj = Obj(None, {}, label='fdopen-file')
                st = {'closed': False}

                def write(i2, a, kw):
                    return hook(i2, 'os.write', None, [fd_] + list(a), {})

                def close(i2, a, kw):
                    if not st['closed']:
                        st['closed'] = True
                        i2.effect('call', 'os.close', (i2.termify(fd_),))
                    return K(None)

                def leave(i2, a, kw):
                    close(i2, [], {})
                    return K(False)
                fobj.fields['write'] = AbsFunc('write', write)
                fobj.fields['close'] = AbsFunc('close', close)
                fobj.fields['flush'] = AbsFunc('flush',
                                               lambda i2, a, kw: K(None))
                fobj.fields['__enter__'] = AbsFunc(
                    '__enter__', lambda i2, a, kw: fobj)
                fobj.fields['__exit__'] = AbsFunc('__exit__', leave)
                return fobj
            return NotImplemented

        def thunk(interp):
            return interp.call(f, [content], {'path': path})

        def setup(interp):
            interp.on_call = hook
            interp.types[content] = 'bytes'
            interp.not_none[T('sym', 'dir')] = True
            interp.decide = lambda i, t: True if t == T('sym', 'dir') \
                else None

        outcomes, _i = extract(world, thunk, setup=setup)
        key = 'write_to_tempfile[path %s]' % (
            'given' if with_path else 'None' if with_path is False
            else "''")
        notes = inexact_notes(outcomes, allow=('symbolic iteration bounded',))
        if notes:
            rep.undecided('R20.4', key, 'inexact: %s' % notes)
            continue
        for o in outcomes:
            names = [e[1] for e in o.effects if e[0] == 'call']
            wf = dict(o.assumptions).get(WRITE_FAILS)
            label = '%s, os.write %s' % (key, 'fails' if wf else 'succeeds')
            rep.case({'case': label, 'events': names}, (label,
                                                        tuple(names)))
            mk = o.calls('tempfile.mkstemp')
            rep.check('R20.4', key + ':mkstemp', len(mk) == 1,
                      'the file is created by exactly one tempfile.mkstemp '
                      'call (fresh name)')
            if len(mk) != 1:
                continue
            kw = {a.args[0]: a.args[1] for a in mk[0][2]
                  if isinstance(a, T) and a.op == 'kw'}
            rep.check('R20.4', key + ':mkstemp-dir', kw.get('dir') == path,
                      'mkstemp receives dir=path (found %s)' %
                      show(kw.get('dir')))
            if with_path:
                i_mkdirs = names.index('os.makedirs') \
                    if 'os.makedirs' in names else -1
                i_mk = names.index('tempfile.mkstemp')
                mkd = o.calls('os.makedirs')
                rep.check('R20.4', key + ':ensure_tree-first',
                          0 <= i_mkdirs < i_mk and mkd[0][2][0] == path,
                          'missing directories are created (os.makedirs on '
                          'the path) before mkstemp: %s' % names)
            else:
                rep.check('R20.4', key + ':no-makedirs',
                          'os.makedirs' not in names, 'no directory '
                          'creation without a path')
            fd = T('item', _ret_of(o, 'tempfile.mkstemp'), K(0))
            pth = T('item', _ret_of(o, 'tempfile.mkstemp'), K(1))
            closes = o.calls('os.close')
            rep.check('R20.4', key + ':close[%s]' % ('fail' if wf else 'ok'),
                      len(closes) == 1 and closes[0][2] == (fd,),
                      'os.close(fd) runs exactly once on this path (%s)'
                      % label)
            writes = o.calls('os.write')
            _check_writes(rep, key, writes, fd, content, wf, o)
            if o.kind == 'return':
                rep.check('R20.4', key + ':result', o.value == pth,
                          'returns the path produced by mkstemp; found %s'
                          % show(o.value))
            else:
                rep.check('R20.4', key + ':error', bool(wf) and
                          isinstance(o.value, Obj) and
                          o.value.label == 'injected-OSError',
                          'only the write error propagates')


def _ret_of(o, name):
    for e in o.effects:
        pass

    def find(v):
        if isinstance(v, T):
            if v.op == 'ret' and v.args[0] == name:
                return v
            for a in v.args:
                r = find(a)
                if r is not None:
                    return r
        elif isinstance(v, TupleV):
            for x in v.items:
                r = find(x)
                if r is not None:
                    return r
        return None
    for e in o.effects:
        for x in e[1:]:
            r = find(x) if not isinstance(x, tuple) else None
            if r is None and isinstance(x, tuple):
                for y in x:
                    r = find(y)
                    if r is not None:
                        break
            if r is not None:
                return r
    return find(o.value) if o.kind == 'return' else None


def _check_writes(rep, key, writes, fd, content, write_fails, o):
    """The bytes handed to os.write are the whole content."""
    if len(writes) == 1 and writes[0][2] == (fd, content):
        rep.check('R20.4', key + ':content', True,
                  'os.write(fd, content) with the unmodified content')
        return
    if not writes:
        empty_loop = any(
            isinstance(t, T) and t.op == 'len' and n == 0 and
            isinstance(t.args[0], T) and t.args[0].op == 'range' and
            T('call', 'len', content) in t.args[0].args
            for t, n in o.assumptions)
        rep.check('R20.4', key + ':content', empty_loop,
                  'the content is never written' if not empty_loop else
                  'chunked write: nothing to write for empty content')
        return
    # chunked writing: slices content[i:i+W] with i over range(0, len, S)
    for w in writes:
        a = w[2]
        if len(a) != 2 or a[0] != fd:
            rep.check('R20.4', key + ':content', False,
                      'os.write on something else than the mkstemp fd: %s'
                      % [show(x) for x in a])
            return
        d = a[1]
        if isinstance(d, T) and d.op == 'slice' and d.args[0] == content:
            lo, hi = d.args[1], d.args[2]
            if isinstance(lo, T) and lo.op == 'elem' and \
                    isinstance(lo.args[0], T) and lo.args[0].op == 'range':
                rng = lo.args[0].args
                step = rng[2] if len(rng) > 2 else K(1)
                ll, lh = lin(lo), lin(hi)
                width = _ladd(lh, ll, -1) if ll and lh else None
                if width is not None and not width[1] and \
                        isinstance(step, K) and rng[0] == K(0) and \
                        rng[1] == T('call', 'len', content):
                    if width[0] == step.v:
                        continue
                    rep.check('R20.4', key + ':content', False,
                              'chunked write: pieces of %d bytes every %d '
                              'bytes - the file does not hold exactly the '
                              'content' % (width[0], step.v))
                    return
        rep.undecided('R20.4', key + ':content',
                      'cannot decide that the written data %s is the whole '
                      'content' % show(d))
        return
    rep.check('R20.4', key + ':content', True,
              'chunked write covers the content without gap or overlap')
