"""Reference decoders written from the public on-disk format descriptions and
from the property statements (C02, C03, C07) - *not* from the analysed code.

Each ``spec_<format>(data)`` takes the complete stream and returns a Verdict:
match, complete, virtual size and the safety verdict the properties require.
Provenance: qcow2.txt (QEMU docs/interop), QED spec header, VHD footer
(Microsoft VHD spec 1.0), MS-VHDX section 2, VMDK 5.0 sparse extent header and
descriptor, VDI 1.1 header (as read by qemu block/vdi.c), ECMA-119 section 8.4,
UEFI 2.10 section 5 / MBR, LUKS1 on-disk format section 2.
"""
import struct
import uuid

KiB = 1024


class Verdict:
    def __init__(self, match, complete, size, safety, note=''):
        self.match = match          # bool
        self.complete = complete    # bool (after the whole stream + finish)
        self.size = size            # int | None (None: not specified)
        self.safety = safety        # 'ok' | ('fail', {names}) | 'refused'
        self.note = note

    def __repr__(self):
        return 'Verdict(match=%s, complete=%s, size=%s, safety=%s)' % (
            self.match, self.complete, self.size, self.safety)


def _safety(match, complete, failures):
    if not complete or not match:
        return 'refused'
    if failures:
        return ('fail', frozenset(failures))
    return 'ok'


def spec_raw(data):
    return Verdict(True, True, len(data), 'ok')


# ---------------------------------------------------------------- qcow2
QCOW_KNOWN_INCOMPAT = 0x0F          # bits 0..3 (dirty, corrupt, data file,
#                                     compression); bit 2 = external data file
QCOW_DATAFILE_BIT = 0x04


def spec_qcow2(data):
    complete = len(data) >= 512
    if not complete:
        return Verdict(False, False, 0, 'refused')
    match = data[:4] == b'QFI\xfb'
    if not match:
        return Verdict(False, True, 0, 'refused')
    version, = struct.unpack('>I', data[4:8])
    backing, = struct.unpack('>Q', data[8:16])
    size, = struct.unpack('>Q', data[24:32])
    incompat, = struct.unpack('>Q', data[72:80])
    fails = set()
    if backing != 0:
        fails.add('backing_file')
    if version == 2:
        pass
    elif version == 3:
        if incompat & ~QCOW_KNOWN_INCOMPAT:
            fails.add('unknown_features')
    else:
        fails.add('unknown_features')
    if incompat & QCOW_DATAFILE_BIT:
        fails.add('data_file')
    return Verdict(True, True, size, _safety(True, True, fails))


def spec_qed(data):
    complete = len(data) >= 512
    match = complete and data[:4] == b'QED\x00'
    return Verdict(match, complete, None,
                   _safety(match, complete, {'banned'}))


def spec_vhd(data):
    complete = len(data) >= 512
    match = data[:8] == b'conectix'
    size = 0
    if complete and match:
        size, = struct.unpack('>Q', data[40:48])
    return Verdict(match, complete, size, _safety(match, complete, set()))


def spec_vdi(data):
    complete = len(data) >= 512
    match = False
    size = 0
    if complete:
        sig, = struct.unpack('<I', data[0x40:0x44])
        match = sig == 0xbeda107f
        if match:
            size, = struct.unpack('<Q', data[0x170:0x178])
    return Verdict(match, complete, size, _safety(match, complete, set()))


def spec_iso(data):
    complete = len(data) >= 34 * KiB
    match = False
    size = 0
    if complete:
        match = data[32769:32774] in (b'CD001', b'NSR02', b'NSR03')
        if match and data[32768] == 1:
            blocks, = struct.unpack('<L', data[32768 + 80:32768 + 84])
            bs, = struct.unpack('<H', data[32768 + 128:32768 + 130])
            size = blocks * bs
    return Verdict(match, complete, size, _safety(match, complete, set()))


def spec_luks(data):
    complete = len(data) >= 592
    match = data[:6] == b'LUKS\xba\xbe'
    fails = set()
    size = None
    if complete:
        version, = struct.unpack('>H', data[6:8])
        payload, = struct.unpack('>I', data[104:108])
        size = len(data) - payload * 512
        if version != 1:
            fails.add('version')
    return Verdict(match, complete, size, _safety(match, complete, fails))


def spec_gpt(data):
    complete = len(data) >= 512
    if not complete:
        return Verdict(False, False, len(data), 'refused')
    sig, = struct.unpack('<H', data[510:512])
    is_fat = data[0x10] == 2 and data[0x15] == 0xF8
    match = sig == 0xAA55 and not is_fat
    ok = True
    valid = []
    found_gpt = False
    for i in range(4):
        pte = data[446 + 16 * i:446 + 16 * (i + 1)]
        boot = pte[0]
        chs_start = tuple(pte[1:4])
        ostype = pte[4]
        start_lba, = struct.unpack('<I', pte[8:12])
        if boot not in (0x00, 0x80):
            ok = False
        if ostype != 0:
            valid.append(i)
        if ostype == 0xEE:
            found_gpt = True
            if chs_start != (0, 2, 0) or start_lba != 1:
                ok = False
    if found_gpt and valid != [0]:
        ok = False
    if not valid:
        ok = False
    return Verdict(match, True, len(data),
                   _safety(match, True, set() if ok else {'mbr'}))


# ---------------------------------------------------------------- VHDX
METAREGION = uuid.UUID('8B7CA206-4790-4B9A-B8FE-575F050F886E')
VDS_ITEM = uuid.UUID('2FA54224-CD1B-4876-B211-5DBED83BF4B8')


def spec_vhdx(data):
    """-> Verdict; size None when the layout is outside what the property
    calls well-formed (then only match is specified)."""
    match = data[:8] == b'vhdxfile'
    hdr = 192 * KiB
    if len(data) < hdr + 64 * KiB:
        return Verdict(match, False, 0, 'refused')
    sig, _ck, count, _r = struct.unpack('<IIII', data[hdr:hdr + 16])
    if sig != 0x69676572 or count >= 2048:
        return Verdict(match, None, None, None, 'malformed region table')
    meta_off = None
    for i in range(count):
        e = data[hdr + 16 + 32 * i: hdr + 48 + 32 * i]
        if uuid.UUID(bytes_le=bytes(e[:16])) == METAREGION:
            meta_off, = struct.unpack('<Q', e[16:24])
            break
    if meta_off is None:
        return Verdict(match, True, 0, _safety(match, True, set()),
                       'no metadata region entry')
    if meta_off < hdr + 64 * KiB or len(data) < meta_off + 64 * KiB:
        return Verdict(match, None, None, None, 'metadata region outside '
                       'the forward part of the stream')
    meta = data[meta_off:meta_off + 64 * KiB]
    msig, _r, mcount = struct.unpack('<8sHH', meta[:12])
    if msig != b'metadata' or mcount >= 2048:
        return Verdict(match, None, None, None, 'malformed metadata table')
    for i in range(mcount):
        e = meta[32 + 32 * i:64 + 32 * i]
        if uuid.UUID(bytes_le=bytes(e[:16])) == VDS_ITEM:
            off, ln, _f = struct.unpack('<III', e[16:28])
            pos = meta_off + off
            # the specification puts items behind the 64 KiB table area;
            # compact layouts (the repository's own tests use them) are
            # accepted as long as the item lies behind the table in use
            if off < 32 + 32 * mcount or ln != 8 or len(data) < pos + 8:
                return Verdict(match, None, None, None, 'virtual disk size '
                               'item outside the well-formed layout')
            size, = struct.unpack('<Q', data[pos:pos + 8])
            return Verdict(match, True, size,
                           _safety(match, True, set()))
    return Verdict(match, True, 0, _safety(match, True, set()),
                   'no virtual disk size item')


# ---------------------------------------------------------------- VMDK
GD_AT_END = 0xffffffffffffffff
SAFE_TYPES = ('monolithicsparse', 'streamoptimized')


def vmdk_descriptor_verdict(text):
    """Safety of a descriptor text per the property: -> set of failures."""
    low = text.lower()
    i = low.find('createtype="')
    ctype = None
    if i >= 0:
        j = low.find('"', i + len('createtype="'))
        if j >= 0 and j - (i + len('createtype="')) < 64:
            ctype = low[i + len('createtype="'):j]
    if ctype not in SAFE_TYPES:
        return {'descriptor'}, ctype
    extents = []
    for line in [x.strip() for x in low.split('\n')]:
        if not line or line.startswith('#'):
            continue
        if line.startswith('ddb'):
            continue
        if '=' in line and ' ' not in line.split('=')[0]:
            continue
        if line.split(' ')[0] in ('rw', 'rdonly', 'noaccess'):
            extents.append(line)
            continue
        return {'descriptor'}, ctype
    if not extents or any('/' in e for e in extents):
        return {'descriptor'}, ctype
    return set(), ctype


def spec_vmdk(data):
    """Sparse-extent VMDK (header 'KDMV'); text-only descriptors are handled
    by spec_vmdk_text."""
    if len(data) < 64:
        # too short to decide anything but the signature
        return Verdict(data[:4] == b'KDMV' if len(data) >= 4 else None,
                       False, 0, 'refused')
    (sig, ver, _flags, sectors, _grain, desc_sec, desc_num, _gtes, _rgd,
     gd) = struct.unpack('<4sIIQQQQIQQ', data[:64])
    if sig != b'KDMV':
        return Verdict(False, None, None, None, 'not a sparse extent')
    if ver not in (1, 2, 3) or desc_sec * 512 != 0x200:
        # the inspector refuses to go on: not complete, match by signature
        return Verdict(True, None, None, 'refused-or-error',
                       'unsupported version / descriptor location')
    dlen = min(desc_num * 512, (1 << 20) - 1)
    if len(data) < 512 + dlen or dlen == 0:
        return Verdict(True, None, None, None, 'descriptor truncated')
    desc = data[512:512 + dlen]
    z = desc.find(b'\x00')
    if z >= 0:
        desc = desc[:z]
    try:
        text = desc.decode('ascii')
    except UnicodeDecodeError:
        return Verdict(True, True, 0, ('fail', frozenset({'descriptor'})),
                       'descriptor not ASCII')
    fails, ctype = vmdk_descriptor_verdict(text)
    size = sectors * 512 if ctype in SAFE_TYPES else 0
    if gd == GD_AT_END:
        if len(data) < 1536:
            return Verdict(True, None, None, None, 'footer truncated')
        tail = data[-1536:]
        fval, fsize, ftype, fpad = struct.unpack('<QII496s', tail[:512])
        (fsig, fver, _a, _b, _c, fdesc_sec, fdesc_num, _d, _e,
         fgd) = struct.unpack('<4sIIQQQQIQQ', tail[512:576])
        eval_, esize, etype, epad = struct.unpack('<QII496s', tail[1024:])
        pad = b'\x00' * 496
        bad = (fsig != sig or fver != ver or fdesc_sec != desc_sec or
               fdesc_num != desc_num or fgd == GD_AT_END or fsize != 0 or
               ftype != 3 or fpad != pad or eval_ != 0 or esize != 0 or
               etype != 0 or epad != pad)
        if bad:
            fails = set(fails) | {'footer'}
    return Verdict(True, True, size, _safety(True, True, fails))


SPECS = {
    'raw': spec_raw, 'qcow2': spec_qcow2, 'qed': spec_qed, 'vhd': spec_vhd,
    'vhdx': spec_vhdx, 'vmdk': spec_vmdk, 'vdi': spec_vdi, 'iso': spec_iso,
    'gpt': spec_gpt, 'luks': spec_luks,
}
