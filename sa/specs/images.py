"""Image families built from the format layouts (see formats.py for the
provenance).  Every generator yields (label, bytes).  The families follow the
quantifiers of C02 / C03 / C07: safe / unsafe trait combinations, declared
sizes over each field's range, layout variation, truncations."""
import struct
import uuid

from .formats import METAREGION, VDS_ITEM, GD_AT_END

KiB = 1024
SIZES = (0, 1, 512, 2 ** 31 - 1, 2 ** 32 + 1, 2 ** 63, 2 ** 64 - 1,
         10 * 1024 * 1024)


def qcow2(version=3, backing=0, size=10 << 20, incompat=0, pad=b'\x00',
          magic=b'QFI\xfb', length=1024):
    h = bytearray(pad * length)[:length]
    h[0:4] = magic
    h[4:8] = struct.pack('>I', version)
    h[8:16] = struct.pack('>Q', backing)
    h[16:20] = struct.pack('>I', 0)
    h[20:24] = struct.pack('>I', 16)
    h[24:32] = struct.pack('>Q', size)
    h[72:80] = struct.pack('>Q', incompat)
    h[80:96] = b'\x00' * 16
    h[96:104] = struct.pack('>II', 4, 104)
    return bytes(h)


def gen_qcow2(thorough=False):
    yield 'qcow2 clean v3', qcow2()
    yield 'qcow2 clean v2', qcow2(version=2)
    for v in (0, 1, 4, 5, 2 ** 32 - 1):
        yield 'qcow2 version %d' % v, qcow2(version=v)
    for b in (1, 512, 2 ** 63, 2 ** 64 - 1, 1 << 32, 0x0100):
        yield 'qcow2 backing file at %d' % b, qcow2(backing=b)
        yield 'qcow2 v2 backing file at %d' % b, qcow2(version=2, backing=b)
    bits = range(64) if thorough else (0, 1, 2, 3, 4, 5, 7, 8, 15, 16, 31,
                                       32, 37, 56, 63)
    for bit in bits:
        yield 'qcow2 incompatible bit %d' % bit, qcow2(incompat=1 << bit)
    for m in (0x0B, 0x0F, 0x1B, 0x8000000000000003, 0x0300, 0xFF,
              0x0100000000000000):
        yield 'qcow2 incompatible mask %#x' % m, qcow2(incompat=m)
    # two traits at once: version x feature bits, backing file x bits
    for v in (2, 3):
        for m in (1 << 2, 1 << 5, (1 << 2) | 1, 1 << 63):
            yield 'qcow2 v%d incompatible mask %#x' % (v, m), qcow2(
                version=v, incompat=m)
        yield 'qcow2 v%d backing file and data-file bit' % v, qcow2(
            version=v, backing=512, incompat=1 << 2)
    for s in SIZES:
        yield 'qcow2 size %d' % s, qcow2(size=s, pad=b'\xa5')
    yield 'qcow2 truncated 511', qcow2()[:511]
    yield 'qcow2 truncated 100', qcow2()[:100]
    yield 'qcow2 exactly 512', qcow2(length=512)
    yield 'qcow2 wrong magic', qcow2(magic=b'QFI\xfa')


def gen_qed(thorough=False):
    yield 'qed', b'QED\x00' + b'\x00' * 1020
    yield 'qed nonzero', b'QED\x00' + b'\x5a' * 600
    yield 'qed truncated', (b'QED\x00' + b'\x00' * 1020)[:300]


def vhd(size=10 << 20, pad=b'\x00', length=1024):
    h = bytearray(pad * length)[:length]
    h[0:8] = b'conectix'
    h[40:48] = struct.pack('>Q', size)
    return bytes(h)


def gen_vhd(thorough=False):
    for s in SIZES:
        yield 'vhd size %d' % s, vhd(size=s, pad=b'\x11')
    for n in (0, 7, 8, 9, 40, 47, 48, 100, 511, 512):
        yield 'vhd truncated %d' % n, vhd()[:n]


def vdi(size=10 << 20, pad=b'\x00', length=1024, sig=0xbeda107f):
    h = bytearray(pad * length)[:length]
    h[0x40:0x44] = struct.pack('<I', sig)
    h[0x170:0x178] = struct.pack('<Q', size)
    return bytes(h)


def gen_vdi(thorough=False):
    for s in SIZES:
        yield 'vdi size %d' % s, vdi(size=s, pad=b'\x22')
    yield 'vdi wrong signature', vdi(sig=0xbeda107e)
    yield 'vdi byte-swapped signature', vdi(sig=0x7f10dabe)
    for n in (0, 0x40, 0x44, 0x170, 0x178, 511):
        yield 'vdi truncated %d' % n, vdi()[:n]


def iso(blocks=1000, bs=2048, dtype=1, ident=b'CD001', pad=b'\x00',
        length=40 * KiB):
    h = bytearray(pad * length)[:length]
    pvd = 32 * KiB
    h[pvd] = dtype
    h[pvd + 1:pvd + 6] = ident
    h[pvd + 6] = 1
    h[pvd + 80:pvd + 84] = struct.pack('<L', blocks)
    h[pvd + 84:pvd + 88] = struct.pack('>L', blocks)
    h[pvd + 128:pvd + 130] = struct.pack('<H', bs)
    h[pvd + 130:pvd + 132] = struct.pack('>H', bs)
    return bytes(h)


def gen_iso(thorough=False):
    for blocks in (0, 1, 1000, 2 ** 31 - 1, 2 ** 32 - 1):
        for bs in (512, 2048, 4096, 65535):
            yield 'iso %d blocks of %d' % (blocks, bs), iso(blocks, bs)
    yield 'iso udf NSR02', iso(ident=b'NSR02', dtype=0)
    yield 'iso udf NSR03', iso(ident=b'NSR03', dtype=0)
    yield 'iso supplementary descriptor', iso(dtype=2)
    yield 'iso wrong ident', iso(ident=b'CD002')
    yield 'iso exactly 34K', iso(length=34 * KiB)
    for n in (32 * KiB, 32 * KiB + 6, 34 * KiB - 1):
        yield 'iso truncated %d' % n, iso()[:n]


def luks(version=1, payload=4096, length=8192, pad=b'\x00',
         magic=b'LUKS\xba\xbe'):
    h = bytearray(pad * length)[:length]
    h[0:6] = magic
    h[6:8] = struct.pack('>H', version)
    h[8:40] = b'aes'.ljust(32, b'\x00')
    h[40:72] = b'xts-plain64'.ljust(32, b'\x00')
    h[72:104] = b'sha256'.ljust(32, b'\x00')
    h[104:108] = struct.pack('>I', payload)
    return bytes(h)


def gen_luks(thorough=False):
    for v in (0, 1, 2, 3, 255, 256, 0x7fff):
        yield 'luks version %d' % v, luks(version=v)
    for p in (0, 1, 8, 4096):
        for ln in (592, 4096, 8192):
            yield 'luks payload %d length %d' % (p, ln), luks(payload=p,
                                                              length=ln)
    yield 'luks wrong magic', luks(magic=b'LUKS\xba\xbf')
    for n in (0, 5, 6, 107, 108, 591):
        yield 'luks truncated %d' % n, luks()[:n]


def pte(boot=0, chs=(0, 2, 0), ostype=0, lba=1, sectors=0xffffffff):
    return struct.pack('<B3BB3BII', boot, chs[0], chs[1], chs[2], ostype,
                       0xff, 0xff, 0xff, lba, sectors)


def mbr(ptes, sig=0xAA55, length=2048, fat=False, pad=b'\x00'):
    h = bytearray(pad * length)[:length]
    for i in range(446, 510):
        h[i] = 0
    for i, p in enumerate(ptes[:4]):
        h[446 + 16 * i:462 + 16 * i] = p
    h[510:512] = struct.pack('<H', sig)
    if fat:
        h[0x10] = 2
        h[0x15] = 0xF8
    else:
        h[0x10] = 0
        h[0x15] = 0
    return bytes(h)


def gen_gpt(thorough=False):
    prot = pte(ostype=0xEE)
    yield 'gpt protective mbr', mbr([prot])
    yield 'mbr one linux partition', mbr([pte(boot=0x80, ostype=0x83,
                                              lba=2048)])
    yield 'mbr empty table', mbr([])
    for boot in (0x00, 0x80, 0x01, 0x7f, 0x81, 0xff):
        yield 'mbr boot flag %#x' % boot, mbr([pte(boot=boot, ostype=0x83)])
        yield 'mbr boot flag %#x on unused entry' % boot, mbr(
            [pte(ostype=0x83), pte(boot=boot, ostype=0)])
        yield 'gpt boot flag %#x on unused entry' % boot, mbr(
            [prot, pte(boot=boot, ostype=0)])
    for slot in range(4):
        t = [pte()] * 4
        t[slot] = prot
        yield 'gpt protective entry in slot %d' % slot, mbr(t)
    yield 'gpt protective plus extra', mbr([prot, pte(ostype=0x83)])
    yield 'gpt protective wrong chs', mbr([pte(ostype=0xEE, chs=(0, 1, 0))])
    yield 'gpt protective wrong lba', mbr([pte(ostype=0xEE, lba=2)])
    # every byte of the start CHS counts (also the two high bits of the
    # sector byte, which belong to the cylinder)
    for chs in ((1, 2, 0), (0, 2, 1), (0, 0x42, 0), (0, 0x82, 0),
                (0, 0xC2, 0), (0, 3, 0), (0, 0, 0), (0x80, 2, 0),
                (0, 2, 0x80), (0xfe, 0xff, 0xff), (2, 0, 0), (0, 0, 2)):
        yield 'gpt protective start chs %r' % (chs,), mbr(
            [pte(ostype=0xEE, chs=chs)])
    yield 'gpt two protective', mbr([prot, prot])
    types = (0, 0x83, 0xEE)
    if thorough:
        import itertools
        for combo in itertools.product(types, repeat=4):
            yield 'mbr types %s' % (combo,), mbr(
                [pte(ostype=t, lba=1 if t == 0xEE else 64) for t in combo])
    yield 'mbr wrong signature', mbr([prot], sig=0xAA54)
    yield 'mbr swapped signature', mbr([prot], sig=0x55AA)
    yield 'fat boot sector', mbr([pte(ostype=0x83)], fat=True)
    yield 'fat-like num_fats only', bytes(bytearray(mbr([prot]))[:0x10] +
                                          b'\x02' + bytearray(mbr([prot]))[
                                              0x11:])
    # boot-code bytes are irrelevant fields: only (2, 0xF8) at 0x10 / 0x15
    # makes the sector a FAT boot sector
    for nf, media in ((2, 0xF0), (2, 0xF9), (2, 0xFF), (2, 0x00), (1, 0xF8),
                      (3, 0xF8), (0xF8, 2)):
        for lbl, tbl in (('invalid boot flag', [pte(boot=0x7f,
                                                    ostype=0x83)]),
                         ('no partition', []),
                         ('clean', [prot])):
            b = bytearray(mbr(tbl))
            b[0x10], b[0x15] = nf, media
            yield 'mbr %s, boot code bytes (%d, 0x%02x)' % (lbl, nf,
                                                             media), bytes(b)
    for n in (0, 16, 21, 22, 446, 510, 511):
        yield 'mbr truncated %d' % n, mbr([prot])[:n]
    yield 'mbr exactly 512', mbr([prot], length=512)


def guid_le(u):
    return u.bytes_le


def vhdx(size=10 << 20, regions=None, meta_entries=None, meta_off=320 * KiB,
         item_off=64 * KiB, item_len=8, pads=0, meta_pads=0, regi=0x69676572,
         msig=b'metadata', ident=b'vhdxfile', length=None, fill=b'\x00'):
    length = length or max(meta_off + item_off + 4096,
                           meta_off + 64 * KiB + 4096)
    img = bytearray(fill * length)[:length]
    img[0:8] = ident
    hdr = 192 * KiB
    other = uuid.UUID('2DC27766-F623-4200-9D64-115E9BFD4A08')   # BAT
    if regions is None:
        regions = [(other, 1024 * KiB)] * pads + [(METAREGION, meta_off)]
    img[hdr:hdr + 16] = struct.pack('<IIII', regi, 0, len(regions), 0)
    for i, (g, off) in enumerate(regions):
        img[hdr + 16 + 32 * i:hdr + 48 + 32 * i] = guid_le(g) + \
            struct.pack('<QII', off, 1024 * KiB, 1)
    other_item = uuid.UUID('CAA16737-FA36-4D43-B3B6-33F0AA44E76B')
    if meta_entries is None:
        meta_entries = [(other_item, 65536 + 4096, 8)] * meta_pads + \
            [(VDS_ITEM, item_off, item_len)]
    if meta_off + 64 * KiB <= length:
        img[meta_off:meta_off + 12] = struct.pack('<8sHH', msig, 0,
                                                  len(meta_entries))
        for i, (g, off, ln) in enumerate(meta_entries):
            img[meta_off + 32 + 32 * i:meta_off + 64 + 32 * i] = \
                guid_le(g) + struct.pack('<III', off, ln, 0) + b'\x00' * 4
        pos = meta_off + item_off
        if pos + 8 <= length:
            img[pos:pos + 8] = struct.pack('<Q', size)
    return bytes(img)


def gen_vhdx(thorough=False):
    for s in (SIZES if thorough else (0, 1, 2 ** 32 + 1, 2 ** 64 - 1,
                                      10 << 20)):
        yield 'vhdx size %d' % s, vhdx(size=s)
    yield 'vhdx padded tables', vhdx(pads=1, meta_pads=1, fill=b'\x00')
    yield 'vhdx 2047 metadata entries', vhdx(meta_pads=2046)
    yield 'vhdx 2047 region entries', vhdx(pads=2046)
    if thorough:
        yield 'vhdx 2046 metadata entries', vhdx(meta_pads=2045)
        yield 'vhdx 2048 metadata entries', vhdx(meta_pads=2047)
        yield 'vhdx 2048 region entries', vhdx(pads=2047)
    yield 'vhdx metadata right after header', vhdx(meta_off=256 * KiB)
    yield 'vhdx metadata at 1MiB', vhdx(meta_off=1024 * KiB)
    yield 'vhdx item further away', vhdx(item_off=128 * KiB)
    # table order: the wanted entry first / in the middle, others after it
    bat = uuid.UUID('2DC27766-F623-4200-9D64-115E9BFD4A08')
    item = uuid.UUID('CAA16737-FA36-4D43-B3B6-33F0AA44E76B')
    yield 'vhdx metadata entry first', vhdx(
        size=555, regions=[(METAREGION, 320 * KiB), (bat, 1024 * KiB)])
    yield 'vhdx metadata entry in the middle', vhdx(
        size=556, regions=[(bat, 2048 * KiB), (METAREGION, 320 * KiB),
                           (bat, 1024 * KiB)])
    nil = uuid.UUID(int=0)
    yield 'vhdx nil entry before the metadata entry', vhdx(
        size=559, regions=[(bat, 1024 * KiB), (nil, 0),
                           (METAREGION, 320 * KiB)])
    yield 'vhdx nil entry first', vhdx(
        size=560, regions=[(nil, 0), (METAREGION, 320 * KiB)])
    yield 'vhdx nil metadata item before the size item', vhdx(
        size=561, meta_entries=[(nil, 0, 0), (VDS_ITEM, 64 * KiB, 8)])
    yield 'vhdx size item first', vhdx(
        size=557, meta_entries=[(VDS_ITEM, 64 * KiB, 8),
                                (item, 65536 + 4096, 8)])
    yield 'vhdx size item in the middle', vhdx(
        size=558, meta_entries=[(item, 65536 + 8192, 8),
                                (VDS_ITEM, 64 * KiB, 8),
                                (item, 65536 + 4096, 8)])
    # compact layouts (the size item lies inside the first 64 KiB of the
    # metadata region, right behind a short table)
    yield 'vhdx compact, item at 2048', vhdx(item_off=2048, size=777)
    yield 'vhdx compact, item at 256', vhdx(item_off=256, size=3 << 30)
    yield 'vhdx no metadata region', vhdx(regions=[])
    yield 'vhdx no size item', vhdx(meta_entries=[])
    yield 'vhdx bad region signature', vhdx(regi=0x69676573)
    yield 'vhdx bad metadata signature', vhdx(msig=b'metadatb')
    yield 'vhdx wrong ident', vhdx(ident=b'vhdxfilf')
    yield 'vhdx header only', vhdx()[:256 * KiB]
    yield 'vhdx truncated in header', vhdx()[:200 * KiB]
    yield 'vhdx ident only', vhdx()[:32]
    yield 'vhdx truncated ident', vhdx()[:7]


def vmdk_descriptor(ctype='monolithicSparse', lines=None, extents=None):
    head = ['# Disk DescriptorFile', 'version=1', 'CID=fffffffe',
            'parentCID=ffffffff', 'createType="%s"' % ctype, '',
            '# Extent description']
    if extents is None:
        extents = ['RW 20480 SPARSE "disk.vmdk"']
    tail = ['', '# The Disk Data Base', '#DDB', '',
            'ddb.virtualHWVersion = "4"', 'ddb.geometry.cylinders = "20"']
    return '\n'.join(head + extents + (lines or []) + tail) + '\n'


def vmdk(sectors=20480, ver=1, desc_sec=1, desc_num=2, gd=0, text=None,
         sig=b'KDMV', footer=None, length=None, fill=b'\x00', rgd=0):
    text = vmdk_descriptor() if text is None else text
    body = text.encode('latin-1') if isinstance(text, str) else text
    dlen = min(desc_num * 512, (1 << 20) - 1)
    length = length or max(512 + dlen + 1024, 4096)
    img = bytearray(fill * length)[:length]
    img[0:64] = struct.pack('<4sIIQQQQIQQ', sig, ver, 3, sectors, 128,
                            desc_sec, desc_num, 512, rgd, gd)
    img[64:512] = b'\x00' * 448
    img[512:512 + dlen] = (body + b'\x00' * dlen)[:dlen]
    if footer is not None:
        img += footer
    return bytes(img)


def vmdk_footer(sectors=20480, ver=1, desc_sec=1, desc_num=2, gd=1024,
                sig=b'KDMV', marker=(0, 0, 3), eos=(0, 0, 0), pad=b'\x00',
                tail=b'\x00' * 448):
    f = struct.pack('<QII', *marker) + pad * 496
    f += (struct.pack('<4sIIQQQQIQQ', sig, ver, 3, sectors, 128, desc_sec,
                      desc_num, 512, 0, gd) + tail)
    f += struct.pack('<QII', *eos) + pad * 496
    return f


def gen_vmdk(thorough=False):
    yield 'vmdk clean monolithicSparse', vmdk()
    yield 'vmdk clean streamOptimized', vmdk(
        text=vmdk_descriptor('streamOptimized'), ver=3)
    for s in (0, 1, 2 ** 32 + 1, 2 ** 55, 20480):
        yield 'vmdk capacity %d sectors' % s, vmdk(sectors=s)
    for ct in ('MONOLITHICSPARSE', 'StreamOptimized', 'monolithicFlat',
               'vmfs', 'twoGbMaxExtentSparse', 'custom', '',
               'monolithicSparse2', 'x' * 70):
        yield 'vmdk createType %r' % ct[:20], vmdk(text=vmdk_descriptor(ct))
    # descriptor locations that are 512 only modulo 2**64 (or 2**32) bytes
    for ds in (2 ** 55 + 1, 2 ** 63 + 1, 0xFF80000000000001, 2 ** 23 + 1,
               2 ** 32 + 1, 0, 2):
        yield 'vmdk descriptor at sector %#x' % ds, vmdk(desc_sec=ds)
    yield 'vmdk no createType', vmdk(
        text=vmdk_descriptor().replace('createType', 'createTyp'))
    for line in ('RW 100 FLAT "/etc/passwd" 0', 'RDONLY 100 SPARSE "a/b"',
                 'NOACCESS 5 ZERO', 'RWX 100 SPARSE "x.vmdk"',
                 'rdonly_parent 1 SPARSE "x"', 'WRONLY 100 SPARSE "x"',
                 'some unknown line', 'bad key=value', 'ddbx', 'ddb',
                 '   # indented comment', 'key=value', 'key = value',
                 'rw', 'RW'):
        yield 'vmdk extra line %r' % line, vmdk(
            text=vmdk_descriptor(lines=[line]))
        yield 'vmdk only extent %r' % line, vmdk(
            text=vmdk_descriptor(extents=[line]))
    # long descriptors: the interesting line lies beyond the first sector
    # (and beyond the first 4 KiB) of the descriptor
    for pad_lines, dn in ((12, 4), (80, 12)):
        filler = ['# padding comment line number %04d ..............' % i
                  for i in range(pad_lines)]
        for line, what in (('RW 100 FLAT "/etc/passwd" 0', 'path extent'),
                           ('some unknown line', 'unknown line'),
                           ('RW 100 SPARSE "second.vmdk"', 'second extent')):
            head = vmdk_descriptor(lines=None)
            text = '\n'.join(head.split('\n')[:5] + filler) + '\n' + \
                '\n'.join(head.split('\n')[5:]) + line + '\n'
            yield 'vmdk %d-sector descriptor ending in a %s' % (dn, what), \
                vmdk(text=text, desc_num=dn,
                     length=512 + dn * 512 + 2048)
    # text after the first NUL is not part of the descriptor
    d = vmdk_descriptor()
    cut = d.index('createType')
    for label, text in (
            ('createType and extent only after a NUL',
             d[:cut].encode() + b'\x00' + d[cut:].encode()),
            ('extent only after a NUL',
             d.replace('RW 20480 SPARSE "disk.vmdk"\n',
                       '# c\x00\nRW 20480 SPARSE "disk.vmdk"\n').encode()),
            ('path extent only after a NUL',
             (d + '\x00\nRW 1 FLAT "/etc/passwd" 0\n').encode())):
        yield 'vmdk descriptor with %s' % label, vmdk(text=text)
    # a descriptor that fills its sectors exactly (no NUL padding)
    base = vmdk_descriptor()
    exact = base + '#' * (1024 - len(base) - 1) + '\n'
    yield 'vmdk descriptor filling its 2 sectors exactly', vmdk(
        text=exact, desc_num=2)
    yield 'vmdk descriptor one byte short of its 2 sectors', vmdk(
        text=exact[:-2] + '\n', desc_num=2)
    for line in ('RW 2048 FLAT "disk#1/../../../etc/passwd" 0',
                 'NOACCESS 2048 FLAT "#/dev/sda" 0',
                 'RW 100 SPARSE "disk#1.vmdk"', 'RW 100 SPARSE "x" # y',
                 '#RW 100 FLAT "/etc/passwd" 0'):
        yield 'vmdk only extent %r' % line, vmdk(
            text=vmdk_descriptor(extents=[line]))
        yield 'vmdk extra line %r' % line, vmdk(
            text=vmdk_descriptor(lines=[line]))
    yield 'vmdk no extent', vmdk(text=vmdk_descriptor(extents=[]))
    yield 'vmdk empty descriptor', vmdk(text='')
    yield 'vmdk non-ascii descriptor', vmdk(
        text=vmdk_descriptor().replace('Disk', 'D\xefsk'))
    for v in (0, 1, 2, 3, 4, 9):
        yield 'vmdk version %d' % v, vmdk(ver=v)
    for ds in (0, 2, 2 ** 63):
        yield 'vmdk descriptor sector %d' % ds, vmdk(desc_sec=ds)
    for dn in (1, 2, 20, 2047, 2048, 4096, 2 ** 64 - 1):
        yield 'vmdk descriptor %d sectors' % dn, vmdk(
            desc_num=dn, length=512 + min(dn * 512, (1 << 20) - 1) + 2048)
    # a descriptor larger than the inspected window (1 MiB - 1): a line in
    # the last bytes of the window is still part of what is checked
    win = (1 << 20) - 1
    head = vmdk_descriptor()
    for line, what in (('RW 2048 FLAT "/etc/passwd" 0', 'path extent'),
                       ('some unknown line', 'unknown line'),
                       ('# harmless comment', 'comment')):
        for back in (0, 300):
            room = win - back - len(head) - len(line) - 1
            filler = ''
            while room > 0:
                n = min(room, 200000)
                filler += '#' + 'x' * (n - 2) + '\n'
                room -= n
            text = head + filler + line + '\n'
            assert len(text) == win - back, (len(text), win)
            yield 'vmdk 4096-sector descriptor with a %s ending %d bytes ' \
                'before the end of the inspected window' % (what, back), \
                vmdk(text=text, desc_num=4096, length=512 + win + 2048)
    yield 'vmdk wrong signature binary', vmdk(sig=b'KDMW')
    # footers
    good = vmdk_footer()
    yield 'vmdk footer consistent', vmdk(gd=GD_AT_END, footer=good)
    for label, f in (
            ('signature', vmdk_footer(sig=b'KDMW')),
            ('version', vmdk_footer(ver=2)),
            ('descriptor sector', vmdk_footer(desc_sec=2)),
            ('descriptor size', vmdk_footer(desc_num=3)),
            ('another footer', vmdk_footer(gd=GD_AT_END)),
            ('marker type', vmdk_footer(marker=(0, 0, 2))),
            ('marker size', vmdk_footer(marker=(0, 1, 3))),
            ('marker padding', vmdk_footer(pad=b'\x01')),
            ('eos value', vmdk_footer(eos=(1, 0, 0))),
            ('eos size', vmdk_footer(eos=(0, 1, 0))),
            ('eos type', vmdk_footer(eos=(0, 0, 1)))):
        yield 'vmdk footer differs in %s' % label, vmdk(gd=GD_AT_END,
                                                        footer=f)
    # the footer's copy of the header differs only in bytes no check reads
    for off in (8, 100, 447):
        t = bytearray(448)
        t[off] = 1
        yield 'vmdk footer differs in unparsed byte %d' % (64 + off), vmdk(
            gd=GD_AT_END, footer=vmdk_footer(tail=bytes(t)))
    yield 'vmdk header without footer flag but footer present', vmdk(
        footer=good)
    for n in (0, 3, 4, 63, 64, 511, 512, 600):
        yield 'vmdk truncated %d' % n, vmdk()[:n]


def gen_text(thorough=False):
    """Text-only VMDK descriptors and plain text / binary files."""
    yield 'text descriptor monolithicSparse', (
        vmdk_descriptor() + '#' * 600 + '\n').encode()
    yield 'text descriptor monolithicFlat', (
        vmdk_descriptor('monolithicFlat') + '#' * 600 + '\n').encode()
    # text descriptors around the 64-byte header minimum: with fewer bytes
    # the stream is never a VMDK, with 64 or more (all text, createType
    # present) it is
    short = b'createType="monolithicSparse"\n'
    for n in (40, 63, 64, 65, 100):
        yield 'text descriptor of %d bytes' % n, (short + b'#' * n)[:n - 1] \
            + b'\n'
    # a NUL ends the descriptor text: what follows is not part of it
    d = vmdk_descriptor()
    cut = d.index('createType')
    yield 'text, NUL, then the createType line', (
        d[:cut] + '#' * 600 + '\n').encode() + b'\x00' + (
        d[cut:] + '#' * 600 + '\n').encode()
    yield 'text descriptor, NUL padding, then non-ASCII bytes', (
        d + '#' * 600 + '\n').encode() + b'\x00' * 300 + b'\xff\xfe' * 300
    yield 'text descriptor then NUL padding', (
        d + '#' * 600 + '\n').encode() + b'\x00' * 700
    yield 'plain text 2000', b'hello world\n' * 170
    yield 'text then high byte', b'a' * 600 + b'\xff' + b'text' * 100
    yield 'zeros 4096', b'\x00' * 4096
    yield 'zeros 40K', b'\x00' * (40 * KiB)
    yield 'pattern 40K', bytes(range(256)) * 160
    yield 'empty', b''
    yield 'one byte', b'x'
    yield 'short text', b'hello'


GENERATORS = {
    'qcow2': gen_qcow2, 'qed': gen_qed, 'vhd': gen_vhd, 'vdi': gen_vdi,
    'iso': gen_iso, 'luks': gen_luks, 'gpt': gen_gpt, 'vhdx': gen_vhdx,
    'vmdk': gen_vmdk, 'text': gen_text,
}


def polyglots():
    """Overlays of signatures (C03)."""
    base = bytearray(40 * KiB)
    out = []

    def put(img, off, data):
        img[off:off + len(data)] = data
    sigs = {
        'qcow2': (0, b'QFI\xfb\x00\x00\x00\x03'), 'qed': (0, b'QED\x00'),
        'vhd': (0, b'conectix'), 'vhdx': (0, b'vhdxfile'),
        'luks': (0, b'LUKS\xba\xbe\x00\x01'),
        'vdi': (0x40, struct.pack('<I', 0xbeda107f)),
        'gpt': (510, b'\x55\xaa'), 'iso': (32769, b'CD001'),
    }
    names = sorted(sigs)
    for i, a in enumerate(names):
        img = bytearray(base)
        put(img, *sigs[a])
        out.append(('signature %s on zeros' % a, bytes(img)))
        for b in names[i + 1:]:
            if sigs[a][0] == sigs[b][0] == 0:
                continue
            img2 = bytearray(img)
            put(img2, *sigs[b])
            out.append(('signatures %s+%s' % (a, b), bytes(img2)))
    img = bytearray(base)
    for n in ('vdi', 'gpt', 'iso', 'vhd'):
        put(img, *sigs[n])
    out.append(('signatures vhd+vdi+gpt+iso', bytes(img)))
    # every signature (the sparse-VMDK magic included) on text and on a
    # byte-pattern background
    sigs['vmdk'] = (0, b'KDMV')
    backgrounds = (('text', (b'some printable text line\n' * 1700)[:40 * KiB]),
                   ('pattern', (bytes(range(256)) * 160)[:40 * KiB]))
    for bname, bg in backgrounds:
        for a in sorted(sigs):
            img = bytearray(bg)
            put(img, *sigs[a])
            out.append(('signature %s on %s' % (a, bname), bytes(img)))
    img = bytearray(base)
    put(img, *sigs['vmdk'])
    out.append(('signature vmdk on zeros', bytes(img)))
    for bname, bg in backgrounds[:1]:
        img = bytearray(bg)
        put(img, *sigs['vmdk'])
        put(img, *sigs['iso'])
        out.append(('signatures vmdk+iso on %s' % bname, bytes(img)))
    # near signatures: sibling magic numbers of the same standards and
    # one-byte neighbours of the real ones; none of them is the format
    near = [
        ('iso', 32769, x) for x in (b'BEA01', b'TEA01', b'NSR01', b'BOOT2',
                                    b'CDW02', b'CD002', b'cd001')] + [
        ('qcow2', 0, b'QFI\xfa\x00\x00\x00\x03'),
        ('qcow2', 0, b'QFI\x00'), ('qed', 0, b'QED\x01'),
        ('qed', 0, b'QEVM'), ('vhd', 0, b'conectiX'),
        ('vhd', 0, b'Conectix'), ('vhdx', 0, b'vhdxfilf'),
        ('vhdx', 0, b'VHDXFILE'), ('luks', 0, b'LUKS\xba\xbf\x00\x01'),
        ('luks', 0, b'LUKS\x00\x00\x00\x01'), ('vmdk', 0, b'KDMW'),
        ('vmdk', 0, b'VMDK'), ('vmdk', 0, b'COWD'),
        ('vdi', 0x40, struct.pack('<I', 0xbeda1080)),
        ('vdi', 0x40, struct.pack('>I', 0xbeda107f)),
        ('gpt', 510, b'\xaa\x55'), ('gpt', 510, b'\x55\xab'),
        ('gpt', 511, b'\x55\xaa'), ('gpt', 512, b'EFI PART')]
    for fmt, off, magic in near:
        for bname, bg in (('zeros', bytes(base)),) + backgrounds[1:]:
            img = bytearray(bg)
            put(img, off, magic)
            out.append(('near-signature of %s %r at %d on %s' % (
                fmt, magic, off, bname), bytes(img)))
    return out
