"""Reference for C04/C08: the 35 sanitize keys confirmed on the pinned tree
(oslo_utils/strutils.py _SANITIZE_KEYS).  The rule is *superset*: adding a key
never alarms, dropping one does (the property quantifies over 'every key of
the sanitize list', whose instances are frozen here)."""
REFERENCE_KEYS = (
    'adminpass', 'admin_pass', 'password', 'admin_password', 'auth_token',
    'new_pass', 'auth_password', 'secret_uuid', 'secret', 'sys_pswd', 'token',
    'configdrive', 'chappassword', 'encrypted_key', 'private_key',
    'fernetkey', 'sslkey', 'passphrase', 'cephclusterfsid',
    'octaviaheartbeatkey', 'rabbitcookie', 'cephmanilaclientkey',
    'pacemakerremoteauthkey', 'designaterndckey', 'cephadminkey',
    'heatauthencryptionkey', 'cephclientkey', 'keystonecredential',
    'barbicansimplecryptokek', 'cephrgwkey', 'swifthashsuffix',
    'migrationsshkey', 'cephmdskey', 'cephmonkey', 'chapsecret')
