#!/bin/sh
# Runs the pinned suite on a tree (default /repo) and compares with BASELINE.json stable_pass.
# usage: baseline_check.sh [repo_dir]
R=${1:-/repo}
OUT=$(mktemp /tmp/junit.XXXXXX.xml)
cd "$R" && /venv/bin/python -m pytest -ra -q -p no:cacheprovider --timeout=900 --continue-on-collection-errors --junitxml="$OUT" >/dev/null 2>&1
/venv/bin/python - "$OUT" <<'PY'
import json,sys,xml.etree.ElementTree as ET
b=json.load(open('/root/.vp/BASELINE.json'))
want=set(b['stable_pass'])
got=set()
for tc in ET.parse(sys.argv[1]).getroot().iter('testcase'):
    ok=not any(c.tag in('failure','error','skipped') for c in tc)
    if ok: got.add(tc.get('classname')+'::'+tc.get('name'))
missing=sorted(want-got)
print('baseline stable_pass=%d passing_now=%d missing=%d'%(len(want),len(got),len(missing)))
for m in missing[:20]: print('  MISSING',m)
sys.exit(1 if missing else 0)
PY
rc=$?
rm -f "$OUT"
exit $rc
