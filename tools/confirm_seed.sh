#!/bin/sh
# usage: confirm_seed.sh <seed dir with patch.diff demo.py>  -> prints one line verdict
# Confirms in a scratch worktree of /repo (removed afterwards): the demo passes on HEAD,
# the patch applies, the package imports, the pinned baseline still passes, the demo fails.
D=$1
TAG=$(echo "$D" | tr '/' '_' | tail -c 24)
WT=/tmp/confirm/$TAG
mkdir -p /tmp/confirm
git -C /repo worktree remove --force "$WT" >/dev/null 2>&1
git -C /repo worktree add --detach -f "$WT" HEAD >/dev/null 2>&1 || { echo "$D worktree-failed"; exit 2; }
cd "$WT"
PYTHONPATH="$WT" /venv/bin/python "$D/demo.py" >/dev/null 2>&1; A=$?
git apply "$D/patch.diff" 2>/dev/null; P=$?
PYTHONPATH="$WT" /venv/bin/python -c "import oslo_utils.strutils, oslo_utils.netutils, oslo_utils.timeutils, oslo_utils.excutils, oslo_utils.fileutils, oslo_utils.versionutils, oslo_utils.specs_matcher, oslo_utils.encodeutils, oslo_utils.uuidutils, oslo_utils.imageutils.format_inspector, oslo_utils.imageutils.cli, oslo_utils.imageutils.qemu" >/dev/null 2>&1; I=$?
B=$(/verif/tools/baseline_check.sh "$WT" 2>&1 | head -1)
PYTHONPATH="$WT" /venv/bin/python "$D/demo.py" >/dev/null 2>&1; F=$?
cd /
git -C /repo worktree remove --force "$WT" >/dev/null 2>&1
rm -rf "$WT"
OK=no
if [ "$2" = "twin" ]; then
  if [ $A -eq 0 ] && [ $P -eq 0 ] && [ $I -eq 0 ] && [ $F -eq 0 ] && echo "$B" | grep -q "missing=0"; then OK=yes; fi
else
  if [ $A -eq 0 ] && [ $P -eq 0 ] && [ $I -eq 0 ] && [ $F -ne 0 ] && echo "$B" | grep -q "missing=0"; then OK=yes; fi
fi
echo "$D confirmed=$OK demo_clean=$A applies=$P imports=$I demo_patched=$F $B"
