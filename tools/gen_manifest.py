#!/venv/bin/python
"""Regenerates /verif/MANIFEST.json from the table below (run after adding a
rule module).  A property without sa/rules/cNN.py is listed under
not_applicable."""
import json
import os

VERIF = os.path.dirname(os.path.dirname(os.path.abspath(__file__)))

CHECKS = {
    'C19': dict(
        technique='decision-table extraction by path-sensitive abstract interpretation of the source (static), str.split / slices / in-place list extension kept as terms; pyparsing grammar extracted as a term and instantiated with the installed library for evaluation on grids',
        category='other', design_ref='DESIGN.md section 4, C19',
        text='split_path extracted for every (minsegs 1..4, maxsegs None/0/min-1..min+2, rest_with_last) configuration with the path symbolic and compared with a reference written from the statement on ~700 paths of 0..5 segments over {plain, empty, dotted, spaced} with and without leading/trailing slashes; split_by_commas extracted with the pyparsing constructors symbolic and evaluated on comma-joined item lists over the quoting characters (commas, quotes, backslashes, spaces) and on malformed quoting.',
        note='pyparsing semantics are trusted (the grammar term is instantiated with the installed pyparsing); empty items and whitespace padding outside quotes are outside the statement and not checked.'),
    'C01': dict(
        technique='decision-table extraction of one capture step folded over all small streams x chunkings; abstract interpretation of the inspector classes through their real eat_chunk/post_process/region_complete/finish code with only the capture arithmetic abstracted (symbolic region bytes; lazy path enumeration per image and chunk schedule), extracted verdict terms evaluated on image families and compared with reference decoders written from the format specifications (static: nothing from /repo is executed); schedule-independence of the verdict; region geometry',
        category='other', design_ref='DESIGN.md section 4, C01',
        text='Capture engine: the one-step table of eat_chunk on a region with symbolic offset/length/min_length/data/position is folded over every stream up to 6 (thorough 8) bytes x every chunking incl. empty chunks x every offset/length/window: retained bytes == stream bytes after every chunk. Orchestration: every inspector x image family x six chunk schedules (one chunk, region-after-defining-chunk, byte-count trickle through every length the class distinguishes, min_length stop, small-then-giant, first-4KiB-in-the-defining-chunk): complete/match/size/safety must not depend on the schedule. Regions defined while streaming must not start before data already consumed (per construct, and per image x schedule against the stream position at the start of the current chunk); tail windows must pre-exist; format queries between reads must not change feeding.',
        note='The composition of the capture step with the orchestration is covered through the abstract capture model (a region eventually holds stream[offset:offset+n]); five genuine chunking dependences of the pinned tree are listed as known findings (F1a, F1b, F2, F3, F4).'),
    'C02': dict(
        technique='exhaustive decision-table extraction of the aggregator and of cli.main; abstract interpretation of the inspector classes through their real eat_chunk/post_process/region_complete/finish code with only the capture arithmetic abstracted (symbolic region bytes; lazy path enumeration per image and chunk schedule), extracted verdict terms evaluated on image families and compared with reference decoders written from the format specifications (static: nothing from /repo is executed)',
        category='other', design_ref='DESIGN.md section 4, C02',
        text="safety_check / SafetyCheck.__call__ for every combination of complete x match x per-check outcome (0..3 checks); every inspector's safety verdict on image families with every safe/unsafe trait of the property (64 feature bits in thorough, versions, backing offsets, descriptor line classes and createType spellings, MBR tables, footer perturbations, truncations) under six schedules vs the reference decoder; registered check sets; cli.main over detection x check outcomes.",
        note='Reference decoders in sa/specs/formats.py are written from the public format descriptions and the property text; descriptor texts are bounded by the generated family.'),
    'C03': dict(
        technique='exhaustive decision-table extraction of InspectWrapper.formats/format with abstract inspectors; abstract interpretation of the inspector classes through their real eat_chunk/post_process/region_complete/finish code with only the capture arithmetic abstracted (symbolic region bytes; lazy path enumeration per image and chunk schedule), extracted verdict terms evaluated on image families and compared with reference decoders written from the format specifications (static: nothing from /repo is executed); registry check',
        category='other', design_ref='DESIGN.md section 4, C03',
        text="formats/format for every (complete, match) combination of three non-raw inspectors x allowed_formats subsets x finished or not, incl. inspectors that failed; every real inspector on every format's images, signature overlays, text/binary files and truncations under two schedules: format_match == reference signature test, format_match/complete never raise in any intermediate state, decided stays decided; ALL_FORMATS registry; detect_file_format closes the wrapper on every path.",
        note='Library behaviour of open()/read() is not decided.'),
    'C05': dict(
        technique='proof obligations on the syntax tree and on all symbolically enumerated paths (who-writes, must-truncate on the extracted capture step, interval analysis of every constructed region length), plus concrete witnesses from the abstract streaming model on hostile images',
        category='proof', design_ref='DESIGN.md section 4, C05',
        text='O1-O7 discharged: region data/length/table writers, truncation on every path of each capture step, finite interval bound for every region constructed on any symbolic path of any inspector (constants, min() clamps, field widths), per-inspector sums within 1.5 MiB / 512 KiB, context_info truthful; hostile images (every length/count/offset field at boundary and maximal values, 3 MiB text/zero streams) observed after every chunk under six schedules.',
        note='Assumes Python slice semantics and that nothing outside the package touches private attributes; symbolic loops unrolled once for the bound enumeration (region constructors do not depend on the iteration count).'),
    'C06': dict(
        technique='exhaustive decision-table extraction of InspectWrapper read/iteration with abstract inspectors following fault plans (static)',
        category='other', design_ref='DESIGN.md section 4, C06',
        text='Wrapper built through its constructor with ALL_FORMATS replaced by abstract inspectors: every single fault placement (inspector x chunk) exhaustively, pairs of faults, every expected_format (each name incl. one that is a substring of another, none, unknown), completeness/match flags of the expected inspector, file-like and iterator sources, format queries between reads; delivered chunks by identity, per-inspector feeding trace, cut-off point and propagated exception vs the trace the property prescribes.',
        note='Behaviour of the wrapped source object is not decided.'),
    'C07': dict(
        technique='abstract interpretation of the inspector classes through their real eat_chunk/post_process/region_complete/finish code with only the capture arithmetic abstracted (symbolic region bytes; lazy path enumeration per image and chunk schedule), extracted verdict terms evaluated on image families and compared with reference decoders written from the format specifications (static: nothing from /repo is executed)',
        category='other', design_ref='DESIGN.md section 4, C07',
        text="virtual_size of every inspector on image families (declared sizes over each field's range incl. 2^63, 2^64-1; VHDX table padding up to 2047 entries, metadata placement, item offsets; VMDK descriptor lengths; ISO block sizes; truncations at structure boundaries) under six chunk schedules vs the reference decoder; after every chunk the size is 0 or final and the accessor does not raise.",
        note='Sizes are checked on the generated grid, not for all 2^64 values; capture arithmetic is decided separately (C01).'),
    'C04': dict(
        technique='constant folding of the pattern tables, regex-tree shape and character-set algebra per template, extraction of mask_password as an ordered substitution term evaluated with the extracted patterns on generated messages (static extraction + table evaluation)',
        category='other', design_ref='DESIGN.md section 4, C04',
        text='Key list vs the 35 reference keys; every template compiled for every key with IGNORECASE; per-template shape (groups, [0-9]* after the key) and value-class set algebra (an excluded non-delimiter character truncates the mask); the extracted substitution pipeline is evaluated on 12k generated messages: every key x 6 spellings x 13 renderings x secrets with metacharacters / non-ASCII / spaces, two secrets per message, other masks, no-key messages, idempotence.',
        note='Long-message interactions beyond two secrets are not decided; stdlib re evaluates the extracted constant patterns on generated messages only; three known findings (wildcard template, = in --key value, dash-leading secret under a compound key) are listed in known_findings.json.'),
    'C08': dict(
        technique='decision-table extraction by path-sensitive abstract interpretation of the source (static; nothing from /repo is executed), extracted terms compared with an oracle written from the property on value grids realising every case the code distinguishes; effect log for non-mutation',
        category='other', design_ref='DESIGN.md section 4, C08',
        text='mask_dict_password extracted on abstract mappings (dict and non-dict Mapping stand-ins whose mutating API records an effect): every sanitize key alone / upper-cased / embedded / digit-suffixed, near misses, non-string keys, every ordered pair of entry kinds (state carried between iterations), nesting, falsy and truthy non-mappings. Result must be a new dict with the same keys and the stated value table; no effect may touch the argument.',
        note='mask_password is stubbed (C04 covers it); nesting depth 2; Python semantics as modelled by sa/core/absint.py.'),
    'C09': dict(
        technique='decision-table extraction by path-sensitive abstract interpretation of the source (static; nothing from /repo is executed), extracted terms compared with an oracle written from the property on value grids realising every case the code distinguishes; raised objects compared by identity',
        category='other', design_ref='DESIGN.md section 4, C09',
        text='Outcome tables of save_and_reraise_exception (constructed and entered through its public API inside a modelled except block), exception_filter (__exit__, __call__, __get__ through two instances), remove_path_on_error (generator body with the yield point modelled as completes/raises) and raise_with_cause over: body completed / raised Exception / raised BaseException, reraise on/off, traceback attached or not, active exception same/other/none, predicate verdicts, remove succeeding/failing.',
        note='Traceback frame contents are interpreter behaviour and not decided; logging is modelled as an effect on an abstract logger.'),
    'C10': dict(
        technique='decision-table extraction by path-sensitive abstract interpretation of the source (static; nothing from /repo is executed), extracted terms compared with an oracle written from the property on value grids realising every case the code distinguishes; regex finite-language enumeration vs table keys',
        category='other', design_ref='DESIGN.md section 4, C10',
        text='string_to_bytes extracted with the regex match symbolic and table lookups forked per key (KeyError paths explicit), compared with exact-rational arithmetic on every prefix x unit x unit system x return_int plus malformed texts; prefix group of each unit-system regex must be a subset of the exponent table; exponent table and units.py vs the SI/IEC ladder; QemuImgInfo._extract_bytes extracted and compared with the documented precedence.',
        note='Float rounding beyond 1e-9 relative is not decided; stdlib re / float evaluate extracted terms on grid constants.'),
    'C11': dict(
        technique='decision-table extraction by path-sensitive abstract interpretation of the source (static; nothing from /repo is executed), extracted terms compared with an oracle written from the property on value grids realising every case the code distinguishes with every declared library failure mode forked; DFA equivalence for the MAC pattern',
        category='other', design_ref='DESIGN.md section 4, C11',
        text='Each validator is extracted with the netaddr calls symbolic and AddrFormatError / ValueError / TypeError forked at each call, so a handler tuple narrower than what the library raises leaves a raising path; tables evaluated on address grids (octet/prefix/scope/slash boundary cases, NUL, newline) against the stdlib ipaddress / inet_aton parsers; MAC pattern language == six hex pairs by DFA equivalence; port/ICMP range tables at both ends in int and str form.',
        note='netaddr evaluates the symbolic netaddr calls on grid strings (trusted third party); agreement with ipaddress is checked on the grid, not for all strings.'),
    'C12': dict(
        technique='decision-table extraction by path-sensitive abstract interpretation of the source (static; nothing from /repo is executed), extracted terms compared with an oracle written from the property on value grids realising every case the code distinguishes; who-calls check of the wall clock',
        category='other', design_ref='DESIGN.md section 4, C12',
        text='Comparison predicates (naive, aware, ISO-string arguments; exact-equality boundary at 1 microsecond; ages beyond 2^34 s), normalize_time, parse_isotime, utcnow / utcnow_ts / advance_time_* under an overridden clock (incl. pre-1970 instants with microseconds), marshal/unmarshal round trip incl. leap seconds, TimeFixture wiring; the wall clock may only be read by utcnow / utcnow_ts / set_time_override.',
        note='datetime / calendar / iso8601 / zoneinfo evaluate the extracted terms on grid values (trusted); list-valued overrides are outside the property.'),
    'C14': dict(
        technique='decision-table extraction by path-sensitive abstract interpretation of the source (static; nothing from /repo is executed), extracted terms compared with an oracle written from the property on value grids realising every case the code distinguishes',
        category='other', design_ref='DESIGN.md section 4, C14',
        text='Word tables vs the documented sets; bool_from_string over bool/str/int/float/None subjects x strict x default; is_valid_boolstr agreement; validate_integer / check_string_length / is_int_like over values at and around every bound in int and str form; is_uuid_like over every decoration, 31/33-digit bodies, 0x/+/_/space tricks; generate_uuid result shape; memoising decorators on type-sensitive functions are flagged.',
        note="int() / uuid.UUID parsing is the stdlib's, evaluated on grid constants only."),
    'C15': dict(
        technique='decision-table extraction by path-sensitive abstract interpretation of the source (static; nothing from /repo is executed), extracted terms compared with an oracle written from the property on value grids realising every case the code distinguishes',
        category='other', design_ref='DESIGN.md section 4, C15',
        text='EUI-64 forward/inverse vs RFC 4291 App. A computed independently (locally administered MACs, prefixes with host bits, IPv4 networks, malformed input -> ValueError/TypeError only); parse_host_port / escape_ipv6 over the three host families x ports x default ports (0 and None); urlsplit vs urllib.parse.urlsplit on every component incl. allow_fragments=False; params() last/all values on repeated names.',
        note='netaddr / urllib evaluate the symbolic calls on grid values (trusted).'),
    'C16': dict(
        technique='decision-table extraction by path-sensitive abstract interpretation of the source (static; nothing from /repo is executed), extracted terms compared with an oracle written from the property on value grids realising every case the code distinguishes; regex character-set algebra for to_slug',
        category='other', design_ref='DESIGN.md section 4, C16',
        text='safe_decode / safe_encode / to_utf8 over the type tag (str, bytes, other) x texts / byte strings x encodings in any case incl. ASCII-incompatible ones x error policies, with UnicodeErrors forked; to_slug extracted as a term and evaluated on compatibility characters for output alphabet and idempotence; strip / hyphenate classes by set algebra.',
        note="Codec tables are the stdlib's (evaluated on grid constants); default-encoding (incoming=None) paths depend on the environment and are not decided."),
    'C17': dict(
        technique='decision-table extraction by path-sensitive abstract interpretation of the source (static; nothing from /repo is executed), extracted terms compared with an oracle written from the property on value grids realising every case the code distinguishes; regex finite language / prefix-shadow rule for the predicate pattern',
        category='other', design_ref='DESIGN.md section 4, C17',
        text='convert_version_to_int on symbolic component tuples (length 1..4) and convert_version_to_str on a symbolic integer (loop unrolled) vs base-1000 positional notation incl. the 999/1000 boundaries; suffix regex; _COMP_MAP vs the six operators; predicate regex alternatives == map keys, none shadowed; is_compatible and VersionPredicate vs PEP 440 ordering (packaging) on versions with epochs, pre/post releases and duplicate operators.',
        note='packaging.version semantics are trusted; loop unrolled to 4 components.'),
    'C18': dict(
        technique='decision-table extraction of every op_methods row and of '
                  'match() by abstract interpretation (static) vs the '
                  'documented table; grammar folded to a term: literal set '
                  'and first-match prefix-shadow rule',
        category='other', design_ref='DESIGN.md section 4, C18',
        text='Exhaustive over the operator table: each of the 17 rows is '
             'extracted as a symbolic table and compared with the documented '
             'meaning on operand grids (equal/adjacent/differently spelled '
             'numbers, string orderings, list members, all bracket and arity '
             'combinations); the grammar\'s literals must equal the table '
             'keys with no literal shadowed by an earlier proper prefix; '
             'match() is extracted with injected parse results.',
        note='pyparsing tokenisation is trusted (not decided); oracle = '
             'doc_semantics() in sa/rules/c18.py written from the documented '
             'grammar; ast.literal_eval/float are evaluated on grid strings '
             'by the host stdlib.'),
    'C20': dict(
        technique='errno decision-table extraction by abstract '
                  'interpretation with injected failures; def-use / event '
                  'order of the extracted effect traces (static)',
        category='other', design_ref='DESIGN.md section 4, C20',
        text='Exhaustive over errno class x isdir x failure for ensure_tree, '
             'delete_if_exists and the last_bytes fallback (every other '
             'error must propagate as the same object); the checksum loop is '
             'unrolled symbolically (0..3 chunks): every chunk read reaches '
             'update() unmodified exactly once and the digest created by '
             'hashlib.new(algorithm) is finalised; seek/tell/read order and '
             'result tuple of last_bytes; makedirs->mkstemp->write->close '
             'order of write_to_tempfile with and without a write failure.',
        note='File-system and hashlib behaviour are trusted; short writes '
             'of os.write are not decided.'),
    'C13': dict(
        technique='typestate table extraction by abstract interpretation '
                  '(static), compared with a reference table over an '
                  'ordering-complete value grid',
        category='other', design_ref='DESIGN.md section 4, C13',
        text='Exhaustive over the abstraction: every public StopWatch '
             'method after every prefix of public calls that reaches a '
             'state (new / started / stopped / resumed, 0-2 splits, queries '
             'in between, restarted) x arguments x duration, with the clock '
             'a sequence of symbols: the result and the watch afterwards as '
             'seen through has_started / has_stopped / splits / elapsed must '
             'equal the watch of the property statement on every ordering '
             'of the readings (independent of how the watch stores its '
             'state). While the watch keeps the pinned private layout the '
             'one-step transition table over abstract states is extracted '
             'as well (a typestate machine is determined by it). Also '
             'raise-before-write and the clock source.',
        note='Assumes Python semantics as modelled by sa/core/absint.py; '
             'float rounding of clock arithmetic is not decided; the '
             'reference table is in sa/rules/c13.py (class Ref).'),
}

NOT_BUILT = 'check not built yet in this session (see DESIGN.md section 4 ' \
            'for the planned static rules)'
NA = {
    'C19-unused': 'split_path is integer arithmetic over segment counts against '
           'symbolic minsegs/maxsegs and split_by_commas is the semantics '
           'of a pyparsing grammar; no clause beyond "explicit raises are '
           'ValueError" is visible in the shape of the code, and that proxy '
           'is too weak to claim the property (DESIGN.md section 5).',
}


HISTORY = ' Also: the same functions after an earlier call (same arguments ' \
          'under other options, siblings, arguments of the same characters) ' \
          'must answer as they would alone (no state shared between calls).'
EXTRA = {
    'C04': HISTORY, 'C10': HISTORY, 'C11': HISTORY, 'C14': HISTORY,
    'C15': HISTORY, 'C17': HISTORY, 'C18': HISTORY, 'C19': HISTORY,
    'C12': ' Also: normalize_time after an earlier call with the same zone '
           'object at another offset.',
    'C20': ' Also: ensure_tree / delete_if_exists after an earlier call for '
           'the same path still act on the file system.',
    'C09': ' Also: handler programs over one or two context objects (reuse '
           'for a second handler, nesting around one exception, '
           'force_reraise / capture / flag switches in the body, '
           'force_reraise and __exit__ while another exception - the same '
           'object, one of the same class, one of another class - is being '
           'handled) compared step by step with a reference state.',
    'C06': ' Fault classes include MemoryError, RecursionError, '
           'StopIteration, AssertionError, OSError, struct.error.',
}


def main():
    props = [json.loads(l)['id'] for l in
             open(os.path.join(VERIF, 'properties.jsonl'))]
    checks, na = [], []
    for p in props:
        have = os.path.exists(os.path.join(VERIF, 'sa', 'rules',
                                           p.lower() + '.py'))
        if p in CHECKS and have:
            c = CHECKS[p]
            checks.append({
                'property_id': p,
                'quick_cmd': '/venv/bin/python -m sa check %s' % p,
                'thorough_cmd': '/venv/bin/python -m sa check %s --tier '
                                'thorough' % p,
                'evidence_file': '/verif/evidence/%s.json' % p,
                'replay_cmd_template': '/venv/bin/python -m sa replay {path}',
                'engine': 'sa',
                'level_claimed': {'category': c['category'],
                                  'text': c['text'] + EXTRA.get(p, ''),
                                  'design_ref': c['design_ref']},
                'level_note': c['note'],
                'technique': c['technique'],
            })
        else:
            na.append({'property_id': p, 'reason': NA.get(p, NOT_BUILT)})
    man = {
        'version': 1,
        'setup_cmd': 'true',
        'hooks': {
            'guard': 'OSLO_UTILS_VERIF',
            'enable': 'none: static analysis needs no instrumentation; no '
                      'source commit uses the guard',
            'baseline_off_cmd': 'cd /repo && /venv/bin/python -m pytest -ra '
                                '-q -p no:cacheprovider --timeout=900 '
                                '--continue-on-collection-errors',
            'source_commits': [],
            'add_only': True,
        },
        'engines': [{
            'name': 'sa',
            'path': '/verif/sa',
            'serves_properties': [c['property_id'] for c in checks],
            'kind_free_text': 'repository-specific static analyser: ast '
                              'loader, constant folder, path-sensitive '
                              'abstract interpreter (decision-table '
                              'extraction), byte-provenance model of the '
                              'image inspectors, regex set algebra; nothing '
                              'from /repo is imported or executed',
        }],
        'checks': checks,
        'not_applicable': na,
        'notes': 'All checks: cwd /verif, parse /repo on every run, exit 0 / '
                 '1 (VIOLATION, exact) / 2 (ANALYSIS-ERROR, cannot decide). '
                 'Known findings: /verif/known_findings.json.',
    }
    with open(os.path.join(VERIF, 'MANIFEST.json'), 'w') as f:
        json.dump(man, f, indent=1)
    print('claimed:', [c['property_id'] for c in checks])
    print('not applicable:', [n['property_id'] for n in na])


if __name__ == '__main__':
    main()
