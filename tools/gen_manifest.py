#!/venv/bin/python
"""Regenerates /verif/MANIFEST.json from the table below (run after adding a
rule module).  A property without sa/rules/cNN.py is listed under
not_applicable."""
import json
import os

VERIF = os.path.dirname(os.path.dirname(os.path.abspath(__file__)))

CHECKS = {
    'C18': dict(
        technique='decision-table extraction of every op_methods row and of '
                  'match() by abstract interpretation (static) vs the '
                  'documented table; grammar folded to a term: literal set '
                  'and first-match prefix-shadow rule',
        category='other', design_ref='DESIGN.md section 4, C18',
        text='Exhaustive over the operator table: each of the 17 rows is '
             'extracted as a symbolic table and compared with the documented '
             'meaning on operand grids (equal/adjacent/differently spelled '
             'numbers, string orderings, list members, all bracket and arity '
             'combinations); the grammar\'s literals must equal the table '
             'keys with no literal shadowed by an earlier proper prefix; '
             'match() is extracted with injected parse results.',
        note='pyparsing tokenisation is trusted (not decided); oracle = '
             'doc_semantics() in sa/rules/c18.py written from the documented '
             'grammar; ast.literal_eval/float are evaluated on grid strings '
             'by the host stdlib.'),
    'C20': dict(
        technique='errno decision-table extraction by abstract '
                  'interpretation with injected failures; def-use / event '
                  'order of the extracted effect traces (static)',
        category='other', design_ref='DESIGN.md section 4, C20',
        text='Exhaustive over errno class x isdir x failure for ensure_tree, '
             'delete_if_exists and the last_bytes fallback (every other '
             'error must propagate as the same object); the checksum loop is '
             'unrolled symbolically (0..3 chunks): every chunk read reaches '
             'update() unmodified exactly once and the digest created by '
             'hashlib.new(algorithm) is finalised; seek/tell/read order and '
             'result tuple of last_bytes; makedirs->mkstemp->write->close '
             'order of write_to_tempfile with and without a write failure.',
        note='File-system and hashlib behaviour are trusted; short writes '
             'of os.write are not decided.'),
    'C13': dict(
        technique='typestate table extraction by abstract interpretation '
                  '(static), compared with a reference table over an '
                  'ordering-complete value grid',
        category='other', design_ref='DESIGN.md section 4, C13',
        text='Exhaustive over the abstraction: every public StopWatch '
             'method x every abstract state (state tag, stopped timestamp, '
             'duration, 0/1/2 splits, arguments). The one-step transition '
             'table is extracted from the source without running it and '
             'must equal the table the property states; a typestate machine '
             'is determined by its one-step table, so this covers every '
             'call sequence. Also raise-before-write and the clock source.',
        note='Assumes Python semantics as modelled by sa/core/absint.py; '
             'float rounding of clock arithmetic is not decided; the '
             'reference table is in sa/rules/c13.py (class Ref).'),
}

NOT_BUILT = 'check not built yet in this session (see DESIGN.md section 4 ' \
            'for the planned static rules)'
NA = {
    'C19': 'split_path is integer arithmetic over segment counts against '
           'symbolic minsegs/maxsegs and split_by_commas is the semantics '
           'of a pyparsing grammar; no clause beyond "explicit raises are '
           'ValueError" is visible in the shape of the code, and that proxy '
           'is too weak to claim the property (DESIGN.md section 5).',
}


def main():
    props = [json.loads(l)['id'] for l in
             open(os.path.join(VERIF, 'properties.jsonl'))]
    checks, na = [], []
    for p in props:
        have = os.path.exists(os.path.join(VERIF, 'sa', 'rules',
                                           p.lower() + '.py'))
        if p in CHECKS and have:
            c = CHECKS[p]
            checks.append({
                'property_id': p,
                'quick_cmd': '/venv/bin/python -m sa check %s' % p,
                'thorough_cmd': '/venv/bin/python -m sa check %s --tier '
                                'thorough' % p,
                'evidence_file': '/verif/evidence/%s.json' % p,
                'replay_cmd_template': '/venv/bin/python -m sa replay {path}',
                'engine': 'sa',
                'level_claimed': {'category': c['category'],
                                  'text': c['text'],
                                  'design_ref': c['design_ref']},
                'level_note': c['note'],
                'technique': c['technique'],
            })
        else:
            na.append({'property_id': p, 'reason': NA.get(p, NOT_BUILT)})
    man = {
        'version': 1,
        'setup_cmd': 'true',
        'hooks': {
            'guard': 'OSLO_UTILS_VERIF',
            'enable': 'none: static analysis needs no instrumentation; no '
                      'source commit uses the guard',
            'baseline_off_cmd': 'cd /repo && /venv/bin/python -m pytest -ra '
                                '-q -p no:cacheprovider --timeout=900 '
                                '--continue-on-collection-errors',
            'source_commits': [],
            'add_only': True,
        },
        'engines': [{
            'name': 'sa',
            'path': '/verif/sa',
            'serves_properties': [c['property_id'] for c in checks],
            'kind_free_text': 'repository-specific static analyser: ast '
                              'loader, constant folder, path-sensitive '
                              'abstract interpreter (decision-table '
                              'extraction), byte-provenance model of the '
                              'image inspectors, regex set algebra; nothing '
                              'from /repo is imported or executed',
        }],
        'checks': checks,
        'not_applicable': na,
        'notes': 'All checks: cwd /verif, parse /repo on every run, exit 0 / '
                 '1 (VIOLATION, exact) / 2 (ANALYSIS-ERROR, cannot decide). '
                 'Known findings: /verif/known_findings.json.',
    }
    with open(os.path.join(VERIF, 'MANIFEST.json'), 'w') as f:
        json.dump(man, f, indent=1)
    print('claimed:', [c['property_id'] for c in checks])
    print('not applicable:', [n['property_id'] for n in na])


if __name__ == '__main__':
    main()
