#!/bin/sh
# usage: run_all.sh [quick|thorough]  - every check, summary lines only
T=${1:-quick}
cd /verif
for p in C04 C08 C09 C10 C11 C12 C13 C14 C15 C16 C17 C18 C19 C20; do
  ( /venv/bin/python -m sa check $p --tier $T > /tmp/run_all_$p.txt 2>&1; echo "$p rc=$?" >> /tmp/run_all_rc.txt ) &
done
wait
for p in C01 C02 C03 C05 C06 C07; do
  /venv/bin/python -m sa check $p --tier $T > /tmp/run_all_$p.txt 2>&1; echo "$p rc=$?" >> /tmp/run_all_rc.txt
done
sort /tmp/run_all_rc.txt; rm -f /tmp/run_all_rc.txt
for p in 01 02 03 04 05 06 07 08 09 10 11 12 13 14 15 16 17 18 19 20; do tail -1 /tmp/run_all_C$p.txt | cut -c1-150; grep -h "^VIOLATION\|^ANALYSIS" -A2 /tmp/run_all_C$p.txt | cut -c1-300 | head -9; done
rm -f /tmp/run_all_C*.txt
