#!/venv/bin/python
"""Copy confirmed seeded changes from the scratch area into /verif/seeded.

usage: store_seeds.py <confirm log> <source glob root> <first index> [twin]
Only directories the confirm log marks confirmed=yes are stored."""
import json
import os
import re
import shutil
import sys

log, root, first = sys.argv[1], sys.argv[2], int(sys.argv[3])
twin = len(sys.argv) > 4 and sys.argv[4] == 'twin'
ok = set()
for line in open(log):
    m = re.match(r'(\S+) confirmed=yes', line)
    if m:
        ok.add(m.group(1).rstrip('/'))
n = 0
for prop in sorted(os.listdir(root)):
    if not re.match(r'C\d\d$', prop):
        continue
    for sub in sorted(os.listdir(os.path.join(root, prop))):
        src = os.path.join(root, prop, sub)
        if not sub.isdigit() or src not in ok:
            continue
        idx = first + int(sub) - 1
        dest = '/verif/seeded/%s%s-%s%d' % ('twins/' if twin else '', prop,
                                            't' if twin else '', idx)
        os.makedirs(dest, exist_ok=True)
        for f in ('patch.diff', 'demo.py'):
            shutil.copy(os.path.join(src, f), dest)
        meta = json.load(open(os.path.join(src, 'meta.json')))
        out = {
            'property': prop,
            'kind': 'behaviour-preserving twin (no check may fire)' if twin
            else 'property-breaking change',
            'summary': meta.get('summary'),
            'needs': meta.get('needs', meta.get('why_equivalent')),
            'files': meta.get('files'),
            'author': 'sub-agent given only the property text and a scratch '
                      'worktree of /repo',
            'author_verified': meta.get('verified'),
            'confirmed': 'tools/confirm_seed.sh %s%s: in a scratch worktree '
                         'of /repo HEAD the demo passes, the patch applies, '
                         'the package imports, tools/baseline_check.sh '
                         'reports missing=0 (472 stable tests pass), the '
                         'demo %s with the patch' % (
                             dest.replace('/verif/', ''),
                             ' twin' if twin else '',
                             'still passes' if twin else 'fails'),
        }
        if os.path.exists(os.path.join(src, 'patch.orig.diff')):
            shutil.copy(os.path.join(src, 'patch.orig.diff'), dest)
            out['rebased'] = ('patch.diff was re-based by hand onto the '
                              'later fix: commits in netutils.py; the '
                              'author\'s original is patch.orig.diff')
        for k, v in meta.items():
            if k not in ('property', 'summary', 'needs', 'files',
                         'verified'):
                out.setdefault(k, v)
        json.dump(out, open(os.path.join(dest, 'meta.json'), 'w'), indent=1)
        n += 1
print('stored', n)
