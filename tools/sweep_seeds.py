#!/venv/bin/python
"""Apply every seeded change (default: /verif/seeded/*/patch.diff, or the
directories given) to its own scratch worktree of /repo and run every check
against it (SA_REPO points the analyser at the scratch tree; nothing under
/repo is touched).  Prints the detection matrix."""
import concurrent.futures as cf
import glob
import json
import os
import shutil
import subprocess
import sys

PROPS = ['C%02d' % i for i in range(1, 21) if i != 19]


def one(args):
    patch, tag = args
    wt = '/tmp/sweep/%s' % tag
    shutil.rmtree(wt, ignore_errors=True)
    subprocess.run(['git', '-C', '/repo', 'worktree', 'prune'],
                   capture_output=True)
    r = subprocess.run(['git', '-C', '/repo', 'worktree', 'add', '--detach',
                        '-f', wt, 'HEAD'], capture_output=True, text=True)
    if r.returncode:
        return tag, {'error': r.stderr[-300:]}
    try:
        r = subprocess.run(['git', '-C', wt, 'apply', patch],
                           capture_output=True, text=True)
        if r.returncode:
            return tag, {'error': 'patch does not apply: ' + r.stderr[-200:]}
        res = {}
        env = dict(os.environ, SA_REPO=wt, SA_NOWRITE='1', SA_SERIAL='1')
        for p in PROPS:
            c = subprocess.run(['/venv/bin/python', '-m', 'sa', 'check', p],
                               cwd='/verif', env=env, capture_output=True,
                               text=True)
            first = [l for l in c.stdout.splitlines()
                     if l.startswith('  construct:')][:1]
            res[p] = (c.returncode, first[0][13:100] if first else '')
        return tag, res
    finally:
        subprocess.run(['git', '-C', '/repo', 'worktree', 'remove',
                        '--force', wt], capture_output=True)
        shutil.rmtree(wt, ignore_errors=True)


def main():
    dirs = sys.argv[1:] or sorted(glob.glob('/verif/seeded/*'))
    jobs = []
    for d in dirs:
        p = os.path.join(d, 'patch.diff')
        if os.path.exists(p):
            jobs.append((p, d.rstrip('/').replace('/', '_')[-24:]))
    os.makedirs('/tmp/sweep', exist_ok=True)
    out = {}
    with cf.ThreadPoolExecutor(8) as ex:
        for tag, res in ex.map(one, jobs):
            out[tag] = res
            if 'error' in res:
                print(tag, 'ERROR', res['error'])
                continue
            hit = [p for p, (rc, _c) in res.items() if rc == 1]
            und = [p for p, (rc, _c) in res.items() if rc == 2]
            print('%-26s violations: %-22s undecided: %s' % (
                tag, ','.join(hit) or '-', ','.join(und) or '-'))
            sys.stdout.flush()
    json.dump(out, open('/tmp/sweep/result.json', 'w'), indent=1)
    shutil.rmtree('/tmp/sweep', ignore_errors=True) if not out else None


if __name__ == '__main__':
    main()
