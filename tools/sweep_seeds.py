#!/venv/bin/python
"""Apply every seeded change (default: /verif/seeded/*/patch.diff, or the
directories given) to its own scratch worktree of /repo and run every check
against it (SA_REPO points the analyser at the scratch tree; nothing under
/repo is touched).  Prints the detection matrix."""
import concurrent.futures as cf
import glob
import json
import os
import shutil
import subprocess
import sys

PROPS = ['C%02d' % i for i in range(1, 21)]
RELATED = {
    'format_inspector.py': ['C01', 'C02', 'C03', 'C05', 'C06', 'C07'],
    'cli.py': ['C02'], 'strutils.py': ['C04', 'C08', 'C10', 'C14', 'C16', 'C19'],
    'netutils.py': ['C11', 'C15'], 'timeutils.py': ['C12', 'C13', 'C09'],
    'fixture.py': ['C12'], 'excutils.py': ['C09'],
    'fileutils.py': ['C09', 'C20'], 'encodeutils.py': ['C16', 'C04'],
    'versionutils.py': ['C17'], 'specs_matcher.py': ['C18'],
    'uuidutils.py': ['C14'], 'qemu.py': ['C10'], 'units.py': ['C10', 'C05'],
}
ALL = '--all' in sys.argv
OWN_FIRST = '--own-first' in sys.argv
OWN_ONLY = '--own-only' in sys.argv     # only the changed property's check
ROOT = os.environ.get('SWEEP_ROOT', '/tmp/sweep')
SNAP = ROOT + '/verif'


def related(patch):
    if ALL:
        return PROPS
    out = []
    for line in open(patch):
        if line.startswith('+++ '):
            base = os.path.basename(line.split()[1])
            for p in RELATED.get(base, PROPS):
                if p not in out:
                    out.append(p)
    return out or PROPS


def one(args):
    patch, tag = args
    wt = '%s/%s' % (ROOT, tag)
    shutil.rmtree(wt, ignore_errors=True)
    subprocess.run(['git', '-C', '/repo', 'worktree', 'prune'],
                   capture_output=True)
    r = subprocess.run(['git', '-C', '/repo', 'worktree', 'add', '--detach',
                        '-f', wt, 'HEAD'], capture_output=True, text=True)
    if r.returncode:
        return tag, {'error': r.stderr[-300:]}
    try:
        r = subprocess.run(['git', '-C', wt, 'apply', patch],
                           capture_output=True, text=True)
        if r.returncode:
            return tag, {'error': 'patch does not apply: ' + r.stderr[-200:]}
        res = {}
        env = dict(os.environ, SA_REPO=wt, SA_NOWRITE='1')
        props = related(patch)
        own = None
        if OWN_ONLY:
            try:
                own = json.load(open(os.path.join(
                    os.path.dirname(patch), 'meta.json')))['property']
                props = [own]
            except (OSError, ValueError, KeyError):
                pass
        if OWN_FIRST:
            # the check of the property the change was written against runs
            # first; the others only if it does not report the change
            try:
                own = json.load(open(os.path.join(
                    os.path.dirname(patch), 'meta.json')))['property']
            except (OSError, ValueError, KeyError):
                own = None
            if own in props:
                props = [own] + [p for p in props if p != own]
        for p in props:
            if OWN_FIRST and own and p != own and res.get(own, (0,))[0] == 1:
                break
            c = subprocess.run(['/venv/bin/python', '-m', 'sa', 'check', p],
                               cwd=SNAP, env=env, capture_output=True,
                               text=True)
            first = [l for l in c.stdout.splitlines()
                     if l.startswith('  construct:')][:1]
            res[p] = (c.returncode, first[0][13:100] if first else '')
        return tag, res
    finally:
        subprocess.run(['git', '-C', '/repo', 'worktree', 'remove',
                        '--force', wt], capture_output=True)
        shutil.rmtree(wt, ignore_errors=True)


def main():
    dirs = [a for a in sys.argv[1:] if not a.startswith('--')] or \
        sorted(glob.glob('/verif/seeded/C*'))
    jobs = []
    for d in dirs:
        p = os.path.join(d, 'patch.diff')
        if os.path.exists(p):
            jobs.append((p, d.rstrip('/').replace('/', '_')[-24:]))
    shutil.rmtree(ROOT, ignore_errors=True)
    os.makedirs(SNAP, exist_ok=True)
    # analyse with a snapshot of the checker so that /verif can be edited
    shutil.copytree('/verif/sa', SNAP + '/sa',
                    ignore=shutil.ignore_patterns('__pycache__'))
    shutil.copy('/verif/known_findings.json', SNAP)
    out = {}
    dest = os.environ.get('SWEEP_OUT', '/tmp/sweep_result.json')
    with cf.ThreadPoolExecutor(int(os.environ.get("SWEEP_JOBS", "4"))) as ex:
        for tag, res in ex.map(one, jobs):
            out[tag] = res
            if 'error' in res:
                print(tag, 'ERROR', res['error'])
                continue
            hit = [p for p, (rc, _c) in res.items() if rc == 1]
            und = [p for p, (rc, _c) in res.items() if rc == 2]
            print('%-26s violations: %-22s undecided: %s' % (
                tag, ','.join(hit) or '-', ','.join(und) or '-'))
            sys.stdout.flush()
            if len(out) % 10 == 0:
                json.dump(out, open(dest + '.part', 'w'), indent=1)
    dest = os.environ.get('SWEEP_OUT', '/tmp/sweep_result.json')
    json.dump(out, open(dest, 'w'), indent=1)
    shutil.rmtree(ROOT, ignore_errors=True)


if __name__ == '__main__':
    main()
