#!/bin/sh
# usage: try_seed.sh <patch.diff> <prop> [<prop>...]  - apply a seeded change to /repo, run checks, undo.
P=$1; shift
cd /repo || exit 9
if [ -n "$(git status --porcelain)" ]; then echo "/repo not clean"; exit 9; fi
git apply "$P" || { echo "patch does not apply"; exit 9; }
for c in "$@"; do
  ( cd /verif && SA_NOWRITE=1 /venv/bin/python -m sa check $c 2>&1 | grep -E "^(VIOLATION|ANALYSIS-ERROR|  construct|  [a-zA-Z])|^C[0-9]+ \[" | cut -c1-400 | head -12 )
done
git -C /repo checkout -- . 
